#!/bin/sh
# Runs every seeded change in /verif/seeded against the quick checks.
# Intended for `vp run --with-repo -- ./seeded_sweep.sh`: works on the snapshot of /repo
# ($VP_RUN_REPO) so that /repo itself is never touched; builds into ./target of the snapshot.
ROOT="$(cd "$(dirname "$0")" && pwd)"
REPO="${VP_RUN_REPO:-/repo}"
cd "$ROOT"
if [ "$REPO" != "/repo" ]; then
    sed -i "s#/repo/#$REPO/#g" sim/shadow/rodbus/Cargo.toml sim/shadow/rodbus-ffi/Cargo.toml
    sed -i "s#/repo/#$REPO/#g" shuttle_engine/shadow/rodbus/Cargo.toml shuttle_engine/shadow/rodbus-ffi/Cargo.toml
fi
ALL="C01 C02 C03 C04 C05 C06 C07 C08 C09 C10 C11 C12 C13 C14 C15 C16 C17 C18 C19 C20"
./check build || exit 2
# optional sharding: seeded_sweep.sh <k> <n> handles every n-th change starting with the k-th
K="${1:-0}"; N="${2:-1}"; I=0
: > seeded_results.txt
for D in seeded/C*/; do
    I=$((I+1)); [ $((I % N)) -eq "$K" ] || continue
    ID=$(basename "$D"); P=${ID%%-*}
    # optional restriction to some properties: SWEEP_PROPS="C06 C17"
    if [ -n "$SWEEP_PROPS" ]; then case " $SWEEP_PROPS " in *" $P "*) ;; *) continue ;; esac; fi
    git -C "$REPO" checkout -q -- . 
    if ! git -C "$REPO" apply "$ROOT/$D/patch.diff" 2>/dev/null; then echo "$ID APPLY-FAILED" >> seeded_results.txt; continue; fi
    if [ -n "$VERIF_SWEEP_LEAN" ] && { [ "$P" = C18 ] || [ "$P" = C19 ]; }; then
        # the simulation engine alone first (the Miri rebuild per change dominates the time); all engines if it is quiet
        OUT=$(./check $P --tier quick --only "" 2>&1); RC=$?
        [ $RC -eq 0 ] && { OUT=$(./check $P --tier quick 2>&1); RC=$?; }
    else
        OUT=$(./check $P --tier quick 2>&1); RC=$?
    fi
    RULE=$(echo "$OUT" | grep -m1 "rule=" | cut -c1-200)
    LINE="$ID own=$P rc=$RC $RULE"
    if [ $RC -eq 0 ]; then
        OTHERS=""
        for Q in $ALL; do
            [ "$Q" = "$P" ] && continue
            ./check $Q --tier quick >/dev/null 2>&1; R=$?
            [ $R -ne 0 ] && OTHERS="$OTHERS $Q=$R"
        done
        LINE="$LINE others:[$OTHERS ]"
    fi
    echo "$LINE" >> seeded_results.txt
    echo "$LINE"
done
git -C "$REPO" checkout -q -- .
echo "SWEEP DONE"
