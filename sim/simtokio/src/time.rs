//! Simulated clock: `Instant`, `sleep`, `sleep_until`, `timeout`.

use crate::kernel;
use std::future::Future;
use std::pin::Pin;
use std::task::{Context, Poll};

pub use std::time::Duration;

pub mod error {
    #[derive(Debug, PartialEq, Eq, Clone, Copy)]
    pub struct Elapsed(pub(crate) ());
    impl std::fmt::Display for Elapsed {
        fn fmt(&self, f: &mut std::fmt::Formatter<'_>) -> std::fmt::Result {
            f.write_str("deadline has elapsed")
        }
    }
    impl std::error::Error for Elapsed {}
}

/// Nanoseconds since simulation start, saturating.
#[derive(Clone, Copy, Debug, PartialEq, Eq, PartialOrd, Ord, Hash)]
pub struct Instant {
    ns: u64,
}

fn dur_ns(d: Duration) -> u64 {
    let n = d.as_nanos();
    if n > u64::MAX as u128 {
        u64::MAX
    } else {
        n as u64
    }
}

impl Instant {
    pub fn now() -> Instant {
        Instant { ns: kernel::now_ns() }
    }
    pub fn from_ns(ns: u64) -> Instant {
        Instant { ns }
    }
    pub fn as_ns(&self) -> u64 {
        self.ns
    }
    pub fn duration_since(&self, earlier: Instant) -> Duration {
        Duration::from_nanos(self.ns.saturating_sub(earlier.ns))
    }
    pub fn saturating_duration_since(&self, earlier: Instant) -> Duration {
        self.duration_since(earlier)
    }
    pub fn checked_duration_since(&self, earlier: Instant) -> Option<Duration> {
        self.ns.checked_sub(earlier.ns).map(Duration::from_nanos)
    }
    pub fn elapsed(&self) -> Duration {
        Instant::now().duration_since(*self)
    }
    pub fn checked_add(&self, d: Duration) -> Option<Instant> {
        // mirror std (Linux: seconds in an i64): an instant + duration whose seconds leave that range is
        // None, and `+` panics on it. Below that limit the simulated clock saturates far in the future
        // (584 years), so that merely absurd timeouts behave as "never".
        let secs = self.ns / 1_000_000_000;
        if d.as_secs() > (i64::MAX as u64).saturating_sub(secs) {
            return None;
        }
        Some(Instant {
            ns: self.ns.saturating_add(dur_ns(d)),
        })
    }
    /// what tokio itself falls back to when a deadline overflows (about 30 years ahead)
    pub fn far_future() -> Instant {
        Instant {
            ns: kernel::now_ns().saturating_add(86_400 * 365 * 30 * 1_000_000_000),
        }
    }
    pub fn checked_sub(&self, d: Duration) -> Option<Instant> {
        self.ns.checked_sub(dur_ns(d)).map(|ns| Instant { ns })
    }
}

impl std::ops::Add<Duration> for Instant {
    type Output = Instant;
    fn add(self, rhs: Duration) -> Instant {
        self.checked_add(rhs).expect("overflow when adding duration to instant")
    }
}
impl std::ops::AddAssign<Duration> for Instant {
    fn add_assign(&mut self, rhs: Duration) {
        *self = *self + rhs;
    }
}
impl std::ops::Sub<Duration> for Instant {
    type Output = Instant;
    fn sub(self, rhs: Duration) -> Instant {
        Instant {
            ns: self.ns.saturating_sub(dur_ns(rhs)),
        }
    }
}
impl std::ops::SubAssign<Duration> for Instant {
    fn sub_assign(&mut self, rhs: Duration) {
        *self = *self - rhs;
    }
}
impl std::ops::Sub<Instant> for Instant {
    type Output = Duration;
    fn sub(self, rhs: Instant) -> Duration {
        self.duration_since(rhs)
    }
}

#[derive(Debug)]
#[must_use = "futures do nothing unless polled"]
pub struct Sleep {
    deadline: u64,
    key: Option<(u64, u64)>,
}

impl Sleep {
    pub fn deadline(&self) -> Instant {
        Instant { ns: self.deadline }
    }
    pub fn is_elapsed(&self) -> bool {
        kernel::now_ns() >= self.deadline
    }
    pub fn reset(mut self: Pin<&mut Self>, deadline: Instant) {
        if let Some(k) = self.key.take() {
            kernel::timer_cancel(k);
        }
        self.deadline = deadline.ns;
    }
}

impl Future for Sleep {
    type Output = ();
    fn poll(mut self: Pin<&mut Self>, cx: &mut Context<'_>) -> Poll<()> {
        if kernel::now_ns() >= self.deadline {
            if let Some(k) = self.key.take() {
                kernel::timer_cancel(k);
            }
            // tokio's cooperative budget: a task that has done a lot of work inside one poll (here: 128
            // kernel events) is made to yield by the next timer it polls, even if that timer has elapsed.
            // Without it a loop over elapsed timers and immediately failing I/O (retry delay zero, connect
            // refused at once) would never return from its poll, which no real runtime lets happen
            let exhausted = kernel::with(|w| {
                if w.in_poll.is_some() && w.events_in_poll >= 128 {
                    w.count("coop_budget_yield");
                    true
                } else {
                    false
                }
            });
            if exhausted {
                cx.waker().wake_by_ref();
                return Poll::Pending;
            }
            return Poll::Ready(());
        }
        if let Some(k) = self.key.take() {
            kernel::timer_cancel(k);
        }
        let d = self.deadline;
        self.key = Some(kernel::timer_register(d, cx.waker().clone()));
        Poll::Pending
    }
}

impl Drop for Sleep {
    fn drop(&mut self) {
        if let Some(k) = self.key.take() {
            kernel::timer_cancel(k);
        }
    }
}

pub fn sleep_until(deadline: Instant) -> Sleep {
    Sleep {
        deadline: deadline.ns,
        key: None,
    }
}

pub fn sleep(d: Duration) -> Sleep {
    // like tokio: an overflowing deadline is replaced by one far in the future
    sleep_until(Instant::now().checked_add(d).unwrap_or_else(Instant::far_future))
}

pub struct Timeout<F> {
    fut: Pin<Box<F>>,
    sleep: Sleep,
}

impl<F: Future> Future for Timeout<F> {
    type Output = Result<F::Output, error::Elapsed>;
    fn poll(mut self: Pin<&mut Self>, cx: &mut Context<'_>) -> Poll<Self::Output> {
        let this = &mut *self;
        if let Poll::Ready(v) = this.fut.as_mut().poll(cx) {
            return Poll::Ready(Ok(v));
        }
        match Pin::new(&mut this.sleep).poll(cx) {
            Poll::Ready(()) => Poll::Ready(Err(error::Elapsed(()))),
            Poll::Pending => Poll::Pending,
        }
    }
}

pub fn timeout<F: Future>(d: Duration, fut: F) -> Timeout<F> {
    Timeout {
        fut: Box::pin(fut),
        sleep: sleep(d),
    }
}

pub fn timeout_at<F: Future>(deadline: Instant, fut: F) -> Timeout<F> {
    Timeout {
        fut: Box::pin(fut),
        sleep: sleep_until(deadline),
    }
}

// ---------------------------------------------------------------- interval (API completeness)

#[derive(Debug, Clone, Copy, PartialEq, Eq, Default)]
pub enum MissedTickBehavior {
    #[default]
    Burst,
    Delay,
    Skip,
}

/// `tokio::time::interval` on the simulated clock
#[derive(Debug)]
pub struct Interval {
    next: u64,
    period: u64,
    behavior: MissedTickBehavior,
    sleep: Option<Pin<Box<Sleep>>>,
}

pub fn interval(period: Duration) -> Interval {
    interval_at(Instant::now(), period)
}

pub fn interval_at(start: Instant, period: Duration) -> Interval {
    assert!(period > Duration::ZERO, "`period` must be non-zero.");
    Interval {
        next: start.ns,
        period: dur_ns(period).max(1),
        behavior: MissedTickBehavior::Burst,
        sleep: None,
    }
}

impl Interval {
    pub async fn tick(&mut self) -> Instant {
        std::future::poll_fn(|cx| self.poll_tick(cx)).await
    }
    pub fn poll_tick(&mut self, cx: &mut Context<'_>) -> Poll<Instant> {
        let next = self.next;
        let s = self.sleep.get_or_insert_with(|| Box::pin(sleep_until(Instant { ns: next })));
        match s.as_mut().poll(cx) {
            Poll::Pending => Poll::Pending,
            Poll::Ready(()) => {
                self.sleep = None;
                let now = kernel::now_ns();
                let fired = self.next;
                self.next = match self.behavior {
                    MissedTickBehavior::Burst => fired.saturating_add(self.period),
                    MissedTickBehavior::Delay => now.saturating_add(self.period),
                    MissedTickBehavior::Skip => {
                        let behind = now.saturating_sub(fired);
                        fired.saturating_add((behind / self.period + 1) * self.period)
                    }
                };
                Poll::Ready(Instant { ns: fired })
            }
        }
    }
    pub fn reset(&mut self) {
        self.sleep = None;
        self.next = kernel::now_ns().saturating_add(self.period);
    }
    pub fn period(&self) -> Duration {
        Duration::from_nanos(self.period)
    }
    pub fn missed_tick_behavior(&self) -> MissedTickBehavior {
        self.behavior
    }
    pub fn set_missed_tick_behavior(&mut self, b: MissedTickBehavior) {
        self.behavior = b;
    }
}
