//! `spawn` and `JoinHandle` on the simulated executor.

use crate::kernel;
use std::future::Future;
use std::pin::Pin;
use std::sync::{Arc, Mutex};
use std::task::{Context, Poll, Waker};

pub use real_tokio::task::yield_now;

#[derive(Debug)]
pub struct JoinError {
    cancelled: bool,
}

impl JoinError {
    pub fn is_cancelled(&self) -> bool {
        self.cancelled
    }
    pub fn is_panic(&self) -> bool {
        !self.cancelled
    }
}

impl std::fmt::Display for JoinError {
    fn fmt(&self, f: &mut std::fmt::Formatter<'_>) -> std::fmt::Result {
        if self.cancelled {
            f.write_str("task was cancelled")
        } else {
            f.write_str("task panicked")
        }
    }
}
impl std::error::Error for JoinError {}

struct JoinState<T> {
    result: Option<Result<T, JoinError>>,
    waker: Option<Waker>,
    finished: bool,
}

pub struct JoinHandle<T> {
    id: kernel::TaskId,
    state: Arc<Mutex<JoinState<T>>>,
}

impl<T> std::fmt::Debug for JoinHandle<T> {
    fn fmt(&self, f: &mut std::fmt::Formatter<'_>) -> std::fmt::Result {
        write!(f, "JoinHandle({})", self.id)
    }
}

// completes the join state with "cancelled/panicked" if the wrapper future is
// dropped without finishing
struct Guard<T> {
    state: Arc<Mutex<JoinState<T>>>,
}

impl<T> Drop for Guard<T> {
    fn drop(&mut self) {
        let wk = {
            let mut s = self.state.lock().unwrap();
            if !s.finished {
                s.finished = true;
                s.result = Some(Err(JoinError {
                    cancelled: !std::thread::panicking(),
                }));
            }
            s.waker.take()
        };
        if let Some(wk) = wk {
            wk.wake();
        }
    }
}

impl<T> JoinHandle<T> {
    pub fn abort(&self) {
        kernel::abort_task(self.id);
    }
    pub fn is_finished(&self) -> bool {
        self.state.lock().unwrap().finished
    }
    pub fn sim_task_id(&self) -> kernel::TaskId {
        self.id
    }
    pub fn abort_handle(&self) -> AbortHandle {
        AbortHandle { id: self.id }
    }
}

#[derive(Debug, Clone)]
pub struct AbortHandle {
    id: kernel::TaskId,
}

impl AbortHandle {
    pub fn abort(&self) {
        kernel::abort_task(self.id);
    }
}

impl<T> Future for JoinHandle<T> {
    type Output = Result<T, JoinError>;
    fn poll(self: Pin<&mut Self>, cx: &mut Context<'_>) -> Poll<Self::Output> {
        let mut s = self.state.lock().unwrap();
        if let Some(r) = s.result.take() {
            return Poll::Ready(r);
        }
        s.waker = Some(cx.waker().clone());
        Poll::Pending
    }
}

pub fn spawn_named<F>(name: &'static str, fut: F) -> JoinHandle<F::Output>
where
    F: Future + Send + 'static,
    F::Output: Send + 'static,
{
    let state = Arc::new(Mutex::new(JoinState {
        result: None,
        waker: None,
        finished: false,
    }));
    let guard = Guard {
        state: state.clone(),
    };
    let wrapped = async move {
        let guard = guard;
        let out = fut.await;
        let wk = {
            let mut s = guard.state.lock().unwrap();
            s.finished = true;
            s.result = Some(Ok(out));
            s.waker.take()
        };
        if let Some(wk) = wk {
            wk.wake();
        }
    };
    let id = kernel::spawn_raw(name, Box::pin(wrapped));
    JoinHandle { id, state }
}

pub fn spawn<F>(fut: F) -> JoinHandle<F::Output>
where
    F: Future + Send + 'static,
    F::Output: Send + 'static,
{
    spawn_named("spawned", fut)
}

/// `tokio::task::spawn_blocking`: there are no other threads in the simulation, the closure runs right away
pub fn spawn_blocking<F, R>(f: F) -> JoinHandle<R>
where
    F: FnOnce() -> R + Send + 'static,
    R: Send + 'static,
{
    spawn_named("blocking", async move { f() })
}
