//! Simulated serial ports: a registry `path -> line`, open-outcome plans,
//! port loss, and a byte pipe to a director-side peer.

use crate::kernel::{self, with};
use crate::net::Pipe;
use real_tokio::io::ReadBuf;
use std::collections::{BTreeMap, VecDeque};
use std::io;
use std::task::{Context, Poll};

#[derive(Clone, Copy, Debug, PartialEq, Eq)]
pub enum OpenOutcome {
    Ok,
    NoDevice,
    Busy,
}

#[derive(Clone, Debug)]
pub struct OpenAttempt {
    pub at: u64,
    pub ok: bool,
}

pub struct Line {
    pub plan: VecDeque<OpenOutcome>,
    pub default_outcome: OpenOutcome,
    pub is_open: bool,
    pub opens: Vec<OpenAttempt>,
    pub closes: Vec<u64>,
    /// peer -> port
    pub to_port: Pipe,
    /// port -> peer
    pub from_port: Pipe,
    /// bytes written by the peer while the port is closed vanish (UART) instead
    /// of being buffered (pty / USB adapter)
    pub discard_when_closed: bool,
    pub baud: u32,
    pub generation: u64,
    /// (time, len) of every write call made by the port owner
    pub writes: Vec<(u64, usize)>,
}

impl Line {
    fn new() -> Self {
        Line {
            plan: VecDeque::new(),
            default_outcome: OpenOutcome::Ok,
            is_open: false,
            opens: Vec::new(),
            closes: Vec::new(),
            to_port: Pipe::new(),
            from_port: Pipe::new(),
            discard_when_closed: true,
            baud: 9600,
            generation: 0,
            writes: Vec::new(),
        }
    }
}

#[derive(Default)]
pub struct SerialWorld {
    pub lines: BTreeMap<String, Line>,
}

fn sw(w: &mut kernel::World) -> &mut SerialWorld {
    w.ext
        .entry("serial")
        .or_insert_with(|| Box::new(SerialWorld::default()))
        .downcast_mut::<SerialWorld>()
        .unwrap()
}

fn line<'a>(w: &'a mut kernel::World, path: &str) -> &'a mut Line {
    let s = sw(w);
    if !s.lines.contains_key(path) {
        s.lines.insert(path.to_string(), Line::new());
    }
    s.lines.get_mut(path).unwrap()
}

// ------------------------------------------------------------ director API

pub fn add_line(path: &str, default_outcome: OpenOutcome, discard_when_closed: bool) {
    with(|w| {
        let l = line(w, path);
        l.default_outcome = default_outcome;
        l.discard_when_closed = discard_when_closed;
    })
}

pub fn set_default_outcome(path: &str, o: OpenOutcome) {
    with(|w| line(w, path).default_outcome = o)
}

pub fn plan_open(path: &str, o: OpenOutcome) {
    with(|w| line(w, path).plan.push_back(o))
}

/// the baud rate the port was last opened with
pub fn line_baud(path: &str) -> u32 {
    with(|w| line(w, path).baud)
}

pub fn clear_plan(path: &str) {
    with(|w| line(w, path).plan.clear());
}

pub fn is_open(path: &str) -> bool {
    with(|w| line(w, path).is_open)
}

pub fn opens(path: &str) -> Vec<OpenAttempt> {
    with(|w| line(w, path).opens.clone())
}

pub fn closes(path: &str) -> Vec<u64> {
    with(|w| line(w, path).closes.clone())
}

pub fn writes(path: &str) -> Vec<(u64, usize)> {
    with(|w| line(w, path).writes.clone())
}

pub fn line_write(path: &str, data: &[u8]) {
    line_write_delayed(path, data, 0)
}

pub fn line_write_delayed(path: &str, data: &[u8], delay: u64) {
    let wk = with(|w| {
        let now = w.now;
        w.event("line_write", data.len() as u64, 0);
        let l = line(w, path);
        if (!l.is_open && l.discard_when_closed) || l.to_port.read_fault.is_some() {
            return None;
        }
        l.to_port.push(now.saturating_add(delay), data);
        l.to_port.rd_waker.take()
    });
    if let Some(wk) = wk {
        wk.wake();
    }
}

pub fn line_take(path: &str) -> Vec<u8> {
    let (v, wk) = with(|w| {
        let l = line(w, path);
        (l.from_port.drain_all(), l.from_port.wr_waker.take())
    });
    if let Some(wk) = wk {
        wk.wake();
    }
    v
}

/// discard everything the peer has written that the port has not read yet (line goes quiet)
/// fault: the far end accepts at most `n` unread bytes from the port (flow control, a stalled adapter)
pub fn set_capacity(path: &str, n: usize) {
    let wk = with(|w| {
        let l = line(w, path);
        l.from_port.capacity = n;
        l.from_port.wr_waker.take()
    });
    if let Some(wk) = wk {
        wk.wake();
    }
}

pub fn line_clear(path: &str) {
    with(|w| {
        let l = line(w, path);
        let _ = l.to_port.drain_all();
    })
}

pub fn line_total_from_port(path: &str) -> u64 {
    with(|w| line(w, path).from_port.total_written)
}

/// the open port's next read fails with `kind` (device unplugged)
pub fn inject_port_lost(path: &str, kind: io::ErrorKind) {
    let wk = with(|w| {
        w.count("fault_port_lost");
        w.event("inject_port_lost", 0, 0);
        let l = line(w, path);
        // bytes already on the line are still delivered first
        l.to_port.read_fault = Some((l.to_port.total_written, kind));
        l.to_port.rd_waker.take()
    });
    if let Some(wk) = wk {
        wk.wake();
    }
}

/// a write of the open port fails with `kind` once `after_bytes` more bytes have been written
/// (cleared when the port is opened again)
pub fn inject_write_fault(path: &str, after_bytes: u64, kind: io::ErrorKind) {
    with(|w| {
        w.count("fault_serial_write_error");
        w.event("inject_serial_write_fault", after_bytes, 0);
        let l = line(w, path);
        l.from_port.write_fault = Some((l.from_port.total_written + after_bytes, kind));
    });
}

// ------------------------------------------------------------ port side

#[derive(Debug)]
pub struct PortHandle {
    path: String,
    generation: u64,
    baud: u32,
}

pub fn open(path: &str, baud: u32) -> Result<PortHandle, OpenOutcome> {
    with(|w| {
        let now = w.now;
        w.event("serial_open", baud as u64, 0);
        let l = line(w, path);
        let mut outcome = l.plan.pop_front().unwrap_or(l.default_outcome);
        if outcome == OpenOutcome::Ok && l.is_open {
            outcome = OpenOutcome::Busy;
        }
        l.opens.push(OpenAttempt {
            at: now,
            ok: outcome == OpenOutcome::Ok,
        });
        if outcome != OpenOutcome::Ok {
            w.count("fault_open_fail");
            return Err(outcome);
        }
        l.is_open = true;
        l.generation += 1;
        l.baud = baud;
        l.to_port.read_fault = None;
        l.from_port.write_fault = None;
        l.to_port.rd_closed = false;
        l.to_port.wr_closed = false;
        l.from_port.rd_closed = false;
        l.from_port.wr_closed = false;
        if l.discard_when_closed {
            let _ = l.to_port.drain_all();
        }
        Ok(PortHandle {
            path: path.to_string(),
            generation: l.generation,
            baud,
        })
    })
}

impl PortHandle {
    pub fn baud(&self) -> u32 {
        self.baud
    }

    pub fn poll_read(&mut self, cx: &mut Context<'_>, buf: &mut ReadBuf<'_>) -> Poll<io::Result<()>> {
        let mut timer = None;
        let path = self.path.clone();
        let res = with(|w| {
            let now = w.now;
            let chunking = w.cfg.chunk_reads && !w.canonical;
            if buf.remaining() == 0 {
                w.net.zero_capacity_reads += 1;
                w.event("zero_capacity_read", 9999, 0);
                return Poll::Ready(Ok(()));
            }
            let p = &mut line(w, &path).to_port;
            if let Some((at, kind)) = p.read_fault {
                if p.total_read >= at {
                    // transient kinds are reported once, the line is intact afterwards
                    if matches!(kind, io::ErrorKind::Interrupted | io::ErrorKind::WouldBlock) {
                        p.read_fault = None;
                    }
                    w.event("serial_read_err", 0, 0);
                    return Poll::Ready(Err(io::Error::from(kind)));
                }
            }
            let mut avail = p.available(now);
            if let Some((at, _)) = p.read_fault {
                avail = avail.min((at - p.total_read) as usize);
            }
            if avail == 0 {
                if let Some(t) = p.next_ready() {
                    if t > now {
                        timer = Some(t);
                        return Poll::Pending;
                    }
                }
                p.rd_waker = Some(cx.waker().clone());
                return Poll::Pending;
            }
            let max = avail.min(buf.remaining());
            let mut n = max;
            if chunking && max > 1 {
                match w.tape.weighted(&[4, 1, 2]) {
                    0 => {}
                    1 => {
                        n = 1;
                        *w.counters.entry("fault_chunk").or_insert(0) += 1;
                    }
                    _ => {
                        n = 1 + w.tape.choose(max as u32 - 1) as usize;
                        *w.counters.entry("fault_chunk").or_insert(0) += 1;
                    }
                }
            }
            let p = &mut line(w, &path).to_port;
            let mut tmp = Vec::with_capacity(n);
            p.pop(n, &mut tmp);
            buf.put_slice(&tmp);
            w.event("serial_read", n as u64, 0);
            Poll::Ready(Ok(()))
        });
        if let Some(t) = timer {
            kernel::timer_register(t, cx.waker().clone());
        }
        res
    }

    pub fn poll_write(&mut self, cx: &mut Context<'_>, data: &[u8]) -> Poll<io::Result<usize>> {
        let path = self.path.clone();
        with(|w| {
            let now = w.now;
            let short = w.cfg.short_writes && !w.canonical;
            // flow control / a full driver buffer: only as much as the far end leaves room for
            let space = {
                let l = line(w, &path);
                l.from_port.capacity.saturating_sub(l.from_port.buffered)
            };
            if space == 0 && !data.is_empty() {
                line(w, &path).from_port.wr_waker = Some(cx.waker().clone());
                *w.counters.entry("fault_write_stall").or_insert(0) += 1;
                return Poll::Pending;
            }
            let mut n = data.len().min(space);
            {
                let l = line(w, &path);
                if let Some((at, kind)) = l.from_port.write_fault {
                    if l.from_port.total_written >= at {
                        return Poll::Ready(Err(io::Error::from(kind)));
                    }
                    // only the bytes before the fault leave the port
                    n = n.min((at - l.from_port.total_written) as usize);
                }
            }
            if short && n > 1 {
                match w.tape.weighted(&[4, 1, 2]) {
                    0 => {}
                    1 => {
                        n = 1;
                        *w.counters.entry("fault_short_write").or_insert(0) += 1;
                    }
                    _ => {
                        n = 1 + w.tape.choose(n as u32 - 1) as usize;
                        *w.counters.entry("fault_short_write").or_insert(0) += 1;
                    }
                }
            }
            let l = line(w, &path);
            if let Some((at, kind)) = l.from_port.write_fault {
                if l.from_port.total_written >= at {
                    return Poll::Ready(Err(io::Error::from(kind)));
                }
            }
            l.writes.push((now, n));
            l.from_port.push(now, &data[..n]);
            w.event("serial_write", n as u64, 0);
            Poll::Ready(Ok(n))
        })
    }
}

impl Drop for PortHandle {
    fn drop(&mut self) {
        let path = self.path.clone();
        let gen = self.generation;
        let _ = kernel::try_with(|w| {
            let now = w.now;
            w.event("serial_close", 0, 0);
            let l = line(w, &path);
            if l.generation == gen {
                l.is_open = false;
                l.closes.push(now);
            }
        });
    }
}
