//! Just enough of `tokio::runtime` for the generated C-ABI runtime wrapper.

use crate::kernel;
use std::future::Future;
use std::time::Duration;

#[derive(Debug)]
pub struct TryCurrentError(());

impl std::fmt::Display for TryCurrentError {
    fn fmt(&self, f: &mut std::fmt::Formatter<'_>) -> std::fmt::Result {
        f.write_str("there is no reactor running")
    }
}
impl std::error::Error for TryCurrentError {}

#[derive(Clone, Debug)]
pub struct Handle {
    id: u64,
}

impl Handle {
    pub fn try_current() -> Result<Handle, TryCurrentError> {
        match kernel::try_with(|w| (w.in_poll.is_some(), w.current_runtime)) {
            Some((true, id)) => Ok(Handle { id }),
            _ => Err(TryCurrentError(())),
        }
    }
    pub fn current() -> Handle {
        Self::try_current().expect("no simulated runtime context")
    }
    pub fn block_on<F: Future>(&self, fut: F) -> F::Output {
        let prev = kernel::with(|w| std::mem::replace(&mut w.current_runtime, self.id));
        let out = kernel::block_on(fut);
        kernel::with(|w| w.current_runtime = prev);
        out
    }
    pub fn spawn<F>(&self, fut: F) -> crate::task::JoinHandle<F::Output>
    where
        F: Future + Send + 'static,
        F::Output: Send + 'static,
    {
        let prev = kernel::with(|w| std::mem::replace(&mut w.current_runtime, self.id));
        let h = crate::task::spawn_named("rt-spawned", fut);
        kernel::with(|w| w.current_runtime = prev);
        h
    }
    pub fn enter(&self) -> EnterGuard<'_> {
        let prev = kernel::with(|w| std::mem::replace(&mut w.current_runtime, self.id));
        EnterGuard {
            prev,
            _p: std::marker::PhantomData,
        }
    }
}

pub struct EnterGuard<'a> {
    prev: u64,
    _p: std::marker::PhantomData<&'a ()>,
}

impl Drop for EnterGuard<'_> {
    fn drop(&mut self) {
        let _ = kernel::try_with(|w| w.current_runtime = self.prev);
    }
}

#[derive(Debug)]
pub struct Runtime {
    handle: Handle,
}

impl Runtime {
    pub fn new() -> std::io::Result<Runtime> {
        Builder::new_multi_thread().build()
    }
    pub fn handle(&self) -> &Handle {
        &self.handle
    }
    pub fn enter(&self) -> EnterGuard<'_> {
        self.handle.enter()
    }
    pub fn block_on<F: Future>(&self, fut: F) -> F::Output {
        self.handle.block_on(fut)
    }
    pub fn spawn<F>(&self, fut: F) -> crate::task::JoinHandle<F::Output>
    where
        F: Future + Send + 'static,
        F::Output: Send + 'static,
    {
        self.handle.spawn(fut)
    }
    pub fn shutdown_timeout(self, _d: Duration) {
        drop(self)
    }
    pub fn shutdown_background(self) {
        drop(self)
    }
}

impl Drop for Runtime {
    fn drop(&mut self) {
        if kernel::installed() {
            // real tokio drops every task when the runtime goes away
            kernel::abort_runtime(self.handle.id);
            kernel::settle();
        }
    }
}

#[derive(Debug, Default)]
pub struct Builder {
    _threads: usize,
}

impl Builder {
    pub fn new_multi_thread() -> Builder {
        Builder::default()
    }
    pub fn new_current_thread() -> Builder {
        Builder::default()
    }
    pub fn worker_threads(&mut self, n: usize) -> &mut Self {
        self._threads = n;
        self
    }
    pub fn enable_all(&mut self) -> &mut Self {
        self
    }
    pub fn enable_io(&mut self) -> &mut Self {
        self
    }
    pub fn enable_time(&mut self) -> &mut Self {
        self
    }
    pub fn thread_name(&mut self, _n: impl Into<String>) -> &mut Self {
        self
    }
    pub fn build(&mut self) -> std::io::Result<Runtime> {
        let id = kernel::with(|w| {
            let id = w.next_runtime;
            w.next_runtime += 1;
            id
        });
        Ok(Runtime {
            handle: Handle { id },
        })
    }
}
