//! Facade over tokio: everything is real tokio except the sources of
//! nondeterminism (network, clock, spawner, runtime, `select!` start index),
//! which are routed to the deterministic simulation kernel.

pub use real_tokio::*;

pub mod kernel;
pub mod net;
pub mod runtime;
pub mod serial;
pub mod task;
pub mod time;

pub use task::spawn;

#[doc(hidden)]
pub fn sim_rng_n(n: u32) -> u32 {
    kernel::select_start(n)
}

#[macro_export]
macro_rules! select {
    (biased; $($t:tt)*) => {
        $crate::__real_select!(biased; $($t)*)
    };
    ( $p:pat = $($t:tt)* ) => {
        $crate::__real_select!(@{ start={ $crate::sim_rng_n(BRANCHES) }; () } $p = $($t)*)
    };
    ($($t:tt)*) => {
        $crate::__real_select!($($t)*)
    };
}

#[doc(hidden)]
pub use real_tokio::select as __real_select;
