//! Deterministic simulation kernel: executor, virtual clock, choice tape, event log.
//!
//! One `World` per OS thread (thread-local). Nothing here reads a real clock, a
//! real RNG or an address; every decision goes through `choose`.

use std::cell::RefCell;
use std::collections::BTreeMap;
use std::future::Future;
use std::panic::AssertUnwindSafe;
use std::pin::Pin;
use std::sync::{Arc, Mutex};
use std::task::{Context, Poll, Wake, Waker};

pub type TaskId = usize;

// ------------------------------------------------------------------ tape

/// xoshiro256** — fixed algorithm so that a seed means the same run forever.
#[derive(Clone)]
pub struct Rng {
    s: [u64; 4],
}

fn splitmix(x: &mut u64) -> u64 {
    *x = x.wrapping_add(0x9E3779B97F4A7C15);
    let mut z = *x;
    z = (z ^ (z >> 30)).wrapping_mul(0xBF58476D1CE4E5B9);
    z = (z ^ (z >> 27)).wrapping_mul(0x94D049BB133111EB);
    z ^ (z >> 31)
}

impl Rng {
    pub fn new(seed: u64, stream: u64) -> Self {
        let mut x = seed ^ stream.wrapping_mul(0xD6E8FEB86659FD93).rotate_left(17);
        let mut s = [0u64; 4];
        for v in s.iter_mut() {
            *v = splitmix(&mut x);
        }
        Rng { s }
    }
    pub fn next_u64(&mut self) -> u64 {
        let r = self.s[1].wrapping_mul(5).rotate_left(7).wrapping_mul(9);
        let t = self.s[1] << 17;
        self.s[2] ^= self.s[0];
        self.s[3] ^= self.s[1];
        self.s[1] ^= self.s[2];
        self.s[0] ^= self.s[3];
        self.s[2] ^= t;
        self.s[3] = self.s[3].rotate_left(45);
        r
    }
    pub fn below(&mut self, n: u64) -> u64 {
        if n <= 1 {
            0
        } else {
            self.next_u64() % n
        }
    }
}

/// The choice tape. In generate mode values come from the PRNG and are
/// recorded; in replay mode they are read back (exhausted / out of range => 0,
/// which by convention is always the simplest choice).
pub struct Tape {
    pub values: Vec<u32>,
    pos: usize,
    rng: Option<Rng>,
}

impl Tape {
    pub fn generate(seed: u64, run: u64) -> Self {
        Tape {
            values: Vec::new(),
            pos: 0,
            rng: Some(Rng::new(seed, run)),
        }
    }
    pub fn replay(values: Vec<u32>) -> Self {
        Tape {
            values,
            pos: 0,
            rng: None,
        }
    }
    pub fn is_replay(&self) -> bool {
        self.rng.is_none()
    }
    /// number of entries consumed so far
    pub fn consumed(&self) -> usize {
        self.pos
    }
    /// uniform choice in 0..n
    pub fn choose(&mut self, n: u32) -> u32 {
        if n <= 1 {
            return 0;
        }
        match &mut self.rng {
            Some(r) => {
                let v = r.below(n as u64) as u32;
                self.values.push(v);
                self.pos += 1;
                v
            }
            None => {
                let v = self.values.get(self.pos).copied().unwrap_or(0);
                self.pos += 1;
                if v >= n {
                    0
                } else {
                    v
                }
            }
        }
    }
    /// weighted choice; index 0 should be the simplest alternative
    pub fn weighted(&mut self, weights: &[u32]) -> u32 {
        let n = weights.len() as u32;
        if n <= 1 {
            return 0;
        }
        match &mut self.rng {
            Some(r) => {
                let total: u64 = weights.iter().map(|w| *w as u64).sum();
                let mut x = r.below(total.max(1));
                let mut idx = 0u32;
                for (i, w) in weights.iter().enumerate() {
                    if x < *w as u64 {
                        idx = i as u32;
                        break;
                    }
                    x -= *w as u64;
                }
                self.values.push(idx);
                self.pos += 1;
                idx
            }
            None => {
                let v = self.values.get(self.pos).copied().unwrap_or(0);
                self.pos += 1;
                if v >= n || weights[v as usize] == 0 {
                    0
                } else {
                    v
                }
            }
        }
    }
    /// true with probability num/den; recorded as 1/0 (0 = "no")
    pub fn chance(&mut self, num: u32, den: u32) -> bool {
        if num == 0 {
            return false;
        }
        self.weighted(&[den.saturating_sub(num), num]) == 1
    }
}

// ------------------------------------------------------------------ events

#[derive(Clone, Default)]
pub struct EventLog {
    pub hash: u64,
    pub count: u64,
    pub trace: Option<Vec<String>>,
}

impl EventLog {
    fn mix(&mut self, x: u64) {
        // FNV-1a over the 8 bytes
        let mut h = if self.hash == 0 { 0xcbf29ce484222325 } else { self.hash };
        for b in x.to_le_bytes() {
            h ^= b as u64;
            h = h.wrapping_mul(0x100000001b3);
        }
        self.hash = h;
    }
}

// ------------------------------------------------------------------ tasks

struct ReadyState {
    queue: Vec<TaskId>,
    queued: Vec<bool>,
}

struct TaskWaker {
    id: TaskId,
    ready: Arc<Mutex<ReadyState>>,
}

impl Wake for TaskWaker {
    fn wake(self: Arc<Self>) {
        self.wake_by_ref()
    }
    fn wake_by_ref(self: &Arc<Self>) {
        let mut r = self.ready.lock().unwrap();
        if self.id < r.queued.len() && !r.queued[self.id] {
            r.queued[self.id] = true;
            r.queue.push(self.id);
        }
    }
}

type BoxFut = Pin<Box<dyn Future<Output = ()> + Send + 'static>>;

struct TaskSlot {
    fut: Option<BoxFut>,
    waker: Waker,
    name: &'static str,
    runtime: u64,
    abort: bool,
    polls: u64,
}

#[derive(Clone, Copy, Default)]
pub struct SimConfig {
    /// scheduler picks a random ready task (otherwise FIFO)
    pub sched_random: bool,
    /// select! start index is a choice (otherwise 0)
    pub select_random: bool,
    /// poll_read may return fewer bytes than available
    pub chunk_reads: bool,
    /// poll_write may accept fewer bytes than offered
    pub short_writes: bool,
    /// readable-after latency (ns) upper bound for bytes written by sim streams; 0 = none
    pub max_latency_ns: u64,
    /// collect a textual trace
    pub trace: bool,
}

pub struct World {
    pub now: u64,
    tasks: Vec<TaskSlot>,
    ready: Arc<Mutex<ReadyState>>,
    timers: BTreeMap<(u64, u64), Waker>,
    timer_seq: u64,
    pub tape: Tape,
    pub cfg: SimConfig,
    pub log: EventLog,
    pub steps: u64,
    pub panics: Vec<String>,
    pub counters: BTreeMap<&'static str, u64>,
    pub in_poll: Option<TaskId>,
    pub current_runtime: u64,
    pub next_runtime: u64,
    pub net: crate::net::NetWorld,
    pub ext: BTreeMap<&'static str, Box<dyn std::any::Any>>,
    pub spin_watch: (TaskId, u64),
    pub max_spin: u64,
    /// kernel events since the current poll started (runaway-poll watchdog)
    pub events_in_poll: u64,
    pub max_events_in_poll: u64,
    /// force the canonical schedule (FIFO ready queue, select! start 0, whole reads and
    /// writes, no latency) whatever the scenario configures; used by paired replays
    pub canonical: bool,
}

thread_local! {
    static WORLD: RefCell<Option<World>> = const { RefCell::new(None) };
}

pub fn with<R>(f: impl FnOnce(&mut World) -> R) -> R {
    WORLD.with(|w| {
        let mut g = w.borrow_mut();
        let world = g.as_mut().expect("simtokio: no simulation installed on this thread");
        f(world)
    })
}

pub fn try_with<R>(f: impl FnOnce(&mut World) -> R) -> Option<R> {
    WORLD.with(|w| match w.try_borrow_mut() {
        Ok(mut g) => g.as_mut().map(f),
        Err(_) => None,
    })
}

pub fn installed() -> bool {
    WORLD.with(|w| w.try_borrow().map(|g| g.is_some()).unwrap_or(true))
}

/// Install a fresh world on this thread (dropping any previous one).
pub fn install(tape: Tape, cfg: SimConfig) {
    uninstall();
    let world = World {
        now: 0,
        tasks: Vec::new(),
        ready: Arc::new(Mutex::new(ReadyState {
            queue: Vec::new(),
            queued: Vec::new(),
        })),
        timers: BTreeMap::new(),
        timer_seq: 0,
        tape,
        cfg,
        log: EventLog {
            hash: 0,
            count: 0,
            trace: if cfg.trace { Some(Vec::new()) } else { None },
        },
        steps: 0,
        panics: Vec::new(),
        counters: BTreeMap::new(),
        in_poll: None,
        current_runtime: 0,
        next_runtime: 1,
        net: crate::net::NetWorld::default(),
        ext: BTreeMap::new(),
        spin_watch: (usize::MAX, 0),
        max_spin: 0,
        events_in_poll: 0,
        max_events_in_poll: 0,
        canonical: false,
    };
    WORLD.with(|w| *w.borrow_mut() = Some(world));
}

/// Tear the world down. Task futures are dropped *outside* the borrow because
/// their destructors call back into the kernel (closing streams, timers).
pub fn uninstall() -> Option<(Tape, EventLog)> {
    // drop tasks one at a time
    loop {
        let fut = WORLD.with(|w| {
            let mut g = w.borrow_mut();
            match g.as_mut() {
                None => None,
                Some(world) => {
                    for t in world.tasks.iter_mut() {
                        if t.fut.is_some() {
                            return t.fut.take();
                        }
                    }
                    None
                }
            }
        });
        match fut {
            Some(f) => {
                let _ = std::panic::catch_unwind(AssertUnwindSafe(move || drop(f)));
            }
            None => break,
        }
    }
    let old = WORLD.with(|w| w.borrow_mut().take());
    old.map(|mut w| {
        let tape = std::mem::replace(&mut w.tape, Tape::replay(Vec::new()));
        let log = std::mem::take(&mut w.log);
        // remaining pieces (net objects, wakers) are plain data
        let _ = std::panic::catch_unwind(AssertUnwindSafe(move || drop(w)));
        (tape, log)
    })
}

// ---- choices ---------------------------------------------------------------

pub fn choose(n: u32) -> u32 {
    with(|w| w.tape.choose(n))
}
pub fn weighted(weights: &[u32]) -> u32 {
    with(|w| w.tape.weighted(weights))
}
pub fn chance(num: u32, den: u32) -> bool {
    with(|w| w.tape.chance(num, den))
}

/// used by the `select!` facade
pub fn select_start(branches: u32) -> u32 {
    try_with(|w| {
        if w.cfg.select_random && !w.canonical {
            let v = w.tape.choose(branches);
            if v != 0 {
                *w.counters.entry("select_nonzero_start").or_insert(0) += 1;
            }
            v
        } else {
            0
        }
    })
    .unwrap_or(0)
}

// ---- log -------------------------------------------------------------------

pub fn event(kind: &'static str, a: u64, b: u64) {
    with(|w| w.event(kind, a, b))
}

pub fn count(name: &'static str) {
    with(|w| *w.counters.entry(name).or_insert(0) += 1)
}

pub fn count_n(name: &'static str, n: u64) {
    with(|w| *w.counters.entry(name).or_insert(0) += n)
}

impl World {
    pub fn event(&mut self, kind: &'static str, a: u64, b: u64) {
        if self.in_poll.is_some() {
            self.events_in_poll += 1;
            if self.events_in_poll > self.max_events_in_poll {
                self.max_events_in_poll = self.events_in_poll;
            }
            if self.events_in_poll == 300_000 {
                // a single poll that performs this many I/O operations never yields:
                // unwind it so that the run can be reported instead of hanging
                panic!("simtokio watchdog: task spins without yielding (300000 I/O events inside one poll, last: {})", kind);
            }
        }
        let mut k: u64 = 0;
        for ch in kind.bytes() {
            k = k.wrapping_mul(131).wrapping_add(ch as u64);
        }
        self.log.mix(k);
        self.log.mix(a);
        self.log.mix(b);
        self.log.mix(self.now);
        self.log.count += 1;
        if let Some(t) = &mut self.log.trace {
            if t.len() < 20000 {
                t.push(format!("#{} t={}ns {} {} {}", self.log.count, self.now, kind, a, b));
            }
        }
    }
    pub fn note(&mut self, text: String) {
        if let Some(t) = &mut self.log.trace {
            if t.len() < 20000 {
                t.push(format!("   t={}ns {}", self.now, text));
            }
        }
    }
    pub fn count(&mut self, name: &'static str) {
        *self.counters.entry(name).or_insert(0) += 1;
    }
}

pub fn note(f: impl FnOnce() -> String) {
    with(|w| {
        if w.log.trace.is_some() {
            let s = f();
            w.note(s);
        }
    })
}

// ---- time ------------------------------------------------------------------

pub fn now_ns() -> u64 {
    try_with(|w| w.now).unwrap_or(0)
}

/// register a timer; returns its key
pub fn timer_register(deadline: u64, waker: Waker) -> (u64, u64) {
    with(|w| {
        w.timer_seq += 1;
        let key = (deadline, w.timer_seq);
        w.timers.insert(key, waker);
        key
    })
}

pub fn timer_cancel(key: (u64, u64)) {
    let _ = try_with(|w| {
        w.timers.remove(&key);
    });
}

pub fn next_timer() -> Option<u64> {
    with(|w| w.timers.keys().next().map(|k| k.0))
}

fn fire_due_timers() -> usize {
    let due: Vec<Waker> = with(|w| {
        let now = w.now;
        let keys: Vec<(u64, u64)> = w.timers.range(..=(now, u64::MAX)).map(|(k, _)| *k).collect();
        let mut v = Vec::with_capacity(keys.len());
        for k in keys {
            if let Some(wk) = w.timers.remove(&k) {
                w.event("timer_fire", k.0, k.1);
                v.push(wk);
            }
        }
        v
    });
    let n = due.len();
    for wk in due {
        wk.wake();
    }
    n
}

// ---- tasks -----------------------------------------------------------------

pub fn spawn_raw(name: &'static str, fut: BoxFut) -> TaskId {
    with(|w| {
        let id = w.tasks.len();
        {
            let mut r = w.ready.lock().unwrap();
            r.queued.push(true);
            r.queue.push(id);
        }
        let waker = Waker::from(Arc::new(TaskWaker {
            id,
            ready: w.ready.clone(),
        }));
        let rt = w.current_runtime;
        w.tasks.push(TaskSlot {
            fut: Some(fut),
            waker,
            name,
            runtime: rt,
            abort: false,
            polls: 0,
        });
        w.event("spawn", id as u64, 0);
        id
    })
}

pub fn abort_task(id: TaskId) {
    let wk = with(|w| {
        if let Some(t) = w.tasks.get_mut(id) {
            if t.fut.is_some() || w.in_poll == Some(id) {
                t.abort = true;
                return Some(t.waker.clone());
            }
        }
        None
    });
    if let Some(wk) = wk {
        wk.wake();
    }
}

pub fn task_alive(id: TaskId) -> bool {
    with(|w| w.tasks.get(id).map(|t| t.fut.is_some() || w.in_poll == Some(id)).unwrap_or(false))
}

pub fn live_tasks() -> usize {
    with(|w| w.tasks.iter().filter(|t| t.fut.is_some()).count())
}

pub fn task_polls(id: TaskId) -> u64 {
    with(|w| w.tasks.get(id).map(|t| t.polls).unwrap_or(0))
}

/// abort every live task that was spawned under runtime `rt`
pub fn abort_runtime(rt: u64) {
    let ids: Vec<TaskId> = with(|w| {
        w.tasks
            .iter()
            .enumerate()
            .filter(|(_, t)| t.runtime == rt && t.fut.is_some())
            .map(|(i, _)| i)
            .collect()
    });
    for id in ids {
        abort_task(id);
    }
}

pub fn ready_count() -> usize {
    with(|w| w.ready.lock().unwrap().queue.len())
}

/// Poll one ready task (which one is a scheduling choice). Returns false when
/// nothing is ready.
pub fn step() -> bool {
    let picked = with(|w| {
        let n = w.ready.lock().unwrap().queue.len();
        if n == 0 {
            return None;
        }
        let idx = if n > 1 && w.cfg.sched_random && !w.canonical {
            w.count("sched_choice");
            w.tape.choose(n as u32) as usize
        } else {
            0
        };
        let id = {
            let mut r = w.ready.lock().unwrap();
            let id = r.queue.remove(idx);
            r.queued[id] = false;
            id
        };
        w.steps += 1;
        w.events_in_poll = 0;
        let slot = &mut w.tasks[id];
        slot.polls += 1;
        let fut = slot.fut.take();
        let abort = slot.abort;
        let waker = slot.waker.clone();
        let rt = slot.runtime;
        w.event("poll", id as u64, abort as u64);
        if w.spin_watch.0 == id {
            w.spin_watch.1 += 1;
            if w.spin_watch.1 > w.max_spin {
                w.max_spin = w.spin_watch.1;
            }
        } else {
            w.spin_watch = (id, 1);
        }
        Some((id, fut, abort, waker, rt))
    });
    let (id, fut, abort, waker, rt) = match picked {
        None => return false,
        Some(x) => x,
    };
    let mut fut = match fut {
        None => return true, // finished earlier; stale wake-up
        Some(f) => f,
    };
    if abort {
        let r = std::panic::catch_unwind(AssertUnwindSafe(move || drop(fut)));
        with(|w| {
            w.event("task_aborted", id as u64, 0);
            if r.is_err() {
                w.panics.push(format!("panic while dropping task {} ({})", id, w.tasks[id].name));
            }
        });
        return true;
    }
    let prev = with(|w| {
        let prev = (w.in_poll, w.current_runtime);
        w.in_poll = Some(id);
        w.current_runtime = rt;
        prev
    });
    let mut cx = Context::from_waker(&waker);
    let res = std::panic::catch_unwind(AssertUnwindSafe(|| fut.as_mut().poll(&mut cx)));
    with(|w| {
        w.in_poll = prev.0;
        w.current_runtime = prev.1;
    });
    match res {
        Ok(Poll::Pending) => {
            let aborted = with(|w| {
                let slot = &mut w.tasks[id];
                if slot.abort {
                    true
                } else {
                    slot.fut = Some(fut_take(&mut fut));
                    false
                }
            });
            if aborted {
                let _ = std::panic::catch_unwind(AssertUnwindSafe(move || drop(fut)));
                with(|w| w.event("task_aborted", id as u64, 1));
            }
        }
        Ok(Poll::Ready(())) => {
            let _ = std::panic::catch_unwind(AssertUnwindSafe(move || drop(fut)));
            with(|w| w.event("task_done", id as u64, 0));
        }
        Err(p) => {
            let msg = panic_message(&p);
            let _ = std::panic::catch_unwind(AssertUnwindSafe(move || drop(fut)));
            with(|w| {
                let name = w.tasks[id].name;
                w.event("task_panic", id as u64, 0);
                w.panics.push(format!("task {} ({}) panicked: {}", id, name, msg));
            });
        }
    }
    true
}

// helper: move the boxed future out (replaces with a dummy that is never polled)
fn fut_take(f: &mut BoxFut) -> BoxFut {
    std::mem::replace(f, Box::pin(async {}))
}

pub fn panic_message(p: &Box<dyn std::any::Any + Send>) -> String {
    if let Some(s) = p.downcast_ref::<&str>() {
        s.to_string()
    } else if let Some(s) = p.downcast_ref::<String>() {
        s.clone()
    } else {
        "<non-string panic>".to_string()
    }
}

/// Run until nothing is ready at the current instant. Returns polls executed.
pub fn settle() -> u64 {
    let mut n = 0u64;
    while step() {
        n += 1;
        if n > 200_000 {
            with(|w| w.count("settle_cap_hit"));
            break;
        }
    }
    n
}

/// Advance virtual time by `d` ns, firing timers in deadline order and settling
/// after each distinct deadline.
pub fn advance(d: u64) {
    let target = now_ns().saturating_add(d);
    advance_to(target);
}

pub fn advance_to(target: u64) {
    settle();
    loop {
        match next_timer() {
            Some(t) if t <= target => {
                with(|w| {
                    if t > w.now {
                        w.now = t;
                    }
                });
                fire_due_timers();
                settle();
            }
            _ => break,
        }
    }
    with(|w| {
        if target > w.now {
            w.now = target;
        }
    });
    settle();
}

/// Stall fault: jump the clock by `d` with nothing run in between, then fire
/// everything that became due at once.
pub fn jump(d: u64) {
    with(|w| {
        w.now = w.now.saturating_add(d);
        w.count("fault_clock_jump");
        w.event("clock_jump", d, 0);
    });
    fire_due_timers();
    settle();
}

/// If nothing is ready, move the clock to the next timer and fire it.
/// Returns false if there is neither a ready task nor a timer.
pub fn step_or_advance() -> bool {
    if step() {
        return true;
    }
    match next_timer() {
        Some(t) => {
            with(|w| {
                if t > w.now {
                    w.now = t;
                }
            });
            fire_due_timers();
            true
        }
        None => false,
    }
}

/// Run (stepping and advancing time) until `pred` holds, time passes `until_ns`,
/// or the system is fully idle. Returns true if `pred` became true.
pub fn run_until(mut pred: impl FnMut() -> bool, until_ns: u64, max_steps: u64) -> bool {
    let mut n = 0;
    loop {
        if pred() {
            return true;
        }
        if n >= max_steps {
            return false;
        }
        n += 1;
        if step() {
            continue;
        }
        match next_timer() {
            Some(t) if t <= until_ns => {
                with(|w| {
                    if t > w.now {
                        w.now = t;
                    }
                });
                fire_due_timers();
            }
            _ => return pred(),
        }
    }
}

/// Drive the simulation until `fut` resolves (used by the runtime facade's
/// `block_on` and by directors that want to await something).
/// poll `fut` exactly once, without running the simulation or the clock: `None` if it is not ready
/// (e.g. a send into a full queue). Unlike `block_on` this can never let virtual time pass.
pub fn try_now<F: Future>(fut: F) -> Option<F::Output> {
    struct Noop;
    impl Wake for Noop {
        fn wake(self: Arc<Self>) {}
    }
    let waker = Waker::from(Arc::new(Noop));
    let mut cx = Context::from_waker(&waker);
    let mut fut = std::pin::pin!(fut);
    match fut.as_mut().poll(&mut cx) {
        Poll::Ready(v) => Some(v),
        Poll::Pending => None,
    }
}

pub fn block_on<F: Future>(fut: F) -> F::Output {
    struct Flag(std::sync::atomic::AtomicBool);
    impl Wake for Flag {
        fn wake(self: Arc<Self>) {
            self.0.store(true, std::sync::atomic::Ordering::SeqCst);
        }
    }
    let flag = Arc::new(Flag(std::sync::atomic::AtomicBool::new(true)));
    let waker = Waker::from(flag.clone());
    let mut cx = Context::from_waker(&waker);
    let mut fut = std::pin::pin!(fut);
    let mut idle_rounds = 0u32;
    loop {
        if flag.0.swap(false, std::sync::atomic::Ordering::SeqCst) {
            if let Poll::Ready(v) = fut.as_mut().poll(&mut cx) {
                return v;
            }
        }
        if step_or_advance() {
            idle_rounds = 0;
            continue;
        }
        if flag.0.load(std::sync::atomic::Ordering::SeqCst) {
            continue;
        }
        idle_rounds += 1;
        if idle_rounds > 2 {
            panic!("simtokio::block_on: deadlock (future pending, nothing runnable, no timers)");
        }
        flag.0.store(true, std::sync::atomic::Ordering::SeqCst);
    }
}
