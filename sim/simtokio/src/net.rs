//! Simulated TCP: listeners, connection plans, byte pipes with faults.

use crate::kernel::{self, with};
use real_tokio::io::{AsyncRead, AsyncWrite, ReadBuf};
use std::collections::{BTreeMap, VecDeque};
use std::io;
use std::net::{IpAddr, Ipv4Addr, SocketAddr};
use std::pin::Pin;
use std::task::{Context, Poll, Waker};

pub const DEFAULT_CAPACITY: usize = 1 << 20;

#[derive(Clone, Debug)]
pub enum ConnectOutcome {
    Accept,
    Refused,
    Error(io::ErrorKind),
    /// wait this many ns, then the boxed outcome
    Slow(u64, Box<ConnectOutcome>),
}

pub struct Pipe {
    pub(crate) chunks: VecDeque<(u64, VecDeque<u8>)>,
    pub(crate) buffered: usize,
    pub capacity: usize,
    pub wr_closed: bool,
    pub rd_closed: bool,
    pub read_fault: Option<(u64, io::ErrorKind)>,
    pub write_fault: Option<(u64, io::ErrorKind)>,
    pub total_read: u64,
    pub total_written: u64,
    pub(crate) rd_waker: Option<Waker>,
    pub(crate) wr_waker: Option<Waker>,
    /// ready_at of the newest chunk (FIFO latency)
    pub(crate) last_ready: u64,
    /// (virtual time, total bytes written so far) per write call
    pub write_log: Vec<(u64, u64)>,
    /// fault: the byte at this stream offset (counted in bytes read) is XORed with the mask on its way to the reader
    pub flip: Option<(u64, u8)>,
}

impl Pipe {
    pub(crate) fn new() -> Self {
        Pipe {
            chunks: VecDeque::new(),
            buffered: 0,
            capacity: DEFAULT_CAPACITY,
            wr_closed: false,
            rd_closed: false,
            read_fault: None,
            write_fault: None,
            total_read: 0,
            total_written: 0,
            rd_waker: None,
            wr_waker: None,
            last_ready: 0,
            write_log: Vec::new(),
            flip: None,
        }
    }
    pub(crate) fn available(&self, now: u64) -> usize {
        let mut n = 0;
        for (t, c) in self.chunks.iter() {
            if *t <= now {
                n += c.len();
            } else {
                break;
            }
        }
        n
    }
    pub(crate) fn next_ready(&self) -> Option<u64> {
        self.chunks.front().map(|(t, _)| *t)
    }
    pub(crate) fn push(&mut self, ready_at: u64, data: &[u8]) {
        if data.is_empty() {
            return;
        }
        let ready_at = ready_at.max(self.last_ready);
        self.last_ready = ready_at;
        self.buffered += data.len();
        self.total_written += data.len() as u64;
        match self.chunks.back_mut() {
            Some((t, c)) if *t == ready_at => c.extend(data.iter().copied()),
            _ => self.chunks.push_back((ready_at, data.iter().copied().collect())),
        }
    }
    pub(crate) fn pop(&mut self, n: usize, out: &mut Vec<u8>) {
        let mut left = n;
        while left > 0 {
            let (_, c) = self.chunks.front_mut().expect("pipe underflow");
            while left > 0 {
                match c.pop_front() {
                    Some(mut b) => {
                        if let Some((at, mask)) = self.flip {
                            if self.total_read + (n - left) as u64 == at {
                                b ^= mask;
                                self.flip = None;
                            }
                        }
                        out.push(b);
                        left -= 1;
                    }
                    None => break,
                }
            }
            if c.is_empty() {
                self.chunks.pop_front();
            }
        }
        self.buffered -= n;
        self.total_read += n as u64;
    }
    pub(crate) fn drain_all(&mut self) -> Vec<u8> {
        let mut out = Vec::with_capacity(self.buffered);
        for (_, c) in self.chunks.drain(..) {
            out.extend(c);
        }
        self.total_read += out.len() as u64;
        self.buffered = 0;
        out
    }
}

pub struct Conn {
    /// pipe[i] carries bytes written by side i (0 = connector, 1 = acceptor)
    pub pipes: [Pipe; 2],
    pub addrs: [SocketAddr; 2],
    pub dropped: [bool; 2],
}

#[derive(Default)]
pub struct ListenerState {
    queue: VecDeque<usize>,
    waker: Option<Waker>,
    /// fault: errors the next accept() calls return (one each), e.g. ECONNABORTED, EMFILE
    accept_errors: VecDeque<io::ErrorKind>,
}

#[derive(Clone, Debug)]
pub struct ConnectAttempt {
    pub at: u64,
    pub addr: SocketAddr,
    pub outcome: &'static str,
}

#[derive(Default)]
pub struct NetWorld {
    pub listeners: BTreeMap<SocketAddr, ListenerState>,
    pub conns: Vec<Conn>,
    pub dns: BTreeMap<String, Option<IpAddr>>,
    pub plans: BTreeMap<SocketAddr, VecDeque<ConnectOutcome>>,
    pub attempts: Vec<ConnectAttempt>,
    pub next_port: u16,
    /// source address used for connections made by simulated `TcpStream::connect`
    pub client_ip: Option<IpAddr>,
    pub zero_capacity_reads: u64,
}

fn new_conn(w: &mut kernel::World, from: SocketAddr, to: SocketAddr) -> usize {
    let id = w.net.conns.len();
    w.net.conns.push(Conn {
        pipes: [Pipe::new(), Pipe::new()],
        addrs: [from, to],
        dropped: [false, false],
    });
    w.event("conn_new", id as u64, to.port() as u64);
    id
}

fn ephemeral(w: &mut kernel::World) -> u16 {
    if w.net.next_port < 40000 {
        w.net.next_port = 40000;
    }
    let p = w.net.next_port;
    w.net.next_port = w.net.next_port.wrapping_add(1);
    p
}

// ---------------------------------------------------------------- director API

/// A director-side (synchronous) end of a simulated connection.
#[derive(Debug)]
pub struct PeerEnd {
    pub conn: usize,
    pub side: usize,
    closed: bool,
}

/// Make `addr` connectable without a `TcpListener` task: accepted connections
/// queue up for `stub_accept`.
pub fn stub_listen(addr: SocketAddr) {
    with(|w| {
        w.net.listeners.entry(addr).or_default();
    })
}

pub fn stub_unlisten(addr: SocketAddr) {
    let conns: Vec<usize> = with(|w| match w.net.listeners.remove(&addr) {
        Some(l) => l.queue.into_iter().collect(),
        None => Vec::new(),
    });
    for c in conns {
        drop(PeerEnd {
            conn: c,
            side: 1,
            closed: false,
        });
    }
}

pub fn stub_accept(addr: SocketAddr) -> Option<PeerEnd> {
    with(|w| {
        let l = w.net.listeners.get_mut(&addr)?;
        let c = l.queue.pop_front()?;
        Some(PeerEnd {
            conn: c,
            side: 1,
            closed: false,
        })
    })
}

/// fault: the listener's next accept() fails with `kind` (the listener itself stays usable, as a socket's would)
pub fn inject_accept_error(addr: SocketAddr, kind: io::ErrorKind) {
    let wk = with(|w| match w.net.listeners.get_mut(&addr) {
        Some(l) => {
            l.accept_errors.push_back(kind);
            l.waker.take()
        }
        None => None,
    });
    if let Some(wk) = wk {
        wk.wake();
    }
}

pub fn plan_connect(addr: SocketAddr, outcome: ConnectOutcome) {
    with(|w| w.net.plans.entry(addr).or_default().push_back(outcome))
}

pub fn clear_plans(addr: SocketAddr) {
    with(|w| {
        w.net.plans.remove(&addr);
    })
}

pub fn set_dns(name: &str, ip: Option<IpAddr>) {
    with(|w| {
        w.net.dns.insert(name.to_string(), ip);
    })
}

pub fn attempts() -> Vec<ConnectAttempt> {
    with(|w| w.net.attempts.clone())
}

pub fn attempt_count() -> usize {
    with(|w| w.net.attempts.len())
}

pub fn is_listening(addr: SocketAddr) -> bool {
    with(|w| w.net.listeners.contains_key(&addr))
}

/// Connect to a simulated listener as an external peer with source address `from`.
pub fn connect_from(to: SocketAddr, from: SocketAddr) -> Option<PeerEnd> {
    let (res, wk) = with(|w| {
        if !w.net.listeners.contains_key(&to) {
            w.event("peer_connect_refused", to.port() as u64, 0);
            return (None, None);
        }
        let id = new_conn(w, from, to);
        let l = w.net.listeners.get_mut(&to).unwrap();
        l.queue.push_back(id);
        let wk = l.waker.take();
        (
            Some(PeerEnd {
                conn: id,
                side: 0,
                closed: false,
            }),
            wk,
        )
    });
    if let Some(wk) = wk {
        wk.wake();
    }
    res
}

impl PeerEnd {
    fn out_pipe<'a>(&self, w: &'a mut kernel::World) -> &'a mut Pipe {
        &mut w.net.conns[self.conn].pipes[self.side]
    }
    fn in_pipe<'a>(&self, w: &'a mut kernel::World) -> &'a mut Pipe {
        &mut w.net.conns[self.conn].pipes[1 - self.side]
    }
    /// bytes become readable by the other end immediately
    pub fn write(&self, data: &[u8]) {
        self.write_delayed(data, 0)
    }
    /// bytes become readable by the other end after `delay` ns (FIFO preserved)
    pub fn write_delayed(&self, data: &[u8], delay: u64) {
        let _ = self.write_delayed_at(data, delay);
    }
    /// like `write_delayed`; returns the instant at which the bytes become readable
    /// (delivery is FIFO, so an earlier delayed chunk holds later ones back)
    pub fn write_delayed_at(&self, data: &[u8], delay: u64) -> u64 {
        let (wk, at) = with(|w| {
            let now = w.now;
            w.event("peer_write", self.conn as u64, data.len() as u64);
            let p = self.out_pipe(w);
            if p.wr_closed || p.rd_closed {
                return (None, u64::MAX);
            }
            p.push(now.saturating_add(delay), data);
            (p.rd_waker.take(), p.last_ready)
        });
        if let Some(wk) = wk {
            wk.wake();
        }
        at
    }
    /// take everything the other end has written so far
    pub fn take_received(&self) -> Vec<u8> {
        let (v, wk) = with(|w| {
            let p = self.in_pipe(w);
            let v = p.drain_all();
            (v, p.wr_waker.take())
        });
        if let Some(wk) = wk {
            wk.wake();
        }
        v
    }
    /// (virtual time, cumulative byte count) of every write the other end has made
    pub fn remote_write_log(&self) -> Vec<(u64, u64)> {
        with(|w| self.in_pipe(w).write_log.clone())
    }
    pub fn received_len(&self) -> usize {
        with(|w| self.in_pipe(w).buffered)
    }
    /// total bytes the other end has ever written into this connection
    pub fn total_from_remote(&self) -> u64 {
        with(|w| self.in_pipe(w).total_written)
    }
    /// has the other end closed its write side (dropped or shut down)?
    pub fn remote_closed(&self) -> bool {
        with(|w| self.in_pipe(w).wr_closed)
    }
    /// the other end was dropped entirely
    pub fn remote_dropped(&self) -> bool {
        with(|w| w.net.conns[self.conn].dropped[1 - self.side])
    }
    pub fn remote_addr(&self) -> SocketAddr {
        with(|w| w.net.conns[self.conn].addrs[1 - self.side])
    }
    /// limit how many unread bytes the other end may have in flight towards us
    pub fn set_capacity(&self, n: usize) {
        with(|w| self.in_pipe(w).capacity = n)
    }
    /// half-close: the other end reads EOF after draining; it can still write
    pub fn shutdown_write(&self) {
        let wk = with(|w| {
            w.event("peer_shutdown_write", self.conn as u64, 0);
            let p = self.out_pipe(w);
            p.wr_closed = true;
            p.rd_waker.take()
        });
        if let Some(wk) = wk {
            wk.wake();
        }
    }
    /// the other end's next read (after `after_bytes` more bytes) fails with `kind`
    pub fn inject_read_error(&self, after_bytes: u64, kind: io::ErrorKind) {
        let wk = with(|w| {
            w.count("fault_read_err");
            w.event("inject_read_error", self.conn as u64, after_bytes);
            let p = self.out_pipe(w);
            p.read_fault = Some((p.total_read + after_bytes, kind));
            p.rd_waker.take()
        });
        if let Some(wk) = wk {
            wk.wake();
        }
    }
    /// the other end's next write (after `after_bytes` more bytes) fails with `kind`
    pub fn inject_write_error(&self, after_bytes: u64, kind: io::ErrorKind) {
        let wk = with(|w| {
            w.count("fault_write_err");
            w.event("inject_write_error", self.conn as u64, after_bytes);
            let p = self.in_pipe(w);
            p.write_fault = Some((p.total_written + after_bytes, kind));
            p.wr_waker.take()
        });
        if let Some(wk) = wk {
            wk.wake();
        }
    }
    /// full close (like dropping the socket)
    pub fn close(&mut self) {
        if self.closed {
            return;
        }
        self.closed = true;
        close_side(self.conn, self.side);
    }
    pub fn is_closed(&self) -> bool {
        self.closed
    }
}

impl Drop for PeerEnd {
    fn drop(&mut self) {
        if !self.closed && kernel::installed() {
            self.closed = true;
            close_side(self.conn, self.side);
        }
    }
}

fn close_side(conn: usize, side: usize) {
    let wakers = kernel::try_with(|w| {
        if conn >= w.net.conns.len() {
            return Vec::new();
        }
        w.event("conn_close", conn as u64, side as u64);
        let c = &mut w.net.conns[conn];
        c.dropped[side] = true;
        let mut v = Vec::new();
        {
            let p = &mut c.pipes[side];
            p.wr_closed = true;
            if let Some(wk) = p.rd_waker.take() {
                v.push(wk);
            }
        }
        {
            let p = &mut c.pipes[1 - side];
            p.rd_closed = true;
            if let Some(wk) = p.wr_waker.take() {
                v.push(wk);
            }
        }
        v
    })
    .unwrap_or_default();
    for wk in wakers {
        wk.wake();
    }
}

// ---------------------------------------------------------------- ToSocketAddrs

pub enum AddrSpec {
    Sock(SocketAddr),
    Name(String, u16),
}

pub trait ToSimAddr {
    fn to_sim_addr(&self) -> AddrSpec;
}
impl ToSimAddr for SocketAddr {
    fn to_sim_addr(&self) -> AddrSpec {
        AddrSpec::Sock(*self)
    }
}
impl ToSimAddr for (IpAddr, u16) {
    fn to_sim_addr(&self) -> AddrSpec {
        AddrSpec::Sock(SocketAddr::new(self.0, self.1))
    }
}
impl ToSimAddr for (Ipv4Addr, u16) {
    fn to_sim_addr(&self) -> AddrSpec {
        AddrSpec::Sock(SocketAddr::new(IpAddr::V4(self.0), self.1))
    }
}
impl ToSimAddr for (&str, u16) {
    fn to_sim_addr(&self) -> AddrSpec {
        match self.0.parse::<IpAddr>() {
            Ok(ip) => AddrSpec::Sock(SocketAddr::new(ip, self.1)),
            Err(_) => AddrSpec::Name(self.0.to_string(), self.1),
        }
    }
}
impl ToSimAddr for (String, u16) {
    fn to_sim_addr(&self) -> AddrSpec {
        (self.0.as_str(), self.1).to_sim_addr()
    }
}
impl ToSimAddr for &str {
    fn to_sim_addr(&self) -> AddrSpec {
        match self.parse::<SocketAddr>() {
            Ok(a) => AddrSpec::Sock(a),
            Err(_) => match self.rsplit_once(':') {
                Some((h, p)) => AddrSpec::Name(h.to_string(), p.parse().unwrap_or(0)),
                None => AddrSpec::Name(self.to_string(), 0),
            },
        }
    }
}
impl ToSimAddr for String {
    fn to_sim_addr(&self) -> AddrSpec {
        self.as_str().to_sim_addr()
    }
}
impl<T: ToSimAddr + ?Sized> ToSimAddr for &T {
    fn to_sim_addr(&self) -> AddrSpec {
        (**self).to_sim_addr()
    }
}

// ---------------------------------------------------------------- TcpListener

#[derive(Debug)]
pub struct TcpListener {
    addr: SocketAddr,
}

impl TcpListener {
    pub async fn bind<A: ToSimAddr>(addr: A) -> io::Result<TcpListener> {
        Self::bind_now(addr)
    }

    /// synchronous variant for directors
    pub fn bind_now<A: ToSimAddr>(addr: A) -> io::Result<TcpListener> {
        let mut addr = match addr.to_sim_addr() {
            AddrSpec::Sock(a) => a,
            AddrSpec::Name(..) => {
                return Err(io::Error::new(io::ErrorKind::InvalidInput, "cannot bind to a name"))
            }
        };
        with(|w| {
            if addr.port() == 0 {
                addr.set_port(ephemeral(w));
            }
            if w.net.listeners.contains_key(&addr) {
                return Err(io::Error::from(io::ErrorKind::AddrInUse));
            }
            w.net.listeners.insert(addr, ListenerState::default());
            w.event("listen", addr.port() as u64, 0);
            Ok(TcpListener { addr })
        })
    }

    pub fn local_addr(&self) -> io::Result<SocketAddr> {
        Ok(self.addr)
    }

    pub async fn accept(&self) -> io::Result<(TcpStream, SocketAddr)> {
        std::future::poll_fn(|cx| self.poll_accept(cx)).await
    }

    pub fn poll_accept(&self, cx: &mut Context<'_>) -> Poll<io::Result<(TcpStream, SocketAddr)>> {
        with(|w| {
            let l = match w.net.listeners.get_mut(&self.addr) {
                Some(l) => l,
                None => return Poll::Ready(Err(io::Error::from(io::ErrorKind::NotConnected))),
            };
            if let Some(kind) = l.accept_errors.pop_front() {
                w.count("fault_accept_error");
                w.event("accept_error", self.addr.port() as u64, 0);
                return Poll::Ready(Err(io::Error::from(kind)));
            }
            match l.queue.pop_front() {
                Some(c) => {
                    let peer = w.net.conns[c].addrs[0];
                    w.event("accept", c as u64, 0);
                    Poll::Ready(Ok((TcpStream { conn: c, side: 1 }, peer)))
                }
                None => {
                    l.waker = Some(cx.waker().clone());
                    Poll::Pending
                }
            }
        })
    }
}

impl Drop for TcpListener {
    fn drop(&mut self) {
        let conns: Vec<usize> = kernel::try_with(|w| {
            w.event("unlisten", self.addr.port() as u64, 0);
            match w.net.listeners.remove(&self.addr) {
                Some(l) => l.queue.into_iter().collect(),
                None => Vec::new(),
            }
        })
        .unwrap_or_default();
        for c in conns {
            close_side(c, 1);
        }
    }
}

// ---------------------------------------------------------------- TcpStream

#[derive(Debug)]
pub struct TcpStream {
    conn: usize,
    side: usize,
}

impl TcpStream {
    pub async fn connect<A: ToSimAddr>(addr: A) -> io::Result<TcpStream> {
        let spec = addr.to_sim_addr();
        let addr = match spec {
            AddrSpec::Sock(a) => a,
            AddrSpec::Name(name, port) => {
                let r = with(|w| {
                    w.event("dns", name.len() as u64, port as u64);
                    w.net.dns.get(&name).copied()
                });
                match r {
                    Some(Some(ip)) => SocketAddr::new(ip, port),
                    _ => {
                        with(|w| {
                            w.count("fault_dns_fail");
                            w.net.attempts.push(ConnectAttempt {
                                at: w.now,
                                addr: SocketAddr::new(IpAddr::V4(Ipv4Addr::UNSPECIFIED), port),
                                outcome: "dns_fail",
                            });
                        });
                        return Err(io::Error::new(
                            io::ErrorKind::Other,
                            "failed to lookup address information",
                        ));
                    }
                }
            }
        };
        // decide the outcome now
        let outcome = with(|w| {
            let o = match w.net.plans.get_mut(&addr).and_then(|q| q.pop_front()) {
                Some(o) => o,
                None => {
                    if w.net.listeners.contains_key(&addr) {
                        ConnectOutcome::Accept
                    } else {
                        ConnectOutcome::Refused
                    }
                }
            };
            w.event("connect_attempt", addr.port() as u64, 0);
            w.net.attempts.push(ConnectAttempt {
                at: w.now,
                addr,
                outcome: "pending",
            });
            (o, w.net.attempts.len() - 1)
        });
        let (mut outcome, att_idx) = outcome;
        let set_outcome = |w: &mut kernel::World, o: &'static str| {
            if let Some(a) = w.net.attempts.get_mut(att_idx) {
                a.outcome = o;
            }
        };
        loop {
            match outcome {
                ConnectOutcome::Slow(d, next) => {
                    with(|w| w.count("fault_connect_slow"));
                    crate::time::sleep(std::time::Duration::from_nanos(d)).await;
                    outcome = *next;
                }
                ConnectOutcome::Refused => {
                    with(|w| {
                        w.count("fault_connect_refused");
                        set_outcome(w, "refused");
                    });
                    return Err(io::Error::from(io::ErrorKind::ConnectionRefused));
                }
                ConnectOutcome::Error(kind) => {
                    with(|w| {
                        w.count("fault_connect_err");
                        set_outcome(w, "error");
                    });
                    return Err(io::Error::from(kind));
                }
                ConnectOutcome::Accept => {
                    let (res, wk) = with(|w| {
                        if !w.net.listeners.contains_key(&addr) {
                            set_outcome(w, "refused");
                            return (Err(io::Error::from(io::ErrorKind::ConnectionRefused)), None);
                        }
                        let ip = w
                            .net
                            .client_ip
                            .unwrap_or(IpAddr::V4(Ipv4Addr::new(127, 0, 0, 1)));
                        let from = SocketAddr::new(ip, ephemeral(w));
                        let id = new_conn(w, from, addr);
                        let l = w.net.listeners.get_mut(&addr).unwrap();
                        l.queue.push_back(id);
                        let wk = l.waker.take();
                        set_outcome(w, "accepted");
                        (Ok(TcpStream { conn: id, side: 0 }), wk)
                    });
                    if let Some(wk) = wk {
                        wk.wake();
                    }
                    return res;
                }
            }
        }
    }

    pub fn peer_addr(&self) -> io::Result<SocketAddr> {
        Ok(with(|w| w.net.conns[self.conn].addrs[1 - self.side]))
    }
    pub fn local_addr(&self) -> io::Result<SocketAddr> {
        Ok(with(|w| w.net.conns[self.conn].addrs[self.side]))
    }
    pub fn set_nodelay(&self, _nodelay: bool) -> io::Result<()> {
        Ok(())
    }
    pub fn nodelay(&self) -> io::Result<bool> {
        Ok(true)
    }
    pub fn sim_conn_id(&self) -> usize {
        self.conn
    }

    // ---- readiness-style API of tokio::net::TcpStream (a change to the library may use it)

    fn shadow(&self) -> std::mem::ManuallyDrop<TcpStream> {
        std::mem::ManuallyDrop::new(TcpStream { conn: self.conn, side: self.side })
    }

    /// like tokio's: writes what fits, `WouldBlock` if nothing does
    pub fn try_write(&self, data: &[u8]) -> io::Result<usize> {
        let waker = noop_waker();
        let mut cx = Context::from_waker(&waker);
        let mut sh = self.shadow();
        match Pin::new(&mut *sh).poll_write(&mut cx, data) {
            Poll::Ready(r) => r,
            Poll::Pending => Err(io::Error::from(io::ErrorKind::WouldBlock)),
        }
    }

    /// like tokio's: reads what is there, `WouldBlock` if nothing is
    pub fn try_read(&self, buf: &mut [u8]) -> io::Result<usize> {
        let waker = noop_waker();
        let mut cx = Context::from_waker(&waker);
        let mut sh = self.shadow();
        let mut rb = ReadBuf::new(buf);
        match Pin::new(&mut *sh).poll_read(&mut cx, &mut rb) {
            Poll::Ready(Ok(())) => Ok(rb.filled().len()),
            Poll::Ready(Err(e)) => Err(e),
            Poll::Pending => Err(io::Error::from(io::ErrorKind::WouldBlock)),
        }
    }

    pub async fn writable(&self) -> io::Result<()> {
        let (conn, side) = (self.conn, self.side);
        std::future::poll_fn(move |cx| {
            with(|w| {
                let p = &mut w.net.conns[conn].pipes[side];
                if p.wr_closed || p.rd_closed || p.write_fault.map(|(at, _)| p.total_written >= at).unwrap_or(false) || p.capacity > p.buffered {
                    Poll::Ready(Ok(()))
                } else {
                    p.wr_waker = Some(cx.waker().clone());
                    Poll::Pending
                }
            })
        })
        .await
    }

    pub async fn readable(&self) -> io::Result<()> {
        let (conn, side) = (self.conn, self.side);
        std::future::poll_fn(move |cx| {
            let mut timer = None;
            let r = with(|w| {
                let now = w.now;
                let p = &mut w.net.conns[conn].pipes[1 - side];
                if p.available(now) > 0 || (p.wr_closed && p.buffered == 0) || p.read_fault.map(|(at, _)| p.total_read >= at).unwrap_or(false) {
                    return Poll::Ready(Ok(()));
                }
                if let Some(t) = p.next_ready() {
                    if t > now {
                        timer = Some(t);
                        return Poll::Pending;
                    }
                }
                p.rd_waker = Some(cx.waker().clone());
                Poll::Pending
            });
            if let Some(t) = timer {
                kernel::timer_register(t, cx.waker().clone());
            }
            r
        })
        .await
    }
    /// turn a task-side stream into a director-side end
    pub fn into_peer_end(self) -> PeerEnd {
        let p = PeerEnd {
            conn: self.conn,
            side: self.side,
            closed: false,
        };
        std::mem::forget(self);
        p
    }
}

impl Drop for TcpStream {
    fn drop(&mut self) {
        close_side(self.conn, self.side);
    }
}

/// `tokio::net::lookup_host` against the simulated resolver
pub async fn lookup_host<A: ToSimAddr>(addr: A) -> io::Result<std::vec::IntoIter<SocketAddr>> {
    match addr.to_sim_addr() {
        AddrSpec::Sock(a) => Ok(vec![a].into_iter()),
        AddrSpec::Name(name, port) => match with(|w| w.net.dns.get(&name).copied()) {
            Some(Some(ip)) => Ok(vec![SocketAddr::new(ip, port)].into_iter()),
            _ => Err(io::Error::new(io::ErrorKind::Other, "failed to lookup address information")),
        },
    }
}

pub mod tcp {
    //! owned halves of a stream (`TcpStream::into_split`)
    use super::*;
    use std::sync::Arc;

    #[derive(Debug)]
    pub struct OwnedReadHalf(pub(super) Arc<TcpStream>);
    #[derive(Debug)]
    pub struct OwnedWriteHalf(pub(super) Arc<TcpStream>);

    impl AsyncRead for OwnedReadHalf {
        fn poll_read(self: Pin<&mut Self>, cx: &mut Context<'_>, buf: &mut ReadBuf<'_>) -> Poll<io::Result<()>> {
            let mut sh = self.0.shadow();
            Pin::new(&mut *sh).poll_read(cx, buf)
        }
    }
    impl AsyncWrite for OwnedWriteHalf {
        fn poll_write(self: Pin<&mut Self>, cx: &mut Context<'_>, data: &[u8]) -> Poll<io::Result<usize>> {
            let mut sh = self.0.shadow();
            Pin::new(&mut *sh).poll_write(cx, data)
        }
        fn poll_flush(self: Pin<&mut Self>, cx: &mut Context<'_>) -> Poll<io::Result<()>> {
            let mut sh = self.0.shadow();
            Pin::new(&mut *sh).poll_flush(cx)
        }
        fn poll_shutdown(self: Pin<&mut Self>, cx: &mut Context<'_>) -> Poll<io::Result<()>> {
            let mut sh = self.0.shadow();
            Pin::new(&mut *sh).poll_shutdown(cx)
        }
    }
}

impl TcpStream {
    pub fn into_split(self) -> (tcp::OwnedReadHalf, tcp::OwnedWriteHalf) {
        let a = std::sync::Arc::new(self);
        (tcp::OwnedReadHalf(a.clone()), tcp::OwnedWriteHalf(a))
    }

    // socket options have no counterpart in the simulated network: accepted and ignored
    pub fn set_linger(&self, _d: Option<std::time::Duration>) -> io::Result<()> {
        Ok(())
    }
    pub fn linger(&self) -> io::Result<Option<std::time::Duration>> {
        Ok(None)
    }
    pub fn set_ttl(&self, _ttl: u32) -> io::Result<()> {
        Ok(())
    }
    pub fn ttl(&self) -> io::Result<u32> {
        Ok(64)
    }
}

/// `tokio::net::TcpSocket`: a socket configured before it listens or connects (a change to the
/// library may build its listener or its connection that way); options are accepted and ignored,
/// `listen` and `connect` are those of `TcpListener::bind` and `TcpStream::connect`
#[derive(Debug)]
pub struct TcpSocket {
    v6: bool,
    bound: std::sync::Mutex<Option<SocketAddr>>,
}

impl TcpSocket {
    pub fn new_v4() -> io::Result<TcpSocket> {
        Ok(TcpSocket { v6: false, bound: std::sync::Mutex::new(None) })
    }
    pub fn new_v6() -> io::Result<TcpSocket> {
        Ok(TcpSocket { v6: true, bound: std::sync::Mutex::new(None) })
    }
    pub fn set_reuseaddr(&self, _v: bool) -> io::Result<()> {
        Ok(())
    }
    pub fn reuseaddr(&self) -> io::Result<bool> {
        Ok(true)
    }
    pub fn set_reuseport(&self, _v: bool) -> io::Result<()> {
        Ok(())
    }
    pub fn set_keepalive(&self, _v: bool) -> io::Result<()> {
        Ok(())
    }
    pub fn set_nodelay(&self, _v: bool) -> io::Result<()> {
        Ok(())
    }
    pub fn set_linger(&self, _d: Option<std::time::Duration>) -> io::Result<()> {
        Ok(())
    }
    pub fn set_send_buffer_size(&self, _n: u32) -> io::Result<()> {
        Ok(())
    }
    pub fn set_recv_buffer_size(&self, _n: u32) -> io::Result<()> {
        Ok(())
    }
    pub fn bind(&self, addr: SocketAddr) -> io::Result<()> {
        if addr.is_ipv6() != self.v6 {
            return Err(io::Error::from(io::ErrorKind::InvalidInput));
        }
        *self.bound.lock().unwrap() = Some(addr);
        Ok(())
    }
    pub fn local_addr(&self) -> io::Result<SocketAddr> {
        self.bound.lock().unwrap().ok_or_else(|| io::Error::from(io::ErrorKind::InvalidInput))
    }
    pub fn listen(self, _backlog: u32) -> io::Result<TcpListener> {
        let b = *self.bound.lock().unwrap();
        match b {
            Some(a) => TcpListener::bind_now(a),
            None => Err(io::Error::from(io::ErrorKind::InvalidInput)),
        }
    }
    pub async fn connect(self, addr: SocketAddr) -> io::Result<TcpStream> {
        TcpStream::connect(addr).await
    }
}

impl AsyncRead for TcpStream {
    fn poll_read(
        self: Pin<&mut Self>,
        cx: &mut Context<'_>,
        buf: &mut ReadBuf<'_>,
    ) -> Poll<io::Result<()>> {
        let (conn, side) = (self.conn, self.side);
        let mut timer: Option<u64> = None;
        let res = with(|w| {
            let now = w.now;
            let chunking = w.cfg.chunk_reads && !w.canonical;
            if buf.remaining() == 0 {
                w.net.zero_capacity_reads += 1;
                w.event("zero_capacity_read", conn as u64, side as u64);
                return Poll::Ready(Ok(()));
            }
            let p = &mut w.net.conns[conn].pipes[1 - side];
            if let Some((at, kind)) = p.read_fault {
                if p.total_read >= at {
                    // transient kinds are reported once, the stream is intact afterwards
                    if matches!(kind, io::ErrorKind::Interrupted | io::ErrorKind::WouldBlock) {
                        p.read_fault = None;
                    }
                    w.event("read_err", conn as u64, side as u64);
                    return Poll::Ready(Err(io::Error::from(kind)));
                }
            }
            let mut avail = p.available(now);
            if let Some((at, _)) = p.read_fault {
                // do not deliver bytes past the fault offset
                avail = avail.min((at - p.total_read) as usize);
            }
            if avail == 0 {
                if let Some(t) = p.next_ready() {
                    if t > now {
                        timer = Some(t);
                        return Poll::Pending;
                    }
                }
                if p.wr_closed && p.buffered == 0 {
                    w.event("read_eof", conn as u64, side as u64);
                    return Poll::Ready(Ok(()));
                }
                p.rd_waker = Some(cx.waker().clone());
                return Poll::Pending;
            }
            let max = avail.min(buf.remaining());
            let mut n = max;
            if chunking && max > 1 {
                match w.tape.weighted(&[4, 1, 2]) {
                    0 => {}
                    1 => {
                        n = 1;
                        *w.counters.entry("fault_chunk").or_insert(0) += 1;
                    }
                    _ => {
                        n = 1 + w.tape.choose(max as u32 - 1) as usize;
                        *w.counters.entry("fault_chunk").or_insert(0) += 1;
                    }
                }
            }
            let p = &mut w.net.conns[conn].pipes[1 - side];
            let mut tmp = Vec::with_capacity(n);
            p.pop(n, &mut tmp);
            buf.put_slice(&tmp);
            let wk = p.wr_waker.take();
            w.event("read", conn as u64 * 2 + side as u64, n as u64);
            if let Some(wk) = wk {
                // waking only queues the task id
                wk.wake();
            }
            Poll::Ready(Ok(()))
        });
        if let Some(t) = timer {
            kernel::timer_register(t, cx.waker().clone());
        }
        res
    }
}

impl AsyncWrite for TcpStream {
    fn poll_write(
        self: Pin<&mut Self>,
        cx: &mut Context<'_>,
        data: &[u8],
    ) -> Poll<io::Result<usize>> {
        let (conn, side) = (self.conn, self.side);
        with(|w| {
            let now = w.now;
            let short = w.cfg.short_writes && !w.canonical;
            let max_lat = if w.canonical { 0 } else { w.cfg.max_latency_ns };
            if data.is_empty() {
                return Poll::Ready(Ok(0));
            }
            let p = &mut w.net.conns[conn].pipes[side];
            if let Some((at, kind)) = p.write_fault {
                if p.total_written >= at {
                    w.event("write_err", conn as u64, side as u64);
                    return Poll::Ready(Err(io::Error::from(kind)));
                }
            }
            if p.wr_closed {
                return Poll::Ready(Err(io::Error::from(io::ErrorKind::BrokenPipe)));
            }
            if p.rd_closed {
                w.event("write_broken_pipe", conn as u64, side as u64);
                return Poll::Ready(Err(io::Error::from(io::ErrorKind::BrokenPipe)));
            }
            let space = p.capacity.saturating_sub(p.buffered);
            if space == 0 {
                p.wr_waker = Some(cx.waker().clone());
                *w.counters.entry("fault_write_stall").or_insert(0) += 1;
                return Poll::Pending;
            }
            let mut max = space.min(data.len());
            if let Some((at, _)) = p.write_fault {
                max = max.min((at - p.total_written) as usize);
            }
            let mut n = max;
            if short && max > 1 {
                match w.tape.weighted(&[4, 1, 2]) {
                    0 => {}
                    1 => {
                        n = 1;
                        *w.counters.entry("fault_short_write").or_insert(0) += 1;
                    }
                    _ => {
                        n = 1 + w.tape.choose(max as u32 - 1) as usize;
                        *w.counters.entry("fault_short_write").or_insert(0) += 1;
                    }
                }
            }
            let lat = if max_lat > 0 {
                match w.tape.weighted(&[3, 1, 1]) {
                    0 => 0,
                    1 => {
                        *w.counters.entry("fault_latency").or_insert(0) += 1;
                        1 + w.tape.choose(1000) as u64 * (max_lat / 1000).max(1)
                    }
                    _ => {
                        *w.counters.entry("fault_latency").or_insert(0) += 1;
                        max_lat
                    }
                }
            } else {
                0
            };
            let p = &mut w.net.conns[conn].pipes[side];
            p.push(now + lat, &data[..n]);
            if p.write_log.len() < 100_000 {
                let tw = p.total_written;
                p.write_log.push((now, tw));
            }
            let wk = p.rd_waker.take();
            w.event("write", conn as u64 * 2 + side as u64, n as u64);
            if let Some(wk) = wk {
                wk.wake();
            }
            Poll::Ready(Ok(n))
        })
    }

    fn poll_flush(self: Pin<&mut Self>, _cx: &mut Context<'_>) -> Poll<io::Result<()>> {
        Poll::Ready(Ok(()))
    }

    fn poll_shutdown(self: Pin<&mut Self>, _cx: &mut Context<'_>) -> Poll<io::Result<()>> {
        let (conn, side) = (self.conn, self.side);
        let wk = with(|w| {
            w.event("shutdown_write", conn as u64, side as u64);
            let p = &mut w.net.conns[conn].pipes[side];
            p.wr_closed = true;
            p.rd_waker.take()
        });
        if let Some(wk) = wk {
            wk.wake();
        }
        Poll::Ready(Ok(()))
    }
}

fn noop_waker() -> Waker {
    struct Noop;
    impl std::task::Wake for Noop {
        fn wake(self: std::sync::Arc<Self>) {}
    }
    Waker::from(std::sync::Arc::new(Noop))
}
