//! Reference model of the client channel (DESIGN.md A.3), used for exact
//! lock-step comparison. Sequential, driven by the same actions as the real task.

use super::frame::{self, MbapDeframer, RtuDir, RtuItem};
use super::pdu::{self, ReplyClass, ReplyData, Req};
use std::collections::VecDeque;

#[derive(Clone, Copy, Debug, PartialEq, Eq)]
pub enum Transport {
    Tcp,
    Rtu,
}

#[derive(Clone, Debug, PartialEq, Eq)]
pub enum Outcome {
    Ok(ReplyData),
    Exception(u8),
    BadResponse,
    BadFrame,
    /// I/O error, by std::io::ErrorKind debug name
    Io(String),
    Timeout,
    NoConnection,
    Shutdown,
    /// rejected before transmission with a non-I/O error (bad request / internal)
    Rejected,
}

#[derive(Clone, Copy, Debug, PartialEq, Eq)]
pub enum MState {
    Disabled,
    Connecting,
    Connected,
    WaitAfterFailedConnect(u64),
    WaitAfterDisconnect(u64),
    Shutdown,
}

#[derive(Clone, Debug, PartialEq, Eq)]
pub enum Effect {
    State(u64, MState),
    Complete { id: usize, at: u64, outcome: Outcome },
    /// bytes written on the current connection
    Wire(u64, Vec<u8>),
    ConnectAttempt(u64),
    ConnOpened(u64),
    ConnClosed(u64),
    TaskDone(u64),
}

#[derive(Clone, Debug)]
pub struct ReqSpec {
    pub id: usize,
    pub req: Req,
    pub unit: u8,
    pub timeout: u64,
}

#[derive(Clone, Debug)]
pub enum Cmd {
    Request(ReqSpec),
    Enable,
    Disable,
    SetDecode,
    Shutdown,
}

#[derive(Clone, Copy, Debug, PartialEq, Eq)]
pub enum Plan {
    Accept,
    Refuse,
    Slow(u64, bool),
}

#[derive(Clone, Debug, PartialEq, Eq)]
enum Phase {
    Idle,
    Connecting { until: u64, accept: bool },
    Connected,
    WaitFail(u64),
    WaitDisc(u64),
    Done,
}

#[derive(Clone, Debug)]
struct Outstanding {
    spec: ReqSpec,
    tx: u16,
    deadline: u64,
    /// RTU: the frame is written at this instant (inter-character silence)
    write_at: Option<u64>,
    frame: Vec<u8>,
}

#[derive(Clone, Debug)]
pub struct Retry {
    pub min: u64,
    pub max: u64,
    pub cur: u64,
}

impl Retry {
    pub fn new(min: u64, max: u64) -> Self {
        Retry { min, max, cur: min }
    }
    pub fn failed(&mut self) -> u64 {
        let r = self.cur;
        self.cur = self.cur.saturating_mul(2).min(self.max);
        r
    }
    pub fn disconnected(&mut self) -> u64 {
        self.min
    }
    pub fn reset(&mut self) {
        self.cur = self.min;
    }
}

pub struct ClientModel {
    pub transport: Transport,
    pub now: u64,
    pub enabled: bool,
    phase: Phase,
    queue: VecDeque<Cmd>,
    outstanding: Option<Outstanding>,
    pub tx_id: u16,
    timeouts: usize,
    pub max_timeouts: Option<usize>,
    pub retry: Retry,
    pub handles_dropped: bool,
    pub aborted: bool,
    // environment
    pub server_up: bool,
    pub plans: VecDeque<Plan>,
    /// (TCP by host name) resolution currently fails
    pub name_unresolvable: bool,
    mbap: MbapDeframer,
    rtu_buf: Vec<u8>,
    inbound_eof: Option<Option<String>>, // Some(None)=EOF, Some(Some(kind))=error
    write_error: Option<String>,
    last_write: Option<u64>,
    pub t35: u64,
    pub effects: Vec<Effect>,
    pub connected_once: bool,
    /// Set when the run has reached a point where two things were ready at once in the idle
    /// loop of the channel - input from the peer *and* a queued command - and what is observable
    /// depends on which of the two the task handles first. No property decides that order (the
    /// task's `select!` is unbiased), so the model cannot predict the outcome: the run ends here.
    pub order_dependent: Option<&'static str>,
    /// (serial) how many times the implementation has closed the port so far: lets the model follow the
    /// implementation where the properties leave a choice (a frame with a bad CRC: end the session or skip it)
    pub impl_port_closes: Option<fn() -> usize>,
    /// (serial) write calls of the implementation not yet attributed to a frame, as (instant, bytes). When set,
    /// the model takes the instant of transmission of a frame from here instead of predicting the inter-frame
    /// silence: C12 counts a time-out "since transmission", no property says how long the line is kept silent
    pub observed_writes: Option<VecDeque<(u64, usize)>>,
    pub bad_crc_frames_skipped: u64,
}

impl ClientModel {
    pub fn new(transport: Transport, retry: Retry, max_timeouts: Option<usize>) -> Self {
        let mut m = ClientModel {
            transport,
            now: 0,
            enabled: false,
            phase: Phase::Idle,
            queue: VecDeque::new(),
            outstanding: None,
            tx_id: 0,
            timeouts: 0,
            max_timeouts,
            retry,
            handles_dropped: false,
            aborted: false,
            server_up: true,
            plans: VecDeque::new(),
            name_unresolvable: false,
            mbap: MbapDeframer::default(),
            rtu_buf: Vec::new(),
            inbound_eof: None,
            write_error: None,
            last_write: None,
            t35: 0,
            effects: Vec::new(),
            connected_once: false,
            order_dependent: None,
            impl_port_closes: None,
            observed_writes: None,
            bad_crc_frames_skipped: 0,
        };
        m.emit(MState::Disabled);
        m
    }

    fn emit(&mut self, s: MState) {
        self.effects.push(Effect::State(self.now, s));
    }

    pub fn is_connected(&self) -> bool {
        self.phase == Phase::Connected
    }
    pub fn is_done(&self) -> bool {
        self.phase == Phase::Done
    }
    pub fn has_outstanding(&self) -> bool {
        self.outstanding.is_some()
    }
    pub fn outstanding_tx(&self) -> Option<u16> {
        self.outstanding.as_ref().map(|o| o.tx)
    }
    pub fn outstanding_spec(&self) -> Option<&ReqSpec> {
        self.outstanding.as_ref().map(|o| &o.spec)
    }
    pub fn outstanding_deadline(&self) -> Option<u64> {
        self.outstanding.as_ref().map(|o| o.deadline)
    }
    pub fn queued(&self) -> usize {
        self.queue.len()
    }
    /// instant at which the implementation finished writing the next `len` bytes, if it has
    fn observed_write_time(&self, len: usize) -> Option<u64> {
        let obs = self.observed_writes.as_ref()?;
        let mut n = 0usize;
        for (t, k) in obs {
            n += *k;
            if n >= len {
                return Some(*t);
            }
        }
        None
    }
    fn consume_observed(&mut self, len: usize) {
        if let Some(obs) = self.observed_writes.as_mut() {
            let mut n = 0usize;
            while n < len {
                match obs.pop_front() {
                    Some((_, k)) => n += k,
                    None => break,
                }
            }
        }
    }
    fn command_waiting(&self) -> bool {
        !self.queue.is_empty() || self.handles_dropped
    }
    /// transaction ids the queued requests will get
    fn queued_tx_window(&self) -> (u16, u16) {
        let n = self.queue.iter().filter(|c| matches!(c, Cmd::Request(_))).count().min(65535) as u16;
        (self.tx_id, n)
    }
    pub fn phase_name(&self) -> &'static str {
        match self.phase {
            Phase::Idle => "idle",
            Phase::Connecting { .. } => "connecting",
            Phase::Connected => "connected",
            Phase::WaitFail(_) => "wait_fail",
            Phase::WaitDisc(_) => "wait_disc",
            Phase::Done => "done",
        }
    }
    /// next instant at which the model will do something by itself
    pub fn next_event(&self) -> Option<u64> {
        let mut t: Option<u64> = None;
        let mut upd = |x: u64| t = Some(t.map_or(x, |y: u64| y.min(x)));
        if let Some(o) = &self.outstanding {
            match o.write_at {
                Some(_) if self.observed_writes.is_some() => {
                    // (not written yet by the implementation: no event of the model's own)
                    if let Some(t) = self.observed_write_time(o.frame.len()) {
                        upd(t.max(self.now));
                    }
                }
                Some(w) => upd(w),
                // (a deadline at the end of time is no event)
                None if o.deadline == u64::MAX => {}
                None => upd(o.deadline),
            }
        }
        match self.phase {
            Phase::Connecting { until, .. } => upd(until),
            Phase::WaitFail(u) | Phase::WaitDisc(u) => upd(u),
            _ => {}
        }
        t
    }

    // ---------------------------------------------------------------- actions

    pub fn submit(&mut self, cmd: Cmd) {
        if self.phase == Phase::Done {
            // task gone: requests complete with Shutdown immediately
            if let Cmd::Request(spec) = cmd {
                self.effects.push(Effect::Complete {
                    id: spec.id,
                    at: self.now,
                    outcome: Outcome::Shutdown,
                });
            }
            return;
        }
        self.queue.push_back(cmd);
        self.pump();
    }

    pub fn drop_handles(&mut self) {
        self.handles_dropped = true;
        self.pump();
    }

    /// the task future is dropped
    pub fn abort(&mut self) {
        if self.phase == Phase::Done {
            return;
        }
        self.aborted = true;
        if let Some(o) = self.outstanding.take() {
            self.effects.push(Effect::Complete {
                id: o.spec.id,
                at: self.now,
                outcome: Outcome::Shutdown,
            });
        }
        if self.phase == Phase::Connected {
            self.effects.push(Effect::ConnClosed(self.now));
        }
        self.phase = Phase::Done;
        self.fail_queue_shutdown();
        self.effects.push(Effect::TaskDone(self.now));
    }

    fn fail_queue_shutdown(&mut self) {
        while let Some(c) = self.queue.pop_front() {
            if let Cmd::Request(spec) = c {
                self.effects.push(Effect::Complete {
                    id: spec.id,
                    at: self.now,
                    outcome: Outcome::Shutdown,
                });
            }
        }
    }

    pub fn peer_bytes(&mut self, data: &[u8]) {
        if self.phase != Phase::Connected || self.inbound_eof.is_some() {
            // nothing arrives after the line has failed
            return;
        }
        match self.transport {
            Transport::Tcp => {
                let frames = self.mbap.feed(data);
                for f in frames {
                    if self.outstanding.is_none() && self.command_waiting() {
                        // dropped as idle traffic if the task looks at its input first; if it takes the next
                        // request first, a frame carrying that request's id is its reply
                        let (first, n) = self.queued_tx_window();
                        if f.tx.wrapping_sub(first) < n {
                            self.order_dependent = Some("frame with the id of a queued request buffered while the channel is idle");
                        }
                    }
                    self.on_frame(Some(f.tx), &f.pdu);
                    if self.phase != Phase::Connected {
                        return;
                    }
                }
                if self.mbap.dead && self.phase == Phase::Connected {
                    if self.outstanding.is_none() && self.command_waiting() {
                        self.order_dependent = Some("framing error buffered while the channel is idle and a command is queued");
                    }
                    self.on_framing_error();
                } else {
                    self.pump();
                }
            }
            Transport::Rtu => {
                self.rtu_buf.extend_from_slice(data);
                self.rtu_drain();
                self.pump();
            }
        }
    }

    fn rtu_drain(&mut self) {
        loop {
            // frames are only read while a request is outstanding and written, or while idle
            if let Some(o) = &self.outstanding {
                if o.write_at.is_some() {
                    return;
                }
            }
            if self.phase != Phase::Connected || self.rtu_buf.is_empty() {
                return;
            }
            let (items, used) = frame::rtu_deframe(RtuDir::Response, &self.rtu_buf);
            if items.is_empty() {
                return;
            }
            if self.outstanding.is_none() && self.command_waiting() {
                // no transaction ids on a serial line: the frame (or framing error) is idle traffic if the
                // task looks at its input first, and the reply to the next request if it takes that first
                self.order_dependent = Some("serial input buffered while the channel is idle and a command is queued");
            }
            match &items[0] {
                RtuItem::Frame { pdu, .. } => {
                    let pdu = pdu.clone();
                    let total = 1 + pdu.len() + 2;
                    self.rtu_buf.drain(..total);
                    let _ = used;
                    self.on_frame(None, &pdu);
                }
                RtuItem::BadCrc { total } => {
                    let model_closes = self.effects.iter().filter(|e| matches!(e, Effect::ConnClosed(_))).count();
                    let kept = match self.impl_port_closes {
                        Some(f) => f() <= model_closes,
                        None => false,
                    };
                    if kept {
                        // the implementation dropped the frame and stays on the port: so does the model
                        let total = *total;
                        self.rtu_buf.drain(..total);
                        self.bad_crc_frames_skipped += 1;
                        continue;
                    }
                    self.rtu_buf.clear();
                    self.on_framing_error();
                    return;
                }
                RtuItem::Error => {
                    // what the parser consumed before failing is not modelled: the
                    // connection is lost and the buffer state is undefined by the property
                    self.rtu_buf.clear();
                    self.on_framing_error();
                    return;
                }
            }
        }
    }

    fn on_framing_error(&mut self) {
        if let Some(o) = self.outstanding.take() {
            self.effects.push(Effect::Complete {
                id: o.spec.id,
                at: self.now,
                outcome: Outcome::BadFrame,
            });
        }
        self.lost();
        self.pump();
    }

    fn on_frame(&mut self, tx: Option<u16>, pdu_bytes: &[u8]) {
        let o = match &self.outstanding {
            None => return, // dropped while idle
            Some(o) => o.clone(),
        };
        if let Some(tx) = tx {
            if tx != o.tx {
                return;
            }
        }
        let outcome = match pdu::decode_reply(&o.spec.req, pdu_bytes) {
            ReplyClass::Ok(d) => Outcome::Ok(d),
            ReplyClass::Exception(e) => Outcome::Exception(e),
            ReplyClass::Bad => Outcome::BadResponse,
        };
        self.outstanding = None;
        self.timeouts = 0;
        self.effects.push(Effect::Complete {
            id: o.spec.id,
            at: self.now,
            outcome,
        });
        // the next command is taken only after everything already received has been
        // examined (and dropped as idle traffic): callers pump afterwards
    }

    /// the peer closed (kind None) or the read fails with `kind`
    pub fn peer_eof(&mut self, kind: Option<String>) {
        if self.phase != Phase::Connected {
            return;
        }
        let k = kind.unwrap_or_else(|| "UnexpectedEof".to_string());
        if let Some(o) = &self.outstanding {
            if o.write_at.is_some() {
                // not reading yet: noticed after the write
                self.inbound_eof = Some(Some(k));
                return;
            }
        }
        if self.outstanding.is_none() && self.command_waiting() {
            self.order_dependent = Some("end of stream / read error pending while the channel is idle and a command is queued");
        }
        if let Some(o) = self.outstanding.take() {
            self.effects.push(Effect::Complete {
                id: o.spec.id,
                at: self.now,
                outcome: Outcome::Io(k),
            });
        }
        self.lost();
        self.pump();
    }

    /// the next write on the current connection fails with `kind`
    pub fn set_write_error(&mut self, kind: String) {
        self.write_error = Some(kind);
    }

    pub fn advance(&mut self, dt: u64) {
        let target = self.now.saturating_add(dt);
        loop {
            match self.next_event() {
                Some(t) if t <= target => {
                    if t > self.now {
                        self.now = t;
                    }
                    self.fire();
                }
                _ => break,
            }
        }
        self.now = target;
    }

    /// process stall: the clock jumps by `dt`; everything that became due fires at the new instant
    pub fn jump(&mut self, dt: u64) {
        self.now = self.now.saturating_add(dt);
        while let Some(t) = self.next_event() {
            if t > self.now {
                break;
            }
            self.fire();
        }
    }

    fn fire(&mut self) {
        if let Some(o) = self.outstanding.clone() {
            if let Some(w) = o.write_at {
                let due = if self.observed_writes.is_some() { self.observed_write_time(o.frame.len()).map(|t| t <= self.now).unwrap_or(false) } else { w <= self.now };
                if due {
                    self.do_write(o);
                    return;
                }
            } else if o.deadline <= self.now {
                self.outstanding = None;
                self.effects.push(Effect::Complete {
                    id: o.spec.id,
                    at: self.now,
                    outcome: Outcome::Timeout,
                });
                self.timeouts += 1;
                if let Some(max) = self.max_timeouts {
                    if self.timeouts >= max {
                        self.lost();
                    }
                }
                self.pump();
                return;
            }
        }
        match self.phase.clone() {
            Phase::Connecting { until, accept } if until <= self.now => {
                if accept && self.server_up {
                    self.on_connected();
                } else {
                    self.on_connect_failed();
                }
                self.pump();
            }
            Phase::WaitFail(u) | Phase::WaitDisc(u) if u <= self.now => {
                self.attempt();
                self.pump();
            }
            _ => {}
        }
    }

    // ---------------------------------------------------------------- internals

    fn pump(&mut self) {
        loop {
            if self.phase == Phase::Done || self.outstanding.is_some() {
                return;
            }
            let cmd = match self.queue.pop_front() {
                Some(c) => c,
                None => {
                    if self.handles_dropped {
                        Cmd::Shutdown
                    } else {
                        return;
                    }
                }
            };
            self.handle(cmd);
        }
    }

    fn handle(&mut self, cmd: Cmd) {
        match cmd {
            Cmd::SetDecode => {}
            Cmd::Shutdown => {
                if self.phase == Phase::Connected {
                    self.effects.push(Effect::ConnClosed(self.now));
                }
                self.phase = Phase::Done;
                self.emit(MState::Shutdown);
                self.fail_queue_shutdown();
                self.effects.push(Effect::TaskDone(self.now));
            }
            Cmd::Enable => {
                if !self.enabled {
                    self.enabled = true;
                    if self.phase == Phase::Idle {
                        self.attempt();
                    }
                }
            }
            Cmd::Disable => {
                if self.enabled {
                    self.enabled = false;
                    match self.phase {
                        Phase::Connected => {
                            self.effects.push(Effect::ConnClosed(self.now));
                            self.phase = Phase::Idle;
                            self.emit(MState::Disabled);
                        }
                        Phase::Connecting { .. } | Phase::WaitFail(_) | Phase::WaitDisc(_) => {
                            self.phase = Phase::Idle;
                            self.emit(MState::Disabled);
                        }
                        _ => {}
                    }
                }
            }
            Cmd::Request(spec) => match self.phase {
                Phase::Connected => self.transmit(spec),
                _ => self.effects.push(Effect::Complete {
                    id: spec.id,
                    at: self.now,
                    outcome: Outcome::NoConnection,
                }),
            },
        }
    }

    fn attempt(&mut self) {
        self.effects.push(Effect::ConnectAttempt(self.now));
        match self.transport {
            Transport::Tcp => {
                self.emit(MState::Connecting);
                if self.name_unresolvable {
                    if self.command_waiting() {
                        self.order_dependent = Some("name resolution failed at once while a command is queued");
                    }
                    // the host name does not resolve: no TCP connect is made (no plan is consumed)
                    self.on_connect_failed();
                    return;
                }
                let plan = self.plans.pop_front().unwrap_or(if self.server_up { Plan::Accept } else { Plan::Refuse });
                if self.command_waiting() {
                    // a command that is already queued is ready at the first poll of the connect future, and
                    // the task's select! between the two is unbiased: whether the simulated connect (which
                    // resolves at its first poll unless planned slow) wins, and whether a queued disable
                    // cancels the attempt before the network sees it, is not decided by any property
                    self.order_dependent = Some("connect started while a command is queued");
                }
                match plan {
                    Plan::Accept if self.server_up => self.on_connected(),
                    Plan::Accept | Plan::Refuse => self.on_connect_failed(),
                    Plan::Slow(d, accept) => {
                        self.phase = Phase::Connecting {
                            until: self.now.saturating_add(d),
                            accept,
                        }
                    }
                }
            }
            Transport::Rtu => {
                let plan = self.plans.pop_front().unwrap_or(if self.server_up { Plan::Accept } else { Plan::Refuse });
                match plan {
                    Plan::Accept if self.server_up => self.on_connected(),
                    _ => self.on_connect_failed(),
                }
            }
        }
    }

    fn on_connected(&mut self) {
        self.phase = Phase::Connected;
        self.effects.push(Effect::ConnOpened(self.now));
        self.emit(MState::Connected);
        self.retry.reset();
        self.timeouts = 0;
        self.mbap = MbapDeframer::default();
        self.rtu_buf.clear();
        self.inbound_eof = None;
        self.write_error = None;
        self.last_write = None;
        self.connected_once = true;
    }

    fn on_connect_failed(&mut self) {
        let d = self.retry.failed();
        self.emit(MState::WaitAfterFailedConnect(d));
        self.phase = Phase::WaitFail(self.now.saturating_add(d));
    }

    fn lost(&mut self) {
        self.effects.push(Effect::ConnClosed(self.now));
        let d = self.retry.disconnected();
        self.emit(MState::WaitAfterDisconnect(d));
        self.phase = Phase::WaitDisc(self.now.saturating_add(d));
    }

    fn transmit(&mut self, spec: ReqSpec) {
        let tx = self.tx_id;
        self.tx_id = self.tx_id.wrapping_add(1);
        if !pdu::within_limits(&spec.req) {
            self.timeouts = 0;
            self.effects.push(Effect::Complete {
                id: spec.id,
                at: self.now,
                outcome: Outcome::Rejected,
            });
            return;
        }
        let p = pdu::encode_req(&spec.req);
        let frame = match self.transport {
            Transport::Tcp => frame::mbap_frame(tx, spec.unit, &p),
            Transport::Rtu => frame::rtu_frame(spec.unit, &p),
        };
        let write_at = if self.observed_writes.is_some() {
            match self.observed_write_time(frame.len()) {
                Some(t) if t <= self.now => None,
                Some(t) => Some(t),
                None => Some(u64::MAX),
            }
        } else {
            match (self.transport, self.last_write) {
                (Transport::Rtu, Some(l)) if l + self.t35 > self.now => Some(l + self.t35),
                _ => None,
            }
        };
        let o = Outstanding {
            deadline: self.now.saturating_add(spec.timeout),
            spec,
            tx,
            write_at,
            frame,
        };
        if write_at.is_some() {
            self.outstanding = Some(o);
        } else {
            self.do_write(o);
        }
    }

    fn do_write(&mut self, mut o: Outstanding) {
        o.write_at = None;
        self.last_write = Some(self.now);
        self.consume_observed(o.frame.len());
        if let Some(kind) = self.write_error.take() {
            self.outstanding = None;
            self.effects.push(Effect::Complete {
                id: o.spec.id,
                at: self.now,
                outcome: Outcome::Io(kind),
            });
            self.lost();
            self.pump();
            return;
        }
        self.effects.push(Effect::Wire(self.now, o.frame.clone()));
        o.deadline = self.now.saturating_add(o.spec.timeout);
        let due_now = o.deadline <= self.now;
        self.outstanding = Some(o);
        if due_now {
            // a time-out of zero: the deadline is the instant of transmission, and a reply is only in
            // time *strictly before* the deadline - even one that is already buffered comes too late.
            // What is buffered is then read while idle (and dropped) before the next command is taken
            let o = self.outstanding.take().unwrap();
            self.effects.push(Effect::Complete {
                id: o.spec.id,
                at: self.now,
                outcome: Outcome::Timeout,
            });
            self.timeouts += 1;
            if let Some(max) = self.max_timeouts {
                if self.timeouts >= max {
                    self.lost();
                }
            }
            if self.transport == Transport::Rtu {
                self.rtu_drain();
            }
            if let Some(Some(k)) = self.inbound_eof.take() {
                if self.phase == Phase::Connected {
                    self.peer_eof(Some(k));
                    return;
                }
            }
            self.pump();
            return;
        }
        // anything that arrived while we were not reading
        if self.transport == Transport::Rtu {
            self.rtu_drain();
        }
        if let Some(Some(k)) = self.inbound_eof.take() {
            if self.phase == Phase::Connected {
                self.peer_eof(Some(k));
                return;
            }
        }
        self.pump();
    }
}
