//! Reference Modbus server (A.1) and the point memory it shares with the
//! instrumented application handlers.

use super::pdu::{self, Class, Req};
use std::collections::BTreeMap;

#[derive(Clone, Debug, PartialEq, Eq)]
pub enum Call {
    ReadCoil(u16),
    ReadDiscrete(u16),
    ReadHolding(u16),
    ReadInput(u16),
    WriteCoil(u16, bool),
    WriteReg(u16, u16),
    WriteCoils(u16, u16, Vec<(u16, bool)>),
    WriteRegs(u16, u16, Vec<(u16, u16)>),
    /// authorization query: (fc, start-or-index, count (0 for single writes), role, allowed)
    Auth(u8, u16, u16, String, bool),
}

impl Call {
    pub fn is_read(&self) -> bool {
        matches!(
            self,
            Call::ReadCoil(_) | Call::ReadDiscrete(_) | Call::ReadHolding(_) | Call::ReadInput(_)
        )
    }
}

fn mix(a: u64, b: u64) -> u64 {
    let mut z = a ^ b.wrapping_mul(0x9E3779B97F4A7C15);
    z = (z ^ (z >> 30)).wrapping_mul(0xBF58476D1CE4E5B9);
    z = (z ^ (z >> 27)).wrapping_mul(0x94D049BB133111EB);
    z ^ (z >> 31)
}

/// Point memory of one unit: initial values are a function of (seed, type,
/// address); writes overlay them; exception maps make individual addresses fail.
#[derive(Clone, Debug, PartialEq, Eq)]
pub struct UnitMem {
    pub seed: u64,
    pub coils: BTreeMap<u16, bool>,
    pub holding: BTreeMap<u16, u16>,
    /// (point type 1..=4, address) -> exception code on read
    pub read_exc: BTreeMap<(u8, u16), u8>,
    /// (function 5/6/15/16, address) -> exception code when a write touches it
    pub write_exc: BTreeMap<(u8, u16), u8>,
    /// if set every write of function `fc` fails with the code
    pub write_fail_all: BTreeMap<u8, u8>,
}

impl UnitMem {
    pub fn new(seed: u64) -> Self {
        UnitMem {
            seed,
            coils: BTreeMap::new(),
            holding: BTreeMap::new(),
            read_exc: BTreeMap::new(),
            write_exc: BTreeMap::new(),
            write_fail_all: BTreeMap::new(),
        }
    }
    pub fn read_bit(&self, ty: u8, addr: u16) -> Result<bool, u8> {
        if let Some(e) = self.read_exc.get(&(ty, addr)) {
            return Err(*e);
        }
        if ty == 1 {
            if let Some(v) = self.coils.get(&addr) {
                return Ok(*v);
            }
        }
        Ok(mix(self.seed, ((ty as u64) << 16) | addr as u64) & 1 == 1)
    }
    pub fn read_reg(&self, ty: u8, addr: u16) -> Result<u16, u8> {
        if let Some(e) = self.read_exc.get(&(ty, addr)) {
            return Err(*e);
        }
        if ty == 3 {
            if let Some(v) = self.holding.get(&addr) {
                return Ok(*v);
            }
        }
        Ok(mix(self.seed, ((ty as u64) << 16) | addr as u64) as u16)
    }
    fn write_check(&self, fc: u8, addrs: impl Iterator<Item = u16>) -> Result<(), u8> {
        if let Some(e) = self.write_fail_all.get(&fc) {
            return Err(*e);
        }
        for a in addrs {
            if let Some(e) = self.write_exc.get(&(fc, a)) {
                return Err(*e);
            }
        }
        Ok(())
    }
    pub fn write_coil(&mut self, addr: u16, v: bool) -> Result<(), u8> {
        self.write_check(5, std::iter::once(addr))?;
        self.coils.insert(addr, v);
        Ok(())
    }
    pub fn write_reg(&mut self, addr: u16, v: u16) -> Result<(), u8> {
        self.write_check(6, std::iter::once(addr))?;
        self.holding.insert(addr, v);
        Ok(())
    }
    pub fn write_coils(&mut self, items: &[(u16, bool)]) -> Result<(), u8> {
        self.write_check(15, items.iter().map(|x| x.0))?;
        for (a, v) in items {
            self.coils.insert(*a, *v);
        }
        Ok(())
    }
    pub fn write_regs(&mut self, items: &[(u16, u16)]) -> Result<(), u8> {
        self.write_check(16, items.iter().map(|x| x.0))?;
        for (a, v) in items {
            self.holding.insert(*a, *v);
        }
        Ok(())
    }
}

/// Authorization policy: a pure function of (function, unit, range/index, role)
#[derive(Clone, Debug, PartialEq, Eq)]
pub enum Policy {
    AllowAll,
    DenyAll,
    /// rodbus' built-in ReadOnlyAuthorizationHandler (spec: reads allowed, writes denied)
    BuiltinReadOnly,
    /// pseudo-random table keyed by everything
    Table(u64),
    /// allow only when the role equals the string
    Role(String),
    /// deny exactly one unit
    DenyUnit(u8),
    /// allow only this exact (fc, start, count)
    OnlyExact(u8, u16, u16),
}

impl Policy {
    /// `count` is 0 for single writes (the handler receives an index only)
    pub fn decide(&self, fc: u8, unit: u8, start: u16, count: u16, role: &str) -> bool {
        match self {
            Policy::AllowAll => true,
            Policy::DenyAll => false,
            Policy::BuiltinReadOnly => fc <= 4,
            Policy::Table(seed) => {
                let mut h = mix(*seed, fc as u64 | ((unit as u64) << 8) | ((start as u64) << 16) | ((count as u64) << 32));
                for b in role.bytes() {
                    h = mix(h, b as u64);
                }
                h % 3 != 0
            }
            Policy::Role(r) => r == role,
            Policy::DenyUnit(u) => *u != unit,
            Policy::OnlyExact(f, s, c) => *f == fc && *s == start && *c == count,
        }
    }
}

#[derive(Clone, Copy, PartialEq, Eq, Debug)]
pub enum Framing {
    Mbap,
    Rtu,
}

pub struct RefServer {
    pub framing: Framing,
    pub units: BTreeMap<u8, UnitMem>,
    pub auth: Option<(Policy, String)>,
}

#[derive(Debug, Default, Clone)]
pub struct Expected {
    /// reply PDU (None = silence)
    pub reply: Option<Vec<u8>>,
    /// expected journal entries in order: Auth and write calls exactly; reads are
    /// described by `reads_within`
    pub calls: Vec<(u8, Call)>,
    /// reads allowed: (unit, point type, start, count)
    pub reads_within: Option<(u8, u8, u16, u16)>,
    pub class: &'static str,
}

fn auth_args(r: &Req) -> (u16, u16) {
    match r {
        Req::WriteCoil { addr, .. } | Req::WriteReg { addr, .. } => (*addr, 0),
        _ => r.range(),
    }
}

impl RefServer {
    pub fn serve(&mut self, dest: u8, pdu: &[u8]) -> Expected {
        let mut ex = Expected::default();
        let class = pdu::classify(pdu);
        if class == Class::Empty {
            ex.class = "empty";
            return ex;
        }
        let broadcast = self.framing == Framing::Rtu && dest == 0;
        if broadcast {
            ex.class = "broadcast";
            if let Class::Valid(req) = &class {
                if let Some((policy, role)) = &self.auth {
                    let (s, c) = auth_args(req);
                    let ok = policy.decide(req.fc(), dest, s, c, role);
                    ex.calls.push((dest, Call::Auth(req.fc(), s, c, role.clone(), ok)));
                    if !ok {
                        return ex;
                    }
                }
                if req.is_write() {
                    let units: Vec<u8> = self.units.keys().copied().collect();
                    for u in units {
                        let (call, _res) = Self::apply_write(self.units.get_mut(&u).unwrap(), req);
                        ex.calls.push((u, call));
                    }
                }
            }
            return ex;
        }
        let configured = self.units.contains_key(&dest);
        match class {
            Class::Empty => unreachable!(),
            Class::Unknown(fc) => {
                ex.class = if configured { "unknown_fc" } else { "unknown_fc_unconfigured" };
                if configured {
                    ex.reply = Some(vec![fc | 0x80, 0x01]);
                }
            }
            Class::Malformed(fc) => {
                ex.class = if configured { "malformed" } else { "malformed_unconfigured" };
                if configured {
                    ex.reply = Some(vec![fc | 0x80, 0x03]);
                }
            }
            Class::Valid(req) => {
                ex.class = "valid";
                if let Some((policy, role)) = &self.auth {
                    let (s, c) = auth_args(&req);
                    let ok = policy.decide(req.fc(), dest, s, c, role);
                    ex.calls.push((dest, Call::Auth(req.fc(), s, c, role.clone(), ok)));
                    if !ok {
                        // the veto is answered even for unconfigured units (C01 carve-out)
                        ex.class = "denied";
                        ex.reply = Some(vec![req.fc() | 0x80, 0x01]);
                        return ex;
                    }
                }
                if !configured {
                    ex.class = "unconfigured";
                    return ex;
                }
                let mem = self.units.get_mut(&dest).unwrap();
                if req.is_write() {
                    let (call, res) = Self::apply_write(mem, &req);
                    ex.calls.push((dest, call));
                    ex.reply = Some(match res {
                        Ok(()) => pdu::encode_ok_reply(&req, &[], &[]),
                        Err(e) => vec![req.fc() | 0x80, e],
                    });
                } else {
                    let (start, count) = req.range();
                    let ty = req.fc();
                    ex.reads_within = Some((dest, ty, start, count));
                    let mut bits = Vec::new();
                    let mut regs = Vec::new();
                    let mut err = None;
                    for i in 0..count {
                        let a = start + i;
                        let r = if ty <= 2 {
                            mem.read_bit(ty, a).map(|b| bits.push(b))
                        } else {
                            mem.read_reg(ty, a).map(|r| regs.push(r))
                        };
                        if let Err(e) = r {
                            err = Some(e);
                            break;
                        }
                    }
                    ex.reply = Some(match err {
                        Some(e) => vec![ty | 0x80, e],
                        None => pdu::encode_ok_reply(&req, &bits, &regs),
                    });
                }
            }
        }
        ex
    }

    fn apply_write(mem: &mut UnitMem, req: &Req) -> (Call, Result<(), u8>) {
        match req {
            Req::WriteCoil { addr, value } => (Call::WriteCoil(*addr, *value), mem.write_coil(*addr, *value)),
            Req::WriteReg { addr, value } => (Call::WriteReg(*addr, *value), mem.write_reg(*addr, *value)),
            Req::WriteCoils { start, values } => {
                let items: Vec<(u16, bool)> = values.iter().enumerate().map(|(i, v)| (start + i as u16, *v)).collect();
                let r = mem.write_coils(&items);
                (Call::WriteCoils(*start, values.len() as u16, items), r)
            }
            Req::WriteRegs { start, values } => {
                let items: Vec<(u16, u16)> = values.iter().enumerate().map(|(i, v)| (start + i as u16, *v)).collect();
                let r = mem.write_regs(&items);
                (Call::WriteRegs(*start, values.len() as u16, items), r)
            }
            _ => unreachable!(),
        }
    }
}
