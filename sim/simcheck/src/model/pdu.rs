//! Modbus PDUs, written from the protocol specification (independent of rodbus).

pub const MAX_READ_BITS: u16 = 2000;
pub const MAX_READ_REGS: u16 = 125;
pub const MAX_WRITE_COILS: u16 = 1968;
pub const MAX_WRITE_REGS: u16 = 123;

#[derive(Clone, Debug, PartialEq, Eq)]
pub enum Req {
    ReadCoils { start: u16, count: u16 },
    ReadDiscrete { start: u16, count: u16 },
    ReadHolding { start: u16, count: u16 },
    ReadInput { start: u16, count: u16 },
    WriteCoil { addr: u16, value: bool },
    WriteReg { addr: u16, value: u16 },
    WriteCoils { start: u16, values: Vec<bool> },
    WriteRegs { start: u16, values: Vec<u16> },
}

impl Req {
    pub fn fc(&self) -> u8 {
        match self {
            Req::ReadCoils { .. } => 1,
            Req::ReadDiscrete { .. } => 2,
            Req::ReadHolding { .. } => 3,
            Req::ReadInput { .. } => 4,
            Req::WriteCoil { .. } => 5,
            Req::WriteReg { .. } => 6,
            Req::WriteCoils { .. } => 15,
            Req::WriteRegs { .. } => 16,
        }
    }
    pub fn is_write(&self) -> bool {
        self.fc() >= 5
    }
    /// (start, count) of the addressed range
    pub fn range(&self) -> (u16, u16) {
        match self {
            Req::ReadCoils { start, count }
            | Req::ReadDiscrete { start, count }
            | Req::ReadHolding { start, count }
            | Req::ReadInput { start, count } => (*start, *count),
            Req::WriteCoil { addr, .. } | Req::WriteReg { addr, .. } => (*addr, 1),
            Req::WriteCoils { start, values } => (*start, values.len() as u16),
            Req::WriteRegs { start, values } => (*start, values.len() as u16),
        }
    }
}

pub fn pack_bits(bits: &[bool]) -> Vec<u8> {
    let mut out = vec![0u8; bits.len().div_ceil(8)];
    for (i, b) in bits.iter().enumerate() {
        if *b {
            out[i / 8] |= 1 << (i % 8);
        }
    }
    out
}

pub fn unpack_bits(bytes: &[u8], n: usize) -> Vec<bool> {
    (0..n).map(|i| bytes[i / 8] & (1 << (i % 8)) != 0).collect()
}

fn be(x: u16) -> [u8; 2] {
    [(x >> 8) as u8, x as u8]
}

/// protocol encoding of a request PDU (function code + body). No limit checks.
pub fn encode_req(r: &Req) -> Vec<u8> {
    let mut v = vec![r.fc()];
    match r {
        Req::ReadCoils { start, count }
        | Req::ReadDiscrete { start, count }
        | Req::ReadHolding { start, count }
        | Req::ReadInput { start, count } => {
            v.extend(be(*start));
            v.extend(be(*count));
        }
        Req::WriteCoil { addr, value } => {
            v.extend(be(*addr));
            v.extend(if *value { [0xFF, 0x00] } else { [0x00, 0x00] });
        }
        Req::WriteReg { addr, value } => {
            v.extend(be(*addr));
            v.extend(be(*value));
        }
        Req::WriteCoils { start, values } => {
            v.extend(be(*start));
            v.extend(be(values.len() as u16));
            let p = pack_bits(values);
            v.push(p.len() as u8);
            v.extend(p);
        }
        Req::WriteRegs { start, values } => {
            v.extend(be(*start));
            v.extend(be(values.len() as u16));
            v.push((values.len() * 2) as u8);
            for x in values {
                v.extend(be(*x));
            }
        }
    }
    v
}

/// is the request within the protocol limits (what a client may send)?
pub fn within_limits(r: &Req) -> bool {
    let (start, count) = r.range();
    if count == 0 {
        return false;
    }
    if start as u32 + count as u32 - 1 > 65535 {
        return false;
    }
    let lim = match r {
        Req::ReadCoils { .. } | Req::ReadDiscrete { .. } => MAX_READ_BITS,
        Req::ReadHolding { .. } | Req::ReadInput { .. } => MAX_READ_REGS,
        Req::WriteCoil { .. } | Req::WriteReg { .. } => 1,
        Req::WriteCoils { .. } => MAX_WRITE_COILS,
        Req::WriteRegs { .. } => MAX_WRITE_REGS,
    };
    count <= lim
}

#[derive(Clone, Debug, PartialEq, Eq)]
pub enum Class {
    Empty,
    Unknown(u8),
    Malformed(u8),
    Valid(Req),
}

fn rd16(b: &[u8], i: usize) -> u16 {
    ((b[i] as u16) << 8) | b[i + 1] as u16
}

/// classify a request PDU as a reference server would (A.1 step 3)
pub fn classify(p: &[u8]) -> Class {
    if p.is_empty() {
        return Class::Empty;
    }
    let fc = p[0];
    let b = &p[1..];
    let range_ok = |start: u16, count: u16, lim: u16| -> bool {
        count >= 1 && count <= lim && (start as u32 + count as u32 - 1) <= 65535
    };
    match fc {
        1 | 2 | 3 | 4 => {
            if b.len() != 4 {
                return Class::Malformed(fc);
            }
            let (start, count) = (rd16(b, 0), rd16(b, 2));
            let lim = if fc <= 2 { MAX_READ_BITS } else { MAX_READ_REGS };
            if !range_ok(start, count, lim) {
                return Class::Malformed(fc);
            }
            Class::Valid(match fc {
                1 => Req::ReadCoils { start, count },
                2 => Req::ReadDiscrete { start, count },
                3 => Req::ReadHolding { start, count },
                _ => Req::ReadInput { start, count },
            })
        }
        5 => {
            if b.len() != 4 {
                return Class::Malformed(fc);
            }
            let value = match rd16(b, 2) {
                0xFF00 => true,
                0x0000 => false,
                _ => return Class::Malformed(fc),
            };
            Class::Valid(Req::WriteCoil {
                addr: rd16(b, 0),
                value,
            })
        }
        6 => {
            if b.len() != 4 {
                return Class::Malformed(fc);
            }
            Class::Valid(Req::WriteReg {
                addr: rd16(b, 0),
                value: rd16(b, 2),
            })
        }
        15 => {
            if b.len() < 5 {
                return Class::Malformed(fc);
            }
            let (start, count) = (rd16(b, 0), rd16(b, 2));
            if !range_ok(start, count, MAX_WRITE_COILS) {
                return Class::Malformed(fc);
            }
            let nbytes = (count as usize).div_ceil(8);
            // the byte-count byte itself is not examined (length is what is validated)
            if b.len() != 5 + nbytes {
                return Class::Malformed(fc);
            }
            Class::Valid(Req::WriteCoils {
                start,
                values: unpack_bits(&b[5..], count as usize),
            })
        }
        16 => {
            if b.len() < 5 {
                return Class::Malformed(fc);
            }
            let (start, count) = (rd16(b, 0), rd16(b, 2));
            if !range_ok(start, count, MAX_WRITE_REGS) {
                return Class::Malformed(fc);
            }
            if b.len() != 5 + 2 * count as usize {
                return Class::Malformed(fc);
            }
            Class::Valid(Req::WriteRegs {
                start,
                values: (0..count as usize).map(|i| rd16(b, 5 + 2 * i)).collect(),
            })
        }
        _ => Class::Unknown(fc),
    }
}

/// Write Multiple Coils/Registers whose only defect is a quantity above the
/// write limit (1969..=1976 coils fit a 253-byte PDU). Used to key a known finding.
pub fn over_write_limit_only(p: &[u8]) -> bool {
    if p.len() < 6 {
        return false;
    }
    let b = &p[1..];
    let (start, count) = (rd16(b, 0), rd16(b, 2));
    if count == 0 || start as u32 + count as u32 - 1 > 65535 {
        return false;
    }
    match p[0] {
        15 => count > MAX_WRITE_COILS && b.len() == 5 + (count as usize).div_ceil(8),
        16 => count > MAX_WRITE_REGS && b.len() == 5 + 2 * count as usize,
        _ => false,
    }
}

#[derive(Clone, Debug, PartialEq, Eq)]
pub enum ReplyData {
    Bits(Vec<(u16, bool)>),
    Regs(Vec<(u16, u16)>),
    EchoCoil(u16, bool),
    EchoReg(u16, u16),
    EchoRange(u16, u16),
}

#[derive(Clone, Debug, PartialEq, Eq)]
pub enum ReplyClass {
    Ok(ReplyData),
    Exception(u8),
    /// anything else: an error that is not an exception
    Bad,
}

/// what a reply PDU means for `req` (A.5)
pub fn decode_reply(req: &Req, p: &[u8]) -> ReplyClass {
    if p.is_empty() {
        return ReplyClass::Bad;
    }
    let fc = req.fc();
    if p[0] == fc | 0x80 {
        return if p.len() == 2 {
            ReplyClass::Exception(p[1])
        } else {
            ReplyClass::Bad
        };
    }
    if p[0] != fc {
        return ReplyClass::Bad;
    }
    let b = &p[1..];
    match req {
        Req::ReadCoils { start, count } | Req::ReadDiscrete { start, count } => {
            let n = (*count as usize).div_ceil(8);
            if b.len() != 1 + n {
                return ReplyClass::Bad;
            }
            let bits = unpack_bits(&b[1..], *count as usize);
            ReplyClass::Ok(ReplyData::Bits(
                bits.into_iter()
                    .enumerate()
                    .map(|(i, v)| (start.wrapping_add(i as u16), v))
                    .collect(),
            ))
        }
        Req::ReadHolding { start, count } | Req::ReadInput { start, count } => {
            if b.len() != 1 + 2 * *count as usize {
                return ReplyClass::Bad;
            }
            ReplyClass::Ok(ReplyData::Regs(
                (0..*count as usize)
                    .map(|i| (start.wrapping_add(i as u16), rd16(b, 1 + 2 * i)))
                    .collect(),
            ))
        }
        Req::WriteCoil { addr, value } => {
            if b.len() != 4 {
                return ReplyClass::Bad;
            }
            let v = match rd16(b, 2) {
                0xFF00 => true,
                0 => false,
                _ => return ReplyClass::Bad,
            };
            if rd16(b, 0) == *addr && v == *value {
                ReplyClass::Ok(ReplyData::EchoCoil(*addr, *value))
            } else {
                ReplyClass::Bad
            }
        }
        Req::WriteReg { addr, value } => {
            if b.len() != 4 {
                return ReplyClass::Bad;
            }
            if rd16(b, 0) == *addr && rd16(b, 2) == *value {
                ReplyClass::Ok(ReplyData::EchoReg(*addr, *value))
            } else {
                ReplyClass::Bad
            }
        }
        Req::WriteCoils { .. } | Req::WriteRegs { .. } => {
            let (start, count) = req.range();
            if b.len() != 4 {
                return ReplyClass::Bad;
            }
            if rd16(b, 0) == start && rd16(b, 2) == count {
                ReplyClass::Ok(ReplyData::EchoRange(start, count))
            } else {
                ReplyClass::Bad
            }
        }
    }
}

/// the correct reply PDU of a well-behaved server given the data
pub fn encode_ok_reply(req: &Req, bits: &[bool], regs: &[u16]) -> Vec<u8> {
    let mut v = vec![req.fc()];
    match req {
        Req::ReadCoils { .. } | Req::ReadDiscrete { .. } => {
            let p = pack_bits(bits);
            v.push(p.len() as u8);
            v.extend(p);
        }
        Req::ReadHolding { .. } | Req::ReadInput { .. } => {
            v.push((regs.len() * 2) as u8);
            for r in regs {
                v.extend(be(*r));
            }
        }
        Req::WriteCoil { addr, value } => {
            v.extend(be(*addr));
            v.extend(if *value { [0xFF, 0] } else { [0, 0] });
        }
        Req::WriteReg { addr, value } => {
            v.extend(be(*addr));
            v.extend(be(*value));
        }
        Req::WriteCoils { .. } | Req::WriteRegs { .. } => {
            let (s, c) = req.range();
            v.extend(be(s));
            v.extend(be(c));
        }
    }
    v
}
