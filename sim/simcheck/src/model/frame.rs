//! MBAP and RTU framing models.

/// CRC-16/MODBUS computed bit by bit (poly 0xA001 reflected, init 0xFFFF)
pub fn crc16(data: &[u8]) -> u16 {
    let mut crc: u16 = 0xFFFF;
    for b in data {
        crc ^= *b as u16;
        for _ in 0..8 {
            if crc & 1 != 0 {
                crc = (crc >> 1) ^ 0xA001;
            } else {
                crc >>= 1;
            }
        }
    }
    crc
}

pub fn mbap_frame(tx: u16, unit: u8, pdu: &[u8]) -> Vec<u8> {
    let len = (pdu.len() + 1) as u16;
    let mut v = vec![(tx >> 8) as u8, tx as u8, 0, 0, (len >> 8) as u8, len as u8, unit];
    v.extend_from_slice(pdu);
    v
}

pub fn mbap_frame_raw(tx: u16, proto: u16, len: u16, unit: u8, pdu: &[u8]) -> Vec<u8> {
    let mut v = vec![
        (tx >> 8) as u8,
        tx as u8,
        (proto >> 8) as u8,
        proto as u8,
        (len >> 8) as u8,
        len as u8,
        unit,
    ];
    v.extend_from_slice(pdu);
    v
}

pub fn rtu_frame(addr: u8, pdu: &[u8]) -> Vec<u8> {
    let mut v = vec![addr];
    v.extend_from_slice(pdu);
    let c = crc16(&v);
    v.push(c as u8);
    v.push((c >> 8) as u8);
    v
}

#[derive(Clone, Debug, PartialEq, Eq)]
pub struct MbapFrame {
    pub tx: u16,
    pub unit: u8,
    pub pdu: Vec<u8>,
}

/// Incremental MBAP deframer (A.2). After an invalid header it is dead and
/// consumes nothing further.
#[derive(Default, Clone)]
pub struct MbapDeframer {
    buf: Vec<u8>,
    pub dead: bool,
    pub consumed: usize,
}

impl MbapDeframer {
    pub fn feed(&mut self, data: &[u8]) -> Vec<MbapFrame> {
        let mut out = Vec::new();
        if self.dead {
            return out;
        }
        self.buf.extend_from_slice(data);
        loop {
            if self.buf.len() < 7 {
                break;
            }
            let proto = ((self.buf[2] as u16) << 8) | self.buf[3] as u16;
            let len = ((self.buf[4] as usize) << 8) | self.buf[5] as usize;
            if proto != 0 || len == 0 || len > 254 {
                self.dead = true;
                break;
            }
            if self.buf.len() < 6 + len {
                break;
            }
            let tx = ((self.buf[0] as u16) << 8) | self.buf[1] as u16;
            let unit = self.buf[6];
            let pdu = self.buf[7..6 + len].to_vec();
            self.buf.drain(..6 + len);
            self.consumed += 6 + len;
            out.push(MbapFrame { tx, unit, pdu });
        }
        out
    }
    pub fn pending(&self) -> usize {
        self.buf.len()
    }
}

#[derive(Clone, Copy, PartialEq, Eq, Debug)]
pub enum RtuDir {
    Request,
    Response,
}

/// length of the PDU body after the function code, or Err for an unknown
/// function / Ok(None) if more bytes are needed to know
pub fn rtu_body_len(dir: RtuDir, after_addr: &[u8]) -> Result<Option<usize>, ()> {
    if after_addr.is_empty() {
        return Ok(None);
    }
    let fc = after_addr[0];
    if dir == RtuDir::Response && fc & 0x80 != 0 {
        return Ok(Some(1));
    }
    let known = matches!(fc, 1 | 2 | 3 | 4 | 5 | 6 | 15 | 16);
    if !known {
        return Err(());
    }
    match dir {
        RtuDir::Request => match fc {
            1..=6 => Ok(Some(4)),
            _ => {
                if after_addr.len() < 6 {
                    Ok(None)
                } else {
                    Ok(Some(5 + after_addr[5] as usize))
                }
            }
        },
        RtuDir::Response => match fc {
            1..=4 => {
                if after_addr.len() < 2 {
                    Ok(None)
                } else {
                    Ok(Some(1 + after_addr[1] as usize))
                }
            }
            _ => Ok(Some(4)),
        },
    }
}

#[derive(Clone, Debug, PartialEq, Eq)]
pub enum RtuItem {
    Frame { addr: u8, pdu: Vec<u8> },
    /// framing error (unknown function, too long): the model stops
    Error,
    /// a complete frame of `total` bytes (length derived from function code / byte count) whose CRC does not
    /// verify. It is never acted on; whether the session ends or the frame is skipped is the implementation's
    /// choice (C06 demands the former of neither, C07 allows both)
    BadCrc { total: usize },
}

/// Parse as many RTU frames as possible from a contiguous byte string.
pub fn rtu_deframe(dir: RtuDir, data: &[u8]) -> (Vec<RtuItem>, usize) {
    let mut out = Vec::new();
    let mut pos = 0;
    loop {
        let rest = &data[pos..];
        if rest.len() < 2 {
            break;
        }
        let body = match rtu_body_len(dir, &rest[1..]) {
            Err(()) => {
                out.push(RtuItem::Error);
                break;
            }
            Ok(None) => break,
            Ok(Some(n)) => n,
        };
        if 1 + body > 253 {
            out.push(RtuItem::Error);
            break;
        }
        let total = 1 + 1 + body + 2;
        if rest.len() < total {
            break;
        }
        let crc = crc16(&rest[..total - 2]);
        let got = rest[total - 2] as u16 | ((rest[total - 1] as u16) << 8);
        if crc != got {
            out.push(RtuItem::BadCrc { total });
            break;
        }
        out.push(RtuItem::Frame {
            addr: rest[0],
            pdu: rest[1..total - 2].to_vec(),
        });
        pos += total;
    }
    (out, pos)
}
