pub mod pdu;
pub mod frame;
pub mod server;
pub mod client;
