#![allow(dead_code)]
//! simcheck — deterministic simulation checks for rodbus.
//!
//!   simcheck check <PROP> [--tier quick|thorough]     (VERIF_SEED, VERIF_TIER, VERIF_THREADS honoured)
//!   simcheck replay <file>
//!   simcheck selftest determinism

mod checks;
mod driver;
mod known;
mod model;
mod scen;
mod trace;

use std::io::Write;
use std::sync::Mutex;

static REAL_STDOUT: Mutex<Option<std::fs::File>> = Mutex::new(None);

/// The vendored sfio-rustls-config prints to stdout during handshakes; point fd 1
/// at /dev/null while simulations run and keep a private duplicate for reports.
fn redirect_stdout() {
    use std::os::fd::FromRawFd;
    unsafe {
        let dup = libc::dup(1);
        if dup >= 0 {
            *REAL_STDOUT.lock().unwrap() = Some(std::fs::File::from_raw_fd(dup));
            let devnull = libc::open(b"/dev/null\0".as_ptr() as *const libc::c_char, libc::O_WRONLY);
            if devnull >= 0 {
                libc::dup2(devnull, 1);
                libc::close(devnull);
            }
        }
    }
}

pub fn stdout_line(s: &str) {
    let mut g = REAL_STDOUT.lock().unwrap();
    match g.as_mut() {
        Some(f) => {
            let _ = writeln!(f, "{}", s);
            let _ = f.flush();
        }
        None => println!("{}", s),
    }
}

fn main() {
    let args: Vec<String> = std::env::args().collect();
    // quiet panic hook: panics inside simulated tasks are caught and reported by the kernel
    std::panic::set_hook(Box::new(|info| {
        if std::env::var("VERIF_PANIC_VERBOSE").is_ok() {
            eprintln!("panic: {}", info);
        }
    }));
    redirect_stdout();
    trace::install_global();
    known::load();
    let seed: u64 = std::env::var("VERIF_SEED").ok().and_then(|s| s.parse().ok()).unwrap_or(1);
    let code = match args.get(1).map(|s| s.as_str()) {
        Some("check") => {
            let prop = args.get(2).cloned().unwrap_or_default();
            let mut tier = std::env::var("VERIF_TIER").unwrap_or_else(|_| "quick".to_string());
            let mut only: Option<String> = None;
            let mut i = 3;
            while i < args.len() {
                if args[i] == "--tier" {
                    if let Some(t) = args.get(i + 1) {
                        tier = t.clone();
                    }
                    i += 1;
                } else if args[i] == "--only" {
                    // development aid: restrict to batches whose name contains the string
                    only = args.get(i + 1).cloned();
                    i += 1;
                }
                i += 1;
            }
            if tier != "quick" && tier != "thorough" {
                tier = "quick".into();
            }
            match checks::get(&prop, &tier) {
                Some(mut c) => {
                    if let Some(o) = &only {
                        c.batches.retain(|b| b.name.contains(o.as_str()));
                    }
                    driver::run_check(&c, &tier, seed)
                }
                None => {
                    stdout_line(&format!("HARNESS-ERROR unknown property {}", prop));
                    2
                }
            }
        }
        Some("replay") => {
            let path = args.get(2).cloned().unwrap_or_default();
            driver::replay_file(&path, &|p, t| checks::get(p, t))
        }
        Some("selftest") => checks::selftest(seed),
        Some("hashes") => {
            // simcheck hashes <PROP> <batch_idx> <from> <to>
            let prop = args.get(2).cloned().unwrap_or_default();
            let bi: usize = args.get(3).and_then(|s| s.parse().ok()).unwrap_or(0);
            let from: u64 = args.get(4).and_then(|s| s.parse().ok()).unwrap_or(0);
            let to: u64 = args.get(5).and_then(|s| s.parse().ok()).unwrap_or(100);
            match checks::get(&prop, "quick") {
                Some(c) if bi < c.batches.len() => {
                    for (i, h, o) in driver::hashes(&c, bi, from, to, seed) {
                        let mut oh: u64 = 0xcbf29ce484222325;
                        for b in &o {
                            oh = (oh ^ *b as u64).wrapping_mul(0x100000001b3);
                        }
                        stdout_line(&format!("{} {:016x} {:016x}", i, h, oh));
                    }
                    0
                }
                _ => 2,
            }
        }
        Some("serial") => {
            // simcheck serial <PROP> <batch_idx> <from> <to> [tier]   (single-threaded, for the Miri engine)
            let prop = args.get(2).cloned().unwrap_or_default();
            let bi: usize = args.get(3).and_then(|s| s.parse().ok()).unwrap_or(0);
            let from: u64 = args.get(4).and_then(|s| s.parse().ok()).unwrap_or(0);
            let to: u64 = args.get(5).and_then(|s| s.parse().ok()).unwrap_or(0);
            let tier = args.get(6).cloned().unwrap_or_else(|| "quick".into());
            match checks::get(&prop, &tier) {
                Some(c) if bi < c.batches.len() => driver::serial_runs(&c, bi, from, to, seed),
                _ => 2,
            }
        }
        Some("one") => {
            // debug: simcheck one <PROP> <batch_idx> <run_idx> [tier]
            let prop = args.get(2).cloned().unwrap_or_default();
            let bi: usize = args.get(3).and_then(|s| s.parse().ok()).unwrap_or(0);
            let run: u64 = args.get(4).and_then(|s| s.parse().ok()).unwrap_or(0);
            let tier = args.get(5).cloned().unwrap_or_else(|| "quick".into());
            match checks::get(&prop, &tier) {
                Some(c) => driver::run_single(&c, bi, run, seed),
                None => 2,
            }
        }
        _ => {
            stdout_line("usage: simcheck check <PROP> [--tier quick|thorough] | replay <file> | selftest");
            2
        }
    };
    std::process::exit(code);
}
