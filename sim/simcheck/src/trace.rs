//! A tracing subscriber that formats every event and span (so that the
//! library's `Display`/`Debug` impls really execute) into a per-thread sink.

use std::cell::RefCell;
use std::fmt::Write;
use tracing_core::field::{Field, Visit};
use tracing_core::span::{Attributes, Id, Record};
use tracing_core::{Event, Interest, Metadata, Subscriber};

#[derive(Default)]
pub struct Sink {
    pub events: u64,
    pub bytes: u64,
    pub hash: u64,
    pub keep: bool,
    pub lines: Vec<String>,
}

thread_local! {
    pub static SINK: RefCell<Sink> = RefCell::new(Sink::default());
}

pub fn reset(keep: bool) {
    SINK.with(|s| {
        let mut s = s.borrow_mut();
        *s = Sink::default();
        s.keep = keep;
    })
}

pub fn snapshot() -> (u64, u64, u64) {
    SINK.with(|s| {
        let s = s.borrow();
        (s.events, s.bytes, s.hash)
    })
}

pub fn take_lines() -> Vec<String> {
    SINK.with(|s| std::mem::take(&mut s.borrow_mut().lines))
}

struct V<'a>(&'a mut String);

impl Visit for V<'_> {
    fn record_debug(&mut self, field: &Field, value: &dyn std::fmt::Debug) {
        let _ = write!(self.0, " {}={:?}", field.name(), value);
    }
    fn record_str(&mut self, field: &Field, value: &str) {
        let _ = write!(self.0, " {}={}", field.name(), value);
    }
}

fn push(line: String) {
    // never panics on re-entrancy: if the sink is busy the line is dropped
    SINK.with(|s| {
        if let Ok(mut s) = s.try_borrow_mut() {
            s.events += 1;
            s.bytes += line.len() as u64;
            let mut h = if s.hash == 0 { 0xcbf29ce484222325u64 } else { s.hash };
            for b in line.bytes() {
                h ^= b as u64;
                h = h.wrapping_mul(0x100000001b3);
            }
            s.hash = h;
            if s.keep && s.lines.len() < 400 {
                s.lines.push(line);
            }
        }
    })
}

pub struct SimSubscriber;

impl Subscriber for SimSubscriber {
    fn register_callsite(&self, _m: &'static Metadata<'static>) -> Interest {
        Interest::always()
    }
    fn enabled(&self, _m: &Metadata<'_>) -> bool {
        true
    }
    fn new_span(&self, span: &Attributes<'_>) -> Id {
        let mut line = String::with_capacity(64);
        let _ = write!(line, "SPAN {}", span.metadata().name());
        span.record(&mut V(&mut line));
        push(line);
        Id::from_u64(1)
    }
    fn record(&self, _span: &Id, values: &Record<'_>) {
        let mut line = String::with_capacity(32);
        values.record(&mut V(&mut line));
        push(line);
    }
    fn record_follows_from(&self, _span: &Id, _follows: &Id) {}
    fn event(&self, event: &Event<'_>) {
        let mut line = String::with_capacity(96);
        let _ = write!(line, "{}", event.metadata().level());
        event.record(&mut V(&mut line));
        push(line);
    }
    fn enter(&self, _span: &Id) {}
    fn exit(&self, _span: &Id) {}
}

pub fn install_global() {
    let _ = tracing_core::dispatcher::set_global_default(tracing_core::Dispatch::new(SimSubscriber));
}
