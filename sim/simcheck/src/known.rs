//! Known findings: genuine defects recorded (never written at run time).
//! An *open* entry makes the oracle accept, at exactly the listed decision
//! point, either the specified or the listed deviant behaviour. A *fixed*
//! entry relaxes nothing.

use serde_json::Value;
use std::sync::OnceLock;

#[derive(Clone, Debug)]
pub struct Finding {
    pub id: String,
    pub property: String,
    pub key: String,
    pub status: String,
    pub summary: String,
}

static FINDINGS: OnceLock<Vec<Finding>> = OnceLock::new();

pub fn load() {
    let path = format!("{}/known_findings.json", crate::driver::verif_root());
    let mut v = Vec::new();
    if let Ok(text) = std::fs::read_to_string(&path) {
        if let Ok(Value::Array(items)) = serde_json::from_str::<Value>(&text) {
            for it in items {
                v.push(Finding {
                    id: it["id"].as_str().unwrap_or("").to_string(),
                    property: it["property"].as_str().unwrap_or("").to_string(),
                    key: it["match"].as_str().unwrap_or("").to_string(),
                    status: it["status"].as_str().unwrap_or("").to_string(),
                    summary: it["summary"].as_str().unwrap_or("").to_string(),
                });
            }
        }
    }
    let _ = FINDINGS.set(v);
}

/// exact match on (property, key) among OPEN findings
pub fn lookup(prop: &str, key: &str) -> Option<String> {
    FINDINGS
        .get()?
        .iter()
        .find(|f| f.status == "open" && f.property == prop && f.key == key)
        .map(|f| f.id.clone())
}

pub fn property_of(id: &str) -> Option<String> {
    FINDINGS.get()?.iter().find(|f| f.id == id).map(|f| f.property.clone())
}

pub fn describe(id: &str) -> String {
    match FINDINGS.get().and_then(|v| v.iter().find(|f| f.id == id)) {
        Some(f) => format!("{} [{}] {}", f.id, f.key, f.summary),
        None => id.to_string(),
    }
}
