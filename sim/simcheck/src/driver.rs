//! Batch runner: seeded runs on N threads, violation selection, tape shrinking,
//! replay files, evidence files, known findings.

use serde_json::{json, Value};
use simtokio::kernel::{self, SimConfig, Tape};
use std::collections::{BTreeMap, BTreeSet, HashSet};
use std::panic::AssertUnwindSafe;
use std::sync::atomic::{AtomicBool, AtomicU64, Ordering};
use std::sync::Mutex;

#[derive(Clone, Debug)]
pub struct Violation {
    pub prop: &'static str,
    pub rule: String,
    pub detail: String,
}

#[derive(Clone, Copy, Debug, PartialEq, Eq)]
pub enum Mode {
    /// settle after every director action; exact comparison with the model
    LockStep,
    /// free interleaving; history invariants only
    Racy,
}

#[derive(Clone, Copy, Debug)]
pub struct DecodePlan {
    /// None: chosen from the tape. Some(i): index into the 36 levels
    pub initial: Option<u8>,
    /// inject a decode-level change before director action `k` (to level index)
    pub change_at: Option<(u32, u8)>,
}

impl DecodePlan {
    pub const FREE: DecodePlan = DecodePlan {
        initial: None,
        change_at: None,
    };
}

#[derive(Clone, Copy, Debug)]
pub struct ScenCfg {
    pub mode: Mode,
    /// inject faults (separate batches from fault-free)
    pub faults: bool,
    /// scenario-specific variant selector
    pub variant: u32,
    pub decode: DecodePlan,
}

#[derive(Default)]
pub struct RunOut {
    pub violations: Vec<Violation>,
    pub known: Vec<String>,
    /// hash identifying the workload if it was non-trivial (>= 1 operation reached its oracle)
    pub nontrivial: Option<u64>,
    pub sample: Option<Value>,
    pub probes: BTreeMap<&'static str, u64>,
    pub states: Vec<u64>,
    /// property-independent digest of everything observable (for paired runs)
    pub observable: Vec<u8>,
    pub ops_checked: u64,
}

impl RunOut {
    pub fn violate(&mut self, prop: &'static str, rule: &str, detail: String) {
        if self.violations.len() < 16 {
            self.violations.push(Violation {
                prop,
                rule: rule.to_string(),
                detail,
            });
        }
    }
    pub fn probe(&mut self, name: &'static str) {
        *self.probes.entry(name).or_insert(0) += 1;
    }
    pub fn probe_n(&mut self, name: &'static str, n: u64) {
        *self.probes.entry(name).or_insert(0) += n;
    }
    pub fn state(&mut self, h: u64) {
        if self.states.len() < 256 {
            self.states.push(h);
        }
    }
    /// consult the known-findings list: returns true (and records it) if this
    /// exact deviation is listed as an open finding
    pub fn known(&mut self, prop: &str, key: &str) -> bool {
        match crate::known::lookup(prop, key) {
            Some(id) => {
                if !self.known.contains(&id) {
                    self.known.push(id);
                }
                true
            }
            None => false,
        }
    }
}

pub type ScenarioFn = fn(&ScenCfg, &mut RunOut);

#[derive(Clone)]
pub struct Batch {
    pub name: &'static str,
    pub f: ScenarioFn,
    pub cfg: ScenCfg,
    pub runs: u64,
    /// which components ran real code / were stubs in this batch
    pub real: &'static str,
    pub stub: &'static str,
}

pub struct Check {
    pub prop: &'static str,
    pub rule_text: &'static str,
    pub batches: Vec<Batch>,
    pub assumptions: Vec<&'static str>,
}

pub struct RunRecord {
    pub out: RunOut,
    pub tape: Vec<u32>,
    pub hash: u64,
    pub events: u64,
    pub steps: u64,
    pub sim_ns: u64,
    pub counters: BTreeMap<&'static str, u64>,
    pub panics: Vec<String>,
    pub harness_panic: Option<String>,
    pub trace: Vec<String>,
    pub log_lines: Vec<String>,
    pub max_spin: u64,
}

pub fn run_one(batch: &Batch, tape: Tape, trace: bool) -> RunRecord {
    crate::trace::reset(trace);
    kernel::install(
        tape,
        SimConfig {
            trace,
            ..SimConfig::default()
        },
    );
    let mut out = RunOut::default();
    let r = std::panic::catch_unwind(AssertUnwindSafe(|| (batch.f)(&batch.cfg, &mut out)));
    let harness_panic = r.err().map(|p| kernel::panic_message(&p));
    let (steps, sim_ns, counters, panics, max_spin) = kernel::with(|w| {
        (
            w.steps,
            w.now,
            std::mem::take(&mut w.counters),
            std::mem::take(&mut w.panics),
            w.max_spin,
        )
    });
    let (tape, log) = kernel::uninstall().expect("world vanished");
    for p in &panics {
        out.violate("C07", "task_panic", p.clone());
    }
    RunRecord {
        out,
        tape: tape.values,
        hash: log.hash,
        events: log.count,
        steps,
        sim_ns,
        counters,
        panics,
        harness_panic,
        trace: log.trace.unwrap_or_default(),
        log_lines: crate::trace::take_lines(),
        max_spin,
    }
}

#[derive(Default)]
pub struct Agg {
    pub runs: u64,
    pub steps: u64,
    pub events: u64,
    pub sim_ns: u128,
    pub counters: BTreeMap<&'static str, u64>,
    pub probes: BTreeMap<&'static str, u64>,
    pub schedules: HashSet<u64>,
    pub nontrivial: HashSet<u64>,
    pub states: HashSet<u64>,
    pub samples: Vec<Value>,
    pub known: BTreeSet<String>,
    pub ops_checked: u64,
    pub other_prop_violations: u64,
    pub max_spin: u64,
}

impl Agg {
    fn absorb(&mut self, r: &RunRecord, prop: &str) {
        self.runs += 1;
        self.steps += r.steps;
        self.events += r.events;
        self.sim_ns += r.sim_ns as u128;
        for (k, v) in &r.counters {
            *self.counters.entry(k).or_insert(0) += v;
        }
        for (k, v) in &r.out.probes {
            *self.probes.entry(k).or_insert(0) += v;
        }
        self.schedules.insert(r.hash);
        if let Some(h) = r.out.nontrivial {
            self.nontrivial.insert(h);
        }
        for s in &r.out.states {
            self.states.insert(*s);
        }
        if self.samples.len() < 3 {
            if let Some(s) = &r.out.sample {
                self.samples.push(s.clone());
            }
        }
        for k in &r.out.known {
            self.known.insert(k.clone());
        }
        self.ops_checked += r.out.ops_checked;
        self.other_prop_violations += r.out.violations.iter().filter(|v| v.prop != prop).count() as u64;
        self.max_spin = self.max_spin.max(r.max_spin);
    }
    fn merge(&mut self, o: Agg) {
        self.runs += o.runs;
        self.steps += o.steps;
        self.events += o.events;
        self.sim_ns += o.sim_ns;
        for (k, v) in o.counters {
            *self.counters.entry(k).or_insert(0) += v;
        }
        for (k, v) in o.probes {
            *self.probes.entry(k).or_insert(0) += v;
        }
        self.schedules.extend(o.schedules);
        self.nontrivial.extend(o.nontrivial);
        self.states.extend(o.states);
        for s in o.samples {
            if self.samples.len() < 4 {
                self.samples.push(s);
            }
        }
        self.known.extend(o.known);
        self.ops_checked += o.ops_checked;
        self.other_prop_violations += o.other_prop_violations;
        self.max_spin = self.max_spin.max(o.max_spin);
    }
}

pub struct Found {
    pub batch_idx: usize,
    pub run: u64,
    pub rec: RunRecord,
    pub v: Violation,
}

// ---- real-time watchdog: a run that never returns (a loop inside one poll that touches no
// simulated I/O cannot be unwound by the kernel watchdog) is reported instead of hanging the check
struct Slot {
    started: Option<std::time::Instant>,
    what: String,
}
static SLOTS: Mutex<Vec<Slot>> = Mutex::new(Vec::new());
static WATCHDOG: std::sync::Once = std::sync::Once::new();

fn slot_begin(what: String) -> usize {
    let mut g = SLOTS.lock().unwrap();
    let idx = g.iter().position(|s| s.started.is_none()).unwrap_or_else(|| {
        g.push(Slot { started: None, what: String::new() });
        g.len() - 1
    });
    g[idx] = Slot { started: Some(std::time::Instant::now()), what };
    idx
}

fn slot_end(idx: usize) {
    let mut g = SLOTS.lock().unwrap();
    g[idx].started = None;
}

fn start_watchdog(prop: &'static str) {
    WATCHDOG.call_once(|| {
        std::thread::spawn(move || loop {
            std::thread::sleep(std::time::Duration::from_secs(5));
            let limit: u64 = std::env::var("VERIF_RUN_WALL_LIMIT_S").ok().and_then(|s| s.parse().ok()).unwrap_or(180);
            let g = SLOTS.lock().unwrap();
            for s in g.iter() {
                if let Some(t) = s.started {
                    if t.elapsed().as_secs() > limit {
                        let dir = format!("{}/replays", verif_root());
                        let _ = std::fs::create_dir_all(&dir);
                        let path = format!("{}/{}-hang.json", dir, prop);
                        let doc: Value = serde_json::from_str(&s.what).unwrap_or(json!({}));
                        let _ = std::fs::write(&path, serde_json::to_string_pretty(&doc).unwrap());
                        out_line(&format!("VIOLATION property={} replay={}", prop, path));
                        out_line(&format!("  rule=run_does_not_terminate a simulated run did not return within {} s of real time (a task loops without yielding and without touching simulated I/O): {}", limit, s.what));
                        std::process::exit(1);
                    }
                }
            }
        });
    });
}

pub fn threads() -> usize {
    std::env::var("VERIF_THREADS")
        .ok()
        .and_then(|s| s.parse().ok())
        .unwrap_or(16)
}

pub fn verif_root() -> String {
    std::env::var("VERIF_ROOT").unwrap_or_else(|_| "/verif".to_string())
}

/// Run one batch on all threads. Returns the aggregate and the violation with
/// the lowest run index (if any), or a harness error.
fn run_batch(prop: &'static str, bi: usize, batch: &Batch, seed: u64) -> Result<(Agg, Option<Found>), String> {
    let next = AtomicU64::new(0);
    let stop = AtomicBool::new(false);
    let found: Mutex<Vec<Found>> = Mutex::new(Vec::new());
    let harness_err: Mutex<Option<String>> = Mutex::new(None);
    let total = Mutex::new(Agg::default());
    let stream = stream_id(prop, bi);
    std::thread::scope(|s| {
        for _ in 0..threads() {
            s.spawn(|| {
                let mut agg = Agg::default();
                loop {
                    if stop.load(Ordering::SeqCst) {
                        break;
                    }
                    let i = next.fetch_add(1, Ordering::SeqCst);
                    if i >= batch.runs {
                        break;
                    }
                    let slot = slot_begin(
                        json!({"property": prop, "scenario": batch.name, "batch_index": bi, "seed": seed, "run_index": i, "rule": "run_does_not_terminate", "tape": null, "hang": true}).to_string(),
                    );
                    // a panic that escapes run_one is a harness error, never a hang
                    let rec = std::panic::catch_unwind(AssertUnwindSafe(|| run_one(batch, Tape::generate(seed ^ stream, i), false)));
                    slot_end(slot);
                    let rec = match rec {
                        Ok(r) => r,
                        Err(p) => {
                            stop.store(true, Ordering::SeqCst);
                            let mut h = harness_err.lock().unwrap();
                            if h.is_none() {
                                *h = Some(format!("panic outside the simulated run in batch {} run {}: {}", batch.name, i, kernel::panic_message(&p)));
                            }
                            break;
                        }
                    };
                    if let Some(msg) = &rec.harness_panic {
                        stop.store(true, Ordering::SeqCst);
                        let mut h = harness_err.lock().unwrap();
                        if h.is_none() {
                            *h = Some(format!("harness panic in batch {} run {}: {}", batch.name, i, msg));
                        }
                        break;
                    }
                    agg.absorb(&rec, prop);
                    if let Some(v) = rec.out.violations.iter().find(|v| v.prop == prop).cloned() {
                        stop.store(true, Ordering::SeqCst);
                        found.lock().unwrap().push(Found {
                            batch_idx: bi,
                            run: i,
                            rec,
                            v,
                        });
                    }
                }
                total.lock().unwrap().merge(agg);
            });
        }
    });
    if let Some(e) = harness_err.into_inner().unwrap() {
        return Err(e);
    }
    let mut f = found.into_inner().unwrap();
    f.sort_by_key(|x| x.run);
    Ok((total.into_inner().unwrap(), f.into_iter().next()))
}

fn stream_id(prop: &str, bi: usize) -> u64 {
    let mut h: u64 = 0x9E3779B97F4A7C15;
    for b in prop.bytes() {
        h = (h ^ b as u64).wrapping_mul(0x100000001b3);
    }
    h.wrapping_add((bi as u64) << 48)
}

/// shrink a failing tape while the same (prop, rule) still fires
fn shrink(batch: &Batch, prop: &str, rule: &str, tape: Vec<u32>) -> (Vec<u32>, u32) {
    let mut best = tape;
    let mut budget: i32 = 1500;
    let mut execs = 0u32;
    let test = |cand: &Vec<u32>, budget: &mut i32, execs: &mut u32| -> bool {
        if *budget <= 0 {
            return false;
        }
        *budget -= 1;
        *execs += 1;
        let rec = run_one(batch, Tape::replay(cand.clone()), false);
        rec.harness_panic.is_none() && rec.out.violations.iter().any(|v| v.prop == prop && v.rule == rule)
    };
    // trailing zeros are implied by the replay rule (exhausted tape => 0); drop them if the
    // violation does not depend on the literal tape length (paired replays hash the tape)
    {
        let mut cand = best.clone();
        while cand.last() == Some(&0) {
            cand.pop();
        }
        if cand.len() != best.len() && test(&cand, &mut budget, &mut execs) {
            best = cand;
        }
    }
    let mut improved = true;
    while improved && budget > 0 {
        improved = false;
        // 1. truncate
        let mut cut = best.len() / 2;
        while cut >= 1 && budget > 0 {
            if best.len() > cut {
                let cand: Vec<u32> = best[..best.len() - cut].to_vec();
                if test(&cand, &mut budget, &mut execs) {
                    best = cand;
                    improved = true;
                    continue;
                }
            }
            cut /= 2;
        }
        // 2. delete blocks
        for size in [8usize, 4, 2, 1] {
            let mut i = 0;
            while i + size <= best.len() && budget > 0 {
                let mut cand = best.clone();
                cand.drain(i..i + size);
                if test(&cand, &mut budget, &mut execs) {
                    best = cand;
                    improved = true;
                } else {
                    i += size;
                }
            }
        }
        // 3. zero entries, then halve / decrement
        let mut i = 0;
        while i < best.len() && budget > 0 {
            if best[i] != 0 {
                let mut cand = best.clone();
                cand[i] = 0;
                if test(&cand, &mut budget, &mut execs) {
                    best = cand;
                    improved = true;
                } else if best[i] > 1 {
                    let mut cand = best.clone();
                    cand[i] = best[i] / 2;
                    if test(&cand, &mut budget, &mut execs) {
                        best = cand;
                        improved = true;
                        continue;
                    }
                    let mut cand = best.clone();
                    cand[i] = best[i] - 1;
                    if test(&cand, &mut budget, &mut execs) {
                        best = cand;
                        improved = true;
                        continue;
                    }
                }
            }
            i += 1;
        }
        let mut cand = best.clone();
        while cand.last() == Some(&0) {
            cand.pop();
        }
        if cand.len() != best.len() && test(&cand, &mut budget, &mut execs) {
            best = cand;
        }
    }
    (best, execs)
}

fn write_replay(check: &Check, f: &Found, seed: u64, tier: &str) -> Result<(String, Violation), String> {
    let batch = &check.batches[f.batch_idx];
    let (min_tape, execs) = shrink(batch, check.prop, &f.v.rule, f.rec.tape.clone());
    // authoritative re-execution of the minimised tape, with a trace
    let rec = run_one(batch, Tape::replay(min_tape.clone()), true);
    let v = match rec.out.violations.iter().find(|v| v.prop == check.prop && v.rule == f.v.rule) {
        Some(v) => v.clone(),
        None => return Err("minimised tape did not reproduce the violation".into()),
    };
    // determinism of the replay itself
    let rec2 = run_one(batch, Tape::replay(min_tape.clone()), true);
    if rec2.hash != rec.hash {
        return Err(format!(
            "replay is not deterministic (event hash {:x} vs {:x})",
            rec.hash, rec2.hash
        ));
    }
    let dir = format!("{}/replays", verif_root());
    std::fs::create_dir_all(&dir).map_err(|e| e.to_string())?;
    let path = format!("{}/{}-{}-s{}-r{}.json", dir, check.prop, batch.name, seed, f.run);
    let doc = json!({
        "property": check.prop,
        "scenario": batch.name,
        "batch_index": f.batch_idx,
        "tier": tier,
        "seed": seed,
        "run_index": f.run,
        "rule": v.rule,
        "detail": v.detail,
        "original_tape_len": f.rec.tape.len(),
        "shrink_executions": execs,
        "tape": min_tape,
        "event_hash": format!("{:016x}", rec.hash),
        "sim_time_ns": rec.sim_ns,
        "sample": rec.out.sample,
        "trace": rec.trace,
        "library_log": rec.log_lines,
    });
    std::fs::write(&path, serde_json::to_string_pretty(&doc).unwrap()).map_err(|e| e.to_string())?;
    Ok((path, v))
}

/// event-log hashes of runs `from..to` of one batch, one per line (for the cross-process
/// determinism self-test)
pub fn hashes(check: &Check, bi: usize, from: u64, to: u64, seed: u64) -> Vec<(u64, u64, Vec<u8>)> {
    let batch = &check.batches[bi];
    let next = AtomicU64::new(from);
    let res: Mutex<Vec<(u64, u64, Vec<u8>)>> = Mutex::new(Vec::new());
    let stream = stream_id(check.prop, bi);
    std::thread::scope(|s| {
        for _ in 0..threads() {
            s.spawn(|| loop {
                let i = next.fetch_add(1, Ordering::SeqCst);
                if i >= to {
                    break;
                }
                let rec = run_one(batch, Tape::generate(seed ^ stream, i), false);
                res.lock().unwrap().push((i, rec.hash, rec.out.observable));
            });
        }
    });
    let mut v = res.into_inner().unwrap();
    v.sort_by_key(|x| x.0);
    v
}

pub fn run_single(check: &Check, bi: usize, run: u64, seed: u64) -> i32 {
    let batch = &check.batches[bi];
    let rec = run_one(batch, Tape::generate(seed ^ stream_id(check.prop, bi), run), true);
    for l in rec.trace.iter().rev().take(60).rev() {
        out_line(l);
    }
    out_line(&format!("harness_panic={:?}", rec.harness_panic));
    for v in &rec.out.violations {
        out_line(&format!("violation {} {} {}", v.prop, v.rule, v.detail));
    }
    out_line(&format!("sample={}", rec.out.sample.map(|s| s.to_string()).unwrap_or_default()));
    0
}

/// runs `from..to` of one batch, one after the other on this thread (used when the whole
/// process is interpreted by Miri: undefined behaviour aborts the interpreter with its own report)
pub fn serial_runs(check: &Check, bi: usize, from: u64, to: u64, seed: u64) -> i32 {
    let batch = &check.batches[bi];
    let mut bad = 0;
    for i in from..to {
        let rec = run_one(batch, Tape::generate(seed ^ stream_id(check.prop, bi), i), false);
        let mine: Vec<&Violation> = rec.out.violations.iter().filter(|v| v.prop == check.prop).collect();
        out_line(&format!("SERIAL-RUN {} {} {} hash={:016x} events={} violations={}", check.prop, batch.name, i, rec.hash, rec.events, mine.len()));
        if let Some(p) = &rec.harness_panic {
            out_line(&format!("HARNESS-PANIC {}", p));
            bad += 1;
        }
        for v in mine {
            out_line(&format!("violation {} {} {}", v.prop, v.rule, v.detail));
            bad += 1;
        }
    }
    if bad > 0 {
        1
    } else {
        0
    }
}

pub fn out_line(s: &str) {
    crate::stdout_line(s);
}

pub fn run_check(check: &Check, tier: &str, seed: u64) -> i32 {
    start_watchdog(check.prop);
    let t0 = std::time::Instant::now();
    let mut agg = Agg::default();
    let mut per_batch = Vec::new();
    let mut violation: Option<(String, Violation)> = None;
    let mut determinism = (0u64, 0u64);
    for (bi, batch) in check.batches.iter().enumerate() {
        let bt = std::time::Instant::now();
        let (a, found) = match run_batch(check.prop, bi, batch, seed) {
            Ok(x) => x,
            Err(e) => {
                out_line(&format!("HARNESS-ERROR property={} {}", check.prop, e));
                return 2;
            }
        };
        per_batch.push(json!({
            "name": batch.name, "mode": format!("{:?}", batch.cfg.mode), "faults": batch.cfg.faults,
            "variant": batch.cfg.variant, "runs": a.runs, "wall_s": bt.elapsed().as_secs_f64(),
            "real": batch.real, "stub": batch.stub,
        }));
        agg.merge(a);
        if let Some(f) = found {
            match write_replay(check, &f, seed, tier) {
                Ok((path, v)) => {
                    violation = Some((path, v));
                }
                Err(e) => {
                    out_line(&format!(
                        "HARNESS-ERROR property={} violation {} in {} run {} could not be minimised/replayed: {} ({})",
                        check.prop, f.v.rule, batch.name, f.run, e, f.v.detail
                    ));
                    return 2;
                }
            }
            break;
        }
        // determinism re-check: the first runs of the batch again, hashes must agree
        let n = batch.runs.min(if tier == "thorough" { 200 } else { 40 });
        let stream = stream_id(check.prop, bi);
        for i in 0..n {
            let r1 = run_one(batch, Tape::generate(seed ^ stream, i), false);
            let r2 = run_one(batch, Tape::replay(r1.tape.clone()), false);
            determinism.0 += 1;
            if r1.hash != r2.hash || r1.out.observable != r2.out.observable {
                determinism.1 += 1;
            }
        }
    }
    let wall = t0.elapsed().as_secs_f64();
    for k in &agg.known {
        // a finding is announced by the check of the property it belongs to
        if crate::known::property_of(k).as_deref() == Some(check.prop) {
            out_line(&format!("KNOWN-FINDING: property={} {}", check.prop, crate::known::describe(k)));
        }
    }
    let faults: BTreeMap<&str, u64> = agg
        .counters
        .iter()
        .filter(|(k, _)| k.starts_with("fault_"))
        .map(|(k, v)| (*k, *v))
        .collect();
    let other: BTreeMap<&str, u64> = agg
        .counters
        .iter()
        .filter(|(k, _)| !k.starts_with("fault_"))
        .map(|(k, v)| (*k, *v))
        .collect();
    let zero_probes: Vec<&str> = agg.probes.iter().filter(|(_, v)| **v == 0).map(|(k, _)| *k).collect();
    let real: BTreeSet<&str> = check.batches.iter().flat_map(|b| b.real.split(", ")).collect();
    let stub: BTreeSet<&str> = check.batches.iter().flat_map(|b| b.stub.split(", ")).collect();
    let ev = json!({
        "property_id": check.prop,
        "tier": tier,
        "seed": seed,
        "level": "exploration",
        "wall_s": wall,
        "violations": if violation.is_some() { 1 } else { 0 },
        "assumptions": check.assumptions,
        "coverage": {
            "evaluations": agg.runs,
            "distinct_nontrivial": agg.nontrivial.len(),
            "rule": check.rule_text,
            "samples": agg.samples,
            "operations_checked_against_oracle": agg.ops_checked,
            "runs_per_hour": if wall > 0.0 { (agg.runs as f64 / wall * 3600.0) as u64 } else { 0 },
            "seeds": {"base_seed": seed, "run_index_ranges": check.batches.iter().map(|b| b.runs).collect::<Vec<_>>()},
            "sim_time_s": (agg.sim_ns as f64) / 1e9,
            "scheduler_steps": agg.steps,
            "kernel_events": agg.events,
            "faults_fired": faults,
            "kernel_counters": other,
            "probes": agg.probes,
            "probes_at_zero": zero_probes,
            "distinct_schedules": agg.schedules.len(),
            "distinct_abstract_states": agg.states.len(),
            "max_consecutive_polls_of_one_task": agg.max_spin,
            "batches": per_batch,
            "components": {"real": real, "stub": stub},
            "determinism_recheck": {"runs": determinism.0, "mismatches": determinism.1},
            "known_findings_seen": agg.known,
            "violations_of_other_properties_seen": agg.other_prop_violations,
            "threads": threads(),
        }
    });
    let dir = format!("{}/evidence", verif_root());
    let _ = std::fs::create_dir_all(&dir);
    let path = format!("{}/{}.json", dir, check.prop);
    if let Err(e) = std::fs::write(&path, serde_json::to_string_pretty(&ev).unwrap()) {
        out_line(&format!("HARNESS-ERROR cannot write evidence {}: {}", path, e));
        return 2;
    }
    if determinism.1 > 0 {
        out_line(&format!(
            "HARNESS-ERROR property={} determinism re-check failed: {} of {} runs differ",
            check.prop, determinism.1, determinism.0
        ));
        return 2;
    }
    match violation {
        Some((path, v)) => {
            out_line(&format!("VIOLATION property={} replay={}", check.prop, path));
            out_line(&format!("  rule={} {}", v.rule, v.detail));
            1
        }
        None => {
            out_line(&format!(
                "OK property={} tier={} seed={} runs={} distinct_nontrivial={} ops_checked={} wall={:.1}s",
                check.prop,
                tier,
                seed,
                agg.runs,
                agg.nontrivial.len(),
                agg.ops_checked,
                wall
            ));
            0
        }
    }
}

/// Re-execute a replay file. Exit 1 + VIOLATION line if it reproduces, 2 if not.
pub fn replay_file(path: &str, checks: &dyn Fn(&str, &str) -> Option<Check>) -> i32 {
    let text = match std::fs::read_to_string(path) {
        Ok(t) => t,
        Err(e) => {
            out_line(&format!("HARNESS-ERROR cannot read {}: {}", path, e));
            return 2;
        }
    };
    let doc: Value = match serde_json::from_str(&text) {
        Ok(v) => v,
        Err(e) => {
            out_line(&format!("HARNESS-ERROR bad replay file: {}", e));
            return 2;
        }
    };
    let prop = doc["property"].as_str().unwrap_or("");
    let tier = doc["tier"].as_str().unwrap_or("quick");
    let scen = doc["scenario"].as_str().unwrap_or("");
    let bi = doc["batch_index"].as_u64().unwrap_or(0) as usize;
    let rule = doc["rule"].as_str().unwrap_or("");
    let want_hash = doc["event_hash"].as_str().unwrap_or("");
    let tape: Vec<u32> = doc["tape"]
        .as_array()
        .map(|a| a.iter().map(|x| x.as_u64().unwrap_or(0) as u32).collect())
        .unwrap_or_default();
    let check = match checks(prop, tier) {
        Some(c) => c,
        None => {
            out_line(&format!("HARNESS-ERROR unknown property {}", prop));
            return 2;
        }
    };
    let batch = match check.batches.get(bi) {
        Some(b) if b.name == scen => b,
        _ => match check.batches.iter().find(|b| b.name == scen) {
            Some(b) => b,
            None => {
                out_line(&format!("HARNESS-ERROR unknown scenario {}", scen));
                return 2;
            }
        },
    };
    let rec = if doc["hang"].as_bool() == Some(true) {
        start_watchdog(check.prop);
        let seed = doc["seed"].as_u64().unwrap_or(1);
        let run = doc["run_index"].as_u64().unwrap_or(0);
        let slot = slot_begin(text.clone());
        let r = run_one(batch, Tape::generate(seed ^ stream_id(check.prop, bi), run), true);
        slot_end(slot);
        r
    } else {
        run_one(batch, Tape::replay(tape), true)
    };
    let got_hash = format!("{:016x}", rec.hash);
    for l in rec.trace.iter().take(400) {
        out_line(l);
    }
    match rec.out.violations.iter().find(|v| v.prop == check.prop && v.rule == rule) {
        Some(v) => {
            if got_hash != want_hash {
                out_line(&format!(
                    "note: violation reproduced but event hash differs ({} vs recorded {}): the code under test changed since the replay was written",
                    got_hash, want_hash
                ));
            }
            out_line(&format!("VIOLATION property={} replay={}", check.prop, path));
            out_line(&format!("  rule={} {}", v.rule, v.detail));
            1
        }
        None => {
            out_line(&format!(
                "NOT-REPRODUCED property={} rule={} (event hash {} recorded {})",
                prop, rule, got_hash, want_hash
            ));
            2
        }
    }
}
