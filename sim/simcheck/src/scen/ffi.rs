//! C-ABI workloads: the generated `extern "C"` functions of rodbus-ffi running
//! on the simulated runtime (C18, C19 map semantics, C-ABI halves of C16 / C10).

use super::common::*;
use crate::driver::{RunOut, ScenCfg};
use crate::model::frame::{mbap_frame, mbap_frame_raw, MbapDeframer};
use crate::model::pdu::{self, Req};
use rodbus_ffi::ffi;
use serde_json::json;
use simtokio::kernel::{self, chance, choose, weighted};
use simtokio::net::{self, PeerEnd};
use std::collections::BTreeMap;
use std::ffi::CString;
use std::net::{IpAddr, SocketAddr};
use std::os::raw::{c_int, c_void};
use std::sync::{Arc, Mutex};

const MS: u64 = 1_000_000;

// ---- same-named counterparts, written from the schema (not from conversions.rs)
pub const RE_SHUTDOWN: c_int = 1;
pub const RE_NO_CONNECTION: c_int = 2;
pub const RE_TIMEOUT: c_int = 3;
pub const RE_BAD_REQUEST: c_int = 4;
pub const RE_BAD_RESPONSE: c_int = 5;
pub const RE_IO: c_int = 6;
pub const RE_BAD_FRAMING: c_int = 7;
pub const PE_OK: c_int = 0;
pub const PE_NULL: c_int = 2;
pub const PE_INVALID_RANGE: c_int = 8;
pub const PE_INVALID_REQUEST: c_int = 9;
pub const PE_INVALID_INDEX: c_int = 10;
pub const PE_SHUTDOWN: c_int = 18;
pub const PE_TOO_MANY: c_int = 20;

/// ffi::RequestError value for a Modbus exception code
pub fn exception_to_ffi(code: u8) -> c_int {
    match code {
        1 => 10,
        2 => 11,
        3 => 12,
        4 => 13,
        5 => 14,
        6 => 15,
        8 => 16,
        10 => 17,
        11 => 18,
        _ => 19,
    }
}

#[derive(Debug, Clone, PartialEq, Eq)]
pub enum CbOutcome {
    Bits(Vec<(u16, bool)>),
    Regs(Vec<(u16, u16)>),
    WriteOk,
    Failure(c_int),
}

#[derive(Default, Debug)]
pub struct CbLog {
    pub outcomes: Vec<(u64, CbOutcome)>,
    pub destroyed: u32,
}

type Ctx = Arc<Mutex<CbLog>>;

fn ctx_ptr(c: &Ctx) -> *mut c_void {
    Arc::into_raw(c.clone()) as *mut c_void
}

unsafe fn with_ctx<R>(ctx: *mut c_void, f: impl FnOnce(&mut CbLog) -> R) -> R {
    let arc = &*(ctx as *const Mutex<CbLog>);
    let mut g = arc.lock().unwrap();
    f(&mut g)
}

extern "C" fn cb_destroy(ctx: *mut c_void) {
    unsafe {
        with_ctx(ctx, |l| l.destroyed += 1);
        drop(Arc::from_raw(ctx as *const Mutex<CbLog>));
    }
}

extern "C" fn cb_failure(error: c_int, ctx: *mut c_void) {
    unsafe { with_ctx(ctx, |l| l.outcomes.push((kernel::now_ns(), CbOutcome::Failure(error)))) }
}

extern "C" fn cb_bits(it: *mut rodbus_ffi::BitValueIterator<'_>, ctx: *mut c_void) {
    let mut v = Vec::new();
    unsafe {
        loop {
            let p = ffi::rodbus_bit_value_iterator_next(it);
            if p.is_null() {
                break;
            }
            v.push(((*p).index, (*p).value));
            if v.len() > 70_000 {
                break;
            }
        }
        with_ctx(ctx, |l| l.outcomes.push((kernel::now_ns(), CbOutcome::Bits(v))));
    }
}

extern "C" fn cb_regs(it: *mut rodbus_ffi::RegisterValueIterator<'_>, ctx: *mut c_void) {
    let mut v = Vec::new();
    unsafe {
        loop {
            let p = ffi::rodbus_register_value_iterator_next(it);
            if p.is_null() {
                break;
            }
            v.push(((*p).index, (*p).value));
            if v.len() > 70_000 {
                break;
            }
        }
        with_ctx(ctx, |l| l.outcomes.push((kernel::now_ns(), CbOutcome::Regs(v))));
    }
}

extern "C" fn cb_write_ok(_nothing: c_int, ctx: *mut c_void) {
    unsafe { with_ctx(ctx, |l| l.outcomes.push((kernel::now_ns(), CbOutcome::WriteOk))) }
}

pub fn bit_cb(c: &Ctx) -> ffi::BitReadCallback {
    ffi::BitReadCallback {
        on_complete: Some(cb_bits),
        on_failure: Some(cb_failure),
        on_destroy: Some(cb_destroy),
        ctx: ctx_ptr(c),
    }
}
pub fn reg_cb(c: &Ctx) -> ffi::RegisterReadCallback {
    ffi::RegisterReadCallback {
        on_complete: Some(cb_regs),
        on_failure: Some(cb_failure),
        on_destroy: Some(cb_destroy),
        ctx: ctx_ptr(c),
    }
}
pub fn write_cb(c: &Ctx) -> ffi::WriteCallback {
    ffi::WriteCallback {
        on_complete: Some(cb_write_ok),
        on_failure: Some(cb_failure),
        on_destroy: Some(cb_destroy),
        ctx: ctx_ptr(c),
    }
}

// ---- listener
#[derive(Default, Debug)]
pub struct StateLog {
    pub states: Vec<(u64, c_int)>,
    pub destroyed: u32,
}

extern "C" fn st_change(state: c_int, ctx: *mut c_void) {
    unsafe {
        let m = &*(ctx as *const Mutex<StateLog>);
        m.lock().unwrap().states.push((kernel::now_ns(), state));
    }
}
extern "C" fn st_destroy(ctx: *mut c_void) {
    unsafe {
        let m = &*(ctx as *const Mutex<StateLog>);
        m.lock().unwrap().destroyed += 1;
        drop(Arc::from_raw(ctx as *const Mutex<StateLog>));
    }
}

pub fn ffi_decode(idx: u8) -> ffi::DecodeLevel {
    let idx = idx % 36;
    ffi::DecodeLevel {
        app: (idx / 9) as c_int,
        frame: ((idx / 3) % 3) as c_int,
        physical: (idx % 3) as c_int,
    }
}

pub struct FfiRuntime {
    pub ptr: *mut rodbus_ffi::Runtime,
}

impl FfiRuntime {
    pub fn new() -> Self {
        let mut out: *mut rodbus_ffi::Runtime = std::ptr::null_mut();
        let rc = unsafe { ffi::rodbus_runtime_create(ffi::RuntimeConfig { num_core_threads: 1 }, &mut out) };
        assert_eq!(rc, 0, "runtime_create");
        FfiRuntime { ptr: out }
    }
    pub fn destroy(&mut self) {
        if !self.ptr.is_null() {
            unsafe { ffi::rodbus_runtime_destroy(self.ptr) };
            self.ptr = std::ptr::null_mut();
        }
    }
}

impl Drop for FfiRuntime {
    fn drop(&mut self) {
        self.destroy();
    }
}

struct Pending {
    ctx: Ctx,
    req: Req,
    unit: u8,
    timeout_ms: u64,
}

fn ffi_submit(ch: *mut rodbus_ffi::ClientChannel, req: &Req, unit: u8, timeout_ms: u64, ctx: &Ctx) -> c_int {
    let param = ffi::RequestParam { unit_id: unit, timeout: timeout_ms };
    unsafe {
        match req {
            Req::ReadCoils { start, count } => ffi::rodbus_client_channel_read_coils(ch, param, ffi::AddressRange { start: *start, count: *count }, bit_cb(ctx)),
            Req::ReadDiscrete { start, count } => {
                ffi::rodbus_client_channel_read_discrete_inputs(ch, param, ffi::AddressRange { start: *start, count: *count }, bit_cb(ctx))
            }
            Req::ReadHolding { start, count } => {
                ffi::rodbus_client_channel_read_holding_registers(ch, param, ffi::AddressRange { start: *start, count: *count }, reg_cb(ctx))
            }
            Req::ReadInput { start, count } => {
                ffi::rodbus_client_channel_read_input_registers(ch, param, ffi::AddressRange { start: *start, count: *count }, reg_cb(ctx))
            }
            Req::WriteCoil { addr, value } => ffi::rodbus_client_channel_write_single_coil(ch, param, ffi::BitValue { index: *addr, value: *value }, write_cb(ctx)),
            Req::WriteReg { addr, value } => {
                ffi::rodbus_client_channel_write_single_register(ch, param, ffi::RegisterValue { index: *addr, value: *value }, write_cb(ctx))
            }
            Req::WriteCoils { start, values } => {
                let list = ffi::rodbus_bit_list_create(values.len() as u32);
                for v in values {
                    ffi::rodbus_bit_list_add(list, *v);
                }
                let rc = ffi::rodbus_client_channel_write_multiple_coils(ch, param, *start, list, write_cb(ctx));
                ffi::rodbus_bit_list_destroy(list);
                rc
            }
            Req::WriteRegs { start, values } => {
                let list = ffi::rodbus_register_list_create(values.len() as u32);
                for v in values {
                    ffi::rodbus_register_list_add(list, *v);
                }
                let rc = ffi::rodbus_client_channel_write_multiple_registers(ch, param, *start, list, write_cb(ctx));
                ffi::rodbus_register_list_destroy(list);
                rc
            }
        }
    }
}

fn expected_ok(req: &Req, reply: &[u8]) -> CbOutcome {
    match pdu::decode_reply(req, reply) {
        pdu::ReplyClass::Ok(pdu::ReplyData::Bits(v)) => CbOutcome::Bits(v),
        pdu::ReplyClass::Ok(pdu::ReplyData::Regs(v)) => CbOutcome::Regs(v),
        pdu::ReplyClass::Ok(_) => CbOutcome::WriteOk,
        pdu::ReplyClass::Exception(e) => CbOutcome::Failure(exception_to_ffi(e)),
        pdu::ReplyClass::Bad => CbOutcome::Failure(RE_BAD_RESPONSE),
    }
}

/// C18 (client half): every operation through the C ABI, every outcome class
pub fn run_client(cfg: &ScenCfg, out: &mut RunOut) {
    let chunk = chance(1, 2);
    kernel::with(|w| {
        w.cfg.sched_random = false;
        w.cfg.select_random = false;
        w.cfg.chunk_reads = chunk;
        w.cfg.short_writes = chunk;
    });
    let dec_idx = choose(36) as u8;
    let mut rt = FfiRuntime::new();
    let addr: SocketAddr = "10.0.0.9:502".parse().unwrap();
    net::stub_listen(addr);
    let states: Arc<Mutex<StateLog>> = Arc::new(Mutex::new(StateLog::default()));
    let listener = ffi::ClientStateListener {
        on_change: Some(st_change),
        on_destroy: Some(st_destroy),
        ctx: Arc::into_raw(states.clone()) as *mut c_void,
    };
    let host = CString::new("10.0.0.9").unwrap();
    let qcap: u16 = [1u16, 2, 4, 16][choose(4) as usize];
    let retry_ms = 100u64;
    let mut ch: *mut rodbus_ffi::ClientChannel = std::ptr::null_mut();
    let rc = unsafe {
        ffi::rodbus_client_channel_create_tcp(
            rt.ptr,
            host.as_ptr(),
            502,
            qcap,
            ffi::RetryStrategy { min_delay: retry_ms, max_delay: retry_ms },
            ffi_decode(dec_idx),
            listener,
            &mut ch,
        )
    };
    if rc != 0 {
        out.violate("C18", "channel_create", format!("create_tcp returned {}", rc));
        return;
    }
    kernel::settle();
    let rc = unsafe { ffi::rodbus_client_channel_enable(ch) };
    kernel::settle();
    let mut peer: Option<PeerEnd> = net::stub_accept(addr);
    if rc != 0 || peer.is_none() {
        out.violate("C18", "enable", format!("enable returned {} / connected={}", rc, peer.is_some()));
        return;
    }
    let mut expected_states: Vec<c_int> = vec![0, 1, 2];
    let mut all_ctx: Vec<Ctx> = Vec::new();
    let mut wl = dec_idx as u64;
    let mut trace: Vec<String> = Vec::new();
    let n = 3 + choose(14) as usize;
    for _ in 0..n {
        let timeout_ms = [10u64, 250, 1000, 5000][choose(4) as usize];
        let unit = if chance(1, 2) { UNIT_POOL[choose(8) as usize] } else { choose(256) as u8 };
        let ctx: Ctx = Arc::new(Mutex::new(CbLog::default()));
        all_ctx.push(ctx.clone());
        // ---- invalid arguments: the call reports an error; the callback must still fire exactly once
        if chance(1, 8) {
            let (req, want_rc) = match choose(5) {
                0 => (Req::ReadCoils { start: 5, count: 0 }, PE_INVALID_RANGE),
                1 => (Req::ReadHolding { start: 65535, count: 2 }, PE_INVALID_RANGE),
                2 => (Req::ReadDiscrete { start: 0, count: 2001 }, PE_INVALID_RANGE),
                3 => (Req::ReadInput { start: 7, count: 126 }, PE_INVALID_RANGE),
                _ => (Req::WriteRegs { start: 65535, values: vec![1, 2] }, PE_INVALID_REQUEST),
            };
            let rc = ffi_submit(ch, &req, unit, timeout_ms, &ctx);
            kernel::settle();
            trace.push(format!("invalid-argument call fc={} -> rc {}", req.fc(), rc));
            hash_bytes(&mut wl, &[0xEE, req.fc()]);
            if rc != want_rc && !(rc == PE_INVALID_RANGE && want_rc == PE_INVALID_REQUEST) {
                out.violate("C18", "param_error_code", format!("fc={} with an invalid range returned {} (expected {})", req.fc(), rc, want_rc));
                return;
            }
            let (n_out, n_destroy) = {
                let l = ctx.lock().unwrap();
                (l.outcomes.len(), l.destroyed)
            };
            // the Rust API reports such a request as BadRequest; the C ABI also has BadArgument for it.
            // Shutdown would claim that the task is gone.
            if n_out == 1 {
                let o = ctx.lock().unwrap().outcomes[0].1.clone();
                if o != CbOutcome::Failure(RE_BAD_REQUEST) && o != CbOutcome::Failure(9) {
                    out.violate("C18", "invalid_argument_reported_as_other_error", format!("fc={} range={:?}: callback got {:?} (rc={}), expected BadRequest/BadArgument", req.fc(), req.range(), o, rc));
                    return;
                }
            }
            if n_out != 1 {
                if !(n_out == 0 && out.known("C18", "callback_not_invoked_when_argument_validation_fails")) {
                    out.violate("C18", "callback_count_on_param_error", format!("fc={} invalid argument: completion callback fired {} times (destroy {}), rc={}", req.fc(), n_out, n_destroy, rc));
                    return;
                }
            }
            if n_destroy != 1 {
                out.violate("C18", "on_destroy_count", format!("fc={} invalid argument: on_destroy fired {} times", req.fc(), n_destroy));
                return;
            }
            out.ops_checked += 1;
            continue;
        }
        let req = gen_valid_req(chance(2, 3));
        hash_bytes(&mut wl, &pdu::encode_req(&req)[..5.min(pdu::encode_req(&req).len())]);
        let rc = ffi_submit(ch, &req, unit, timeout_ms, &ctx);
        kernel::settle();
        if rc != PE_OK {
            out.violate("C18", "submit_rc", format!("valid request fc={} returned {}", req.fc(), rc));
            return;
        }
        let p = peer.as_ref().unwrap();
        let wire = p.take_received();
        let want_pdu = pdu::encode_req(&req);
        if wire.len() != 7 + want_pdu.len() || wire[7..] != want_pdu[..] || wire[6] != unit {
            out.violate(
                "C18",
                "wire_differs_from_rust_api",
                format!("fc={} range={:?} unit={}: wire {} but the protocol encoding is unit={} pdu={}", req.fc(), req.range(), unit, hex(&wire), unit, hex(&want_pdu)),
            );
            out.violate("C03", "wire_differs_from_rust_api", format!("ffi fc={} wire {}", req.fc(), hex(&wire)));
            return;
        }
        let tx = ((wire[0] as u16) << 8) | wire[1] as u16;
        let submitted_at = kernel::now_ns();
        // ---- the outcome
        let outcome_kind = weighted(&[6, 4, 2, 2, 1, 1]);
        let want: CbOutcome;
        let mut want_at: Option<u64> = None;
        match outcome_kind {
            0 => {
                let r = super::client::correct_reply(&req);
                p.write(&mbap_frame(tx, unit, &r));
                kernel::settle();
                want = expected_ok(&req, &r);
                trace.push(format!("fc={} correct reply", req.fc()));
            }
            1 => {
                let e = if chance(1, 2) { super::common::pick_exc_code() } else { choose(256) as u8 };
                p.write(&mbap_frame(tx, unit, &[req.fc() | 0x80, e]));
                kernel::settle();
                want = CbOutcome::Failure(exception_to_ffi(e));
                trace.push(format!("fc={} exception {}", req.fc(), e));
                hash_bytes(&mut wl, &[e]);
            }
            2 => {
                let r = super::client::gen_reply_pdu(&req);
                p.write(&mbap_frame(tx, unit, &r));
                kernel::settle();
                want = expected_ok(&req, &r);
                trace.push(format!("fc={} reply variant {}", req.fc(), hex(&r[..r.len().min(8)])));
            }
            3 => {
                // silence: the timeout passes through unchanged
                kernel::advance(timeout_ms * MS - 1);
                if !ctx.lock().unwrap().outcomes.is_empty() {
                    out.violate("C18", "timeout_value_changed", format!("a {} ms timeout fired early: {:?}", timeout_ms, ctx.lock().unwrap().outcomes));
                    return;
                }
                kernel::advance(1);
                want = CbOutcome::Failure(RE_TIMEOUT);
                want_at = Some(submitted_at + timeout_ms * MS);
                trace.push(format!("fc={} timeout {} ms", req.fc(), timeout_ms));
            }
            4 => {
                p.write(&mbap_frame_raw(tx, 9, 3, unit, &[3, 0]));
                kernel::settle();
                want = CbOutcome::Failure(RE_BAD_FRAMING);
                expected_states.extend([4, 1, 2]);
                trace.push("bad framing".into());
            }
            _ => {
                peer.as_mut().unwrap().shutdown_write();
                kernel::settle();
                want = CbOutcome::Failure(RE_IO);
                expected_states.extend([4, 1, 2]);
                trace.push("peer closed".into());
            }
        }
        let (outs, destroyed) = {
            let l = ctx.lock().unwrap();
            (l.outcomes.clone(), l.destroyed)
        };
        let got_norm: Vec<CbOutcome> = outs
            .iter()
            .map(|(_, o)| match (o, &want) {
                // a malformed echo may be reported as BadRequest/Internal by the Rust API too: same class
                (CbOutcome::Failure(c), CbOutcome::Failure(w)) if *w == RE_BAD_RESPONSE && (*c == RE_BAD_REQUEST || *c == 8) => CbOutcome::Failure(RE_BAD_RESPONSE),
                _ => o.clone(),
            })
            .collect();
        if got_norm != vec![want.clone()] {
            out.violate(
                "C18",
                "outcome_differs_from_rust_api",
                format!("fc={} range={:?} after `{}`: callback outcomes {:?}, the Rust API reports {:?}", req.fc(), req.range(), trace.last().unwrap(), outs, want),
            );
            return;
        }
        if let Some(t) = want_at {
            if outs[0].0 != t {
                out.violate("C18", "timeout_value_changed", format!("timeout of {} ms completed at +{} ns", timeout_ms, outs[0].0 - submitted_at));
                return;
            }
        }
        if destroyed != 1 {
            out.violate("C18", "on_destroy_count", format!("fc={}: on_destroy fired {} times after completion", req.fc(), destroyed));
            return;
        }
        out.ops_checked += 1;
        if outcome_kind >= 4 {
            // reconnect after the retry delay
            kernel::advance(retry_ms * MS);
            peer = net::stub_accept(addr);
            if peer.is_none() {
                out.violate("C18", "retry_strategy_not_forwarded", format!("no reconnect {} ms after the connection was lost", retry_ms));
                return;
            }
        }
        if chance(1, 6) {
            let lvl = choose(36) as u8;
            let rc = unsafe { ffi::rodbus_client_channel_set_decode_level(ch, ffi_decode(lvl)) };
            kernel::settle();
            if rc != 0 {
                out.violate("C18", "set_decode_level", format!("returned {}", rc));
                return;
            }
        }
    }
    // ---- listener states are the same-named counterparts, in order
    let got_states: Vec<c_int> = states.lock().unwrap().states.iter().map(|s| s.1).collect();
    if got_states != expected_states {
        out.violate("C18", "client_state_mapping", format!("listener saw {:?}, expected {:?}", got_states, expected_states));
        return;
    }
    // ---- queue full: the Sim is not stepped between the calls
    {
        let p = peer.as_ref().unwrap();
        let _ = p.take_received();
        let mut burst: Vec<(Ctx, c_int)> = Vec::new();
        let total = qcap as usize + 1 + choose(3) as usize;
        // one request is taken by the task and outstanding; the queue then holds qcap more
        let first: Ctx = Arc::new(Mutex::new(CbLog::default()));
        let rc0 = ffi_submit(ch, &Req::ReadCoils { start: 0, count: 1 }, 1, 1000, &first);
        kernel::settle();
        for _ in 0..total {
            let c: Ctx = Arc::new(Mutex::new(CbLog::default()));
            let rc = ffi_submit(ch, &Req::ReadHolding { start: 1, count: 1 }, 1, 1000, &c);
            burst.push((c, rc));
        }
        let accepted = burst.iter().filter(|b| b.1 == PE_OK).count();
        let rejected: Vec<&(Ctx, c_int)> = burst.iter().filter(|b| b.1 != PE_OK).collect();
        if rc0 != 0 || accepted != qcap as usize || rejected.iter().any(|b| b.1 != PE_TOO_MANY) {
            out.violate(
                "C18",
                "queue_full_code",
                format!("max_queued_requests={}: {} calls, return codes {:?} (expected {} x 0 then {})", qcap, total, burst.iter().map(|b| b.1).collect::<Vec<_>>(), qcap, PE_TOO_MANY),
            );
            return;
        }
        out.probe("queue_full_try_send");
        for (c, _) in &rejected {
            let l = c.lock().unwrap();
            if l.outcomes.len() != 1 || l.destroyed != 1 {
                out.violate("C18", "callback_count_on_queue_full", format!("rejected call: callback fired {} times, on_destroy {}", l.outcomes.len(), l.destroyed));
                return;
            }
            if l.outcomes[0].1 == CbOutcome::Failure(RE_SHUTDOWN) && !out.known("C10", "ffi_queue_full_reported_as_shutdown") {
                out.violate("C10", "shutdown_error_while_task_alive", "a request rejected because the queue is full completed with Shutdown although the channel task is alive".into());
                return;
            }
        }
        // drain: all accepted ones time out one after the other
        kernel::advance((qcap as u64 + 2) * 1000 * MS);
        for (c, rc) in burst.iter().chain(std::iter::once(&(first.clone(), rc0))) {
            if *rc == PE_OK {
                let l = c.lock().unwrap();
                if l.outcomes.len() != 1 || l.outcomes[0].1 != CbOutcome::Failure(RE_TIMEOUT) || l.destroyed != 1 {
                    out.violate("C18", "queued_request_outcome", format!("queued request: {:?} destroy={}", l.outcomes, l.destroyed));
                    return;
                }
            }
        }
    }
    // ---- shutdown: pending callbacks complete with Shutdown, afterwards calls report Shutdown
    let pending: Ctx = Arc::new(Mutex::new(CbLog::default()));
    let rc = ffi_submit(ch, &Req::ReadInput { start: 0, count: 2 }, 1, 60_000, &pending);
    kernel::settle();
    rt.destroy();
    kernel::settle();
    {
        let l = pending.lock().unwrap();
        if rc != 0 || l.outcomes.len() != 1 || l.outcomes[0].1 != CbOutcome::Failure(RE_SHUTDOWN) || l.destroyed != 1 {
            out.violate("C18", "shutdown_outcome", format!("request pending at runtime destruction: rc={} outcomes {:?} destroy={}", rc, l.outcomes, l.destroyed));
            return;
        }
    }
    let after: Ctx = Arc::new(Mutex::new(CbLog::default()));
    let rc = ffi_submit(ch, &Req::ReadCoils { start: 0, count: 1 }, 1, 100, &after);
    {
        let l = after.lock().unwrap();
        if rc != PE_SHUTDOWN || l.outcomes.len() != 1 || l.outcomes[0].1 != CbOutcome::Failure(RE_SHUTDOWN) || l.destroyed != 1 {
            out.violate("C18", "post_shutdown_call", format!("call after shutdown: rc={} (expected {}) outcomes {:?} destroy={}", rc, PE_SHUTDOWN, l.outcomes, l.destroyed));
            return;
        }
    }
    unsafe { ffi::rodbus_client_channel_destroy(ch) };
    kernel::settle();
    let st = states.lock().unwrap();
    if st.destroyed != 1 {
        out.violate("C18", "listener_destroy_count", format!("listener on_destroy fired {} times", st.destroyed));
    }
    drop(st);
    out.nontrivial = Some(wl);
    out.sample = Some(json!({"scenario": "C ABI client vs same-named outcome table", "decode_level_index": dec_idx, "max_queued_requests": qcap, "steps": trace.iter().take(20).collect::<Vec<_>>()}));
    let _ = (cfg, &all_ctx);
    let _ = MbapDeframer::default();
    let _ = BTreeMap::<u8, u8>::new();
    let _: Option<IpAddr> = None;
}
