//! C-ABI workloads: the generated `extern "C"` functions of rodbus-ffi running
//! on the simulated runtime (C18, C19 map semantics, C-ABI halves of C16 / C10).

use super::common::*;
use crate::driver::{RunOut, ScenCfg};
use crate::model::frame::{mbap_frame, mbap_frame_raw, MbapDeframer};
use crate::model::pdu::{self, Req};
use rodbus_ffi::ffi;
use serde_json::json;
use simtokio::kernel::{self, chance, choose, weighted};
use simtokio::net::{self, PeerEnd};
use std::collections::BTreeMap;
use std::ffi::CString;
use std::net::{IpAddr, SocketAddr};
use std::os::raw::{c_int, c_void};
use std::sync::{Arc, Mutex};

const MS: u64 = 1_000_000;

// ---- same-named counterparts, written from the schema (not from conversions.rs)
pub const RE_SHUTDOWN: c_int = 1;
pub const RE_NO_CONNECTION: c_int = 2;
pub const RE_TIMEOUT: c_int = 3;
pub const RE_BAD_REQUEST: c_int = 4;
pub const RE_BAD_RESPONSE: c_int = 5;
pub const RE_IO: c_int = 6;
pub const RE_BAD_FRAMING: c_int = 7;
pub const PE_OK: c_int = 0;
pub const PE_NULL: c_int = 2;
pub const PE_INVALID_RANGE: c_int = 8;
pub const PE_INVALID_REQUEST: c_int = 9;
pub const PE_INVALID_INDEX: c_int = 10;
pub const PE_SHUTDOWN: c_int = 18;
pub const PE_TOO_MANY: c_int = 20;

/// ffi::RequestError value for a Modbus exception code
pub fn exception_to_ffi(code: u8) -> c_int {
    match code {
        1 => 10,
        2 => 11,
        3 => 12,
        4 => 13,
        5 => 14,
        6 => 15,
        8 => 16,
        10 => 17,
        11 => 18,
        _ => 19,
    }
}

#[derive(Debug, Clone, PartialEq, Eq)]
pub enum CbOutcome {
    Bits(Vec<(u16, bool)>),
    Regs(Vec<(u16, u16)>),
    WriteOk,
    Failure(c_int),
}

#[derive(Default, Debug)]
pub struct CbLog {
    pub outcomes: Vec<(u64, CbOutcome)>,
    pub destroyed: u32,
}

type Ctx = Arc<Mutex<CbLog>>;

fn ctx_ptr(c: &Ctx) -> *mut c_void {
    Arc::into_raw(c.clone()) as *mut c_void
}

unsafe fn with_ctx<R>(ctx: *mut c_void, f: impl FnOnce(&mut CbLog) -> R) -> R {
    let arc = &*(ctx as *const Mutex<CbLog>);
    let mut g = arc.lock().unwrap();
    f(&mut g)
}

extern "C" fn cb_destroy(ctx: *mut c_void) {
    unsafe {
        with_ctx(ctx, |l| l.destroyed += 1);
        drop(Arc::from_raw(ctx as *const Mutex<CbLog>));
    }
}

extern "C" fn cb_failure(error: c_int, ctx: *mut c_void) {
    unsafe { with_ctx(ctx, |l| l.outcomes.push((kernel::now_ns(), CbOutcome::Failure(error)))) }
}

extern "C" fn cb_bits(it: *mut rodbus_ffi::BitValueIterator<'_>, ctx: *mut c_void) {
    let mut v = Vec::new();
    unsafe {
        loop {
            let p = ffi::rodbus_bit_value_iterator_next(it);
            if p.is_null() {
                break;
            }
            v.push(((*p).index, (*p).value));
            if v.len() > 70_000 {
                break;
            }
        }
        with_ctx(ctx, |l| l.outcomes.push((kernel::now_ns(), CbOutcome::Bits(v))));
    }
}

extern "C" fn cb_regs(it: *mut rodbus_ffi::RegisterValueIterator<'_>, ctx: *mut c_void) {
    let mut v = Vec::new();
    unsafe {
        loop {
            let p = ffi::rodbus_register_value_iterator_next(it);
            if p.is_null() {
                break;
            }
            v.push(((*p).index, (*p).value));
            if v.len() > 70_000 {
                break;
            }
        }
        with_ctx(ctx, |l| l.outcomes.push((kernel::now_ns(), CbOutcome::Regs(v))));
    }
}

extern "C" fn cb_write_ok(_nothing: c_int, ctx: *mut c_void) {
    unsafe { with_ctx(ctx, |l| l.outcomes.push((kernel::now_ns(), CbOutcome::WriteOk))) }
}

pub fn bit_cb(c: &Ctx) -> ffi::BitReadCallback {
    ffi::BitReadCallback {
        on_complete: Some(cb_bits),
        on_failure: Some(cb_failure),
        on_destroy: Some(cb_destroy),
        ctx: ctx_ptr(c),
    }
}
pub fn reg_cb(c: &Ctx) -> ffi::RegisterReadCallback {
    ffi::RegisterReadCallback {
        on_complete: Some(cb_regs),
        on_failure: Some(cb_failure),
        on_destroy: Some(cb_destroy),
        ctx: ctx_ptr(c),
    }
}
pub fn write_cb(c: &Ctx) -> ffi::WriteCallback {
    ffi::WriteCallback {
        on_complete: Some(cb_write_ok),
        on_failure: Some(cb_failure),
        on_destroy: Some(cb_destroy),
        ctx: ctx_ptr(c),
    }
}

// ---- listener
#[derive(Default, Debug)]
pub struct StateLog {
    pub states: Vec<(u64, c_int)>,
    pub destroyed: u32,
}

extern "C" fn st_change(state: c_int, ctx: *mut c_void) {
    unsafe {
        let m = &*(ctx as *const Mutex<StateLog>);
        m.lock().unwrap().states.push((kernel::now_ns(), state));
    }
}
extern "C" fn st_destroy(ctx: *mut c_void) {
    unsafe {
        let m = &*(ctx as *const Mutex<StateLog>);
        m.lock().unwrap().destroyed += 1;
        drop(Arc::from_raw(ctx as *const Mutex<StateLog>));
    }
}

pub fn ffi_decode(idx: u8) -> ffi::DecodeLevel {
    let idx = idx % 36;
    ffi::DecodeLevel {
        app: (idx / 9) as c_int,
        frame: ((idx / 3) % 3) as c_int,
        physical: (idx % 3) as c_int,
    }
}

pub struct FfiRuntime {
    pub ptr: *mut rodbus_ffi::Runtime,
}

impl FfiRuntime {
    pub fn new() -> Self {
        let mut out: *mut rodbus_ffi::Runtime = std::ptr::null_mut();
        let rc = unsafe { ffi::rodbus_runtime_create(ffi::RuntimeConfig { num_core_threads: 1 }, &mut out) };
        assert_eq!(rc, 0, "runtime_create");
        FfiRuntime { ptr: out }
    }
    pub fn destroy(&mut self) {
        if !self.ptr.is_null() {
            unsafe { ffi::rodbus_runtime_destroy(self.ptr) };
            self.ptr = std::ptr::null_mut();
        }
    }
}

impl Drop for FfiRuntime {
    fn drop(&mut self) {
        self.destroy();
    }
}

struct Pending {
    ctx: Ctx,
    req: Req,
    unit: u8,
    timeout_ms: u64,
}

fn ffi_submit(ch: *mut rodbus_ffi::ClientChannel, req: &Req, unit: u8, timeout_ms: u64, ctx: &Ctx) -> c_int {
    let param = ffi::RequestParam { unit_id: unit, timeout: timeout_ms };
    unsafe {
        match req {
            Req::ReadCoils { start, count } => ffi::rodbus_client_channel_read_coils(ch, param, ffi::AddressRange { start: *start, count: *count }, bit_cb(ctx)),
            Req::ReadDiscrete { start, count } => {
                ffi::rodbus_client_channel_read_discrete_inputs(ch, param, ffi::AddressRange { start: *start, count: *count }, bit_cb(ctx))
            }
            Req::ReadHolding { start, count } => {
                ffi::rodbus_client_channel_read_holding_registers(ch, param, ffi::AddressRange { start: *start, count: *count }, reg_cb(ctx))
            }
            Req::ReadInput { start, count } => {
                ffi::rodbus_client_channel_read_input_registers(ch, param, ffi::AddressRange { start: *start, count: *count }, reg_cb(ctx))
            }
            Req::WriteCoil { addr, value } => ffi::rodbus_client_channel_write_single_coil(ch, param, ffi::BitValue { index: *addr, value: *value }, write_cb(ctx)),
            Req::WriteReg { addr, value } => {
                ffi::rodbus_client_channel_write_single_register(ch, param, ffi::RegisterValue { index: *addr, value: *value }, write_cb(ctx))
            }
            Req::WriteCoils { start, values } => {
                let list = ffi::rodbus_bit_list_create(values.len() as u32);
                for v in values {
                    ffi::rodbus_bit_list_add(list, *v);
                }
                let rc = ffi::rodbus_client_channel_write_multiple_coils(ch, param, *start, list, write_cb(ctx));
                ffi::rodbus_bit_list_destroy(list);
                rc
            }
            Req::WriteRegs { start, values } => {
                let list = ffi::rodbus_register_list_create(values.len() as u32);
                for v in values {
                    ffi::rodbus_register_list_add(list, *v);
                }
                let rc = ffi::rodbus_client_channel_write_multiple_registers(ch, param, *start, list, write_cb(ctx));
                ffi::rodbus_register_list_destroy(list);
                rc
            }
        }
    }
}

fn expected_ok(req: &Req, reply: &[u8]) -> CbOutcome {
    match pdu::decode_reply(req, reply) {
        pdu::ReplyClass::Ok(pdu::ReplyData::Bits(v)) => CbOutcome::Bits(v),
        pdu::ReplyClass::Ok(pdu::ReplyData::Regs(v)) => CbOutcome::Regs(v),
        pdu::ReplyClass::Ok(_) => CbOutcome::WriteOk,
        pdu::ReplyClass::Exception(e) => CbOutcome::Failure(exception_to_ffi(e)),
        pdu::ReplyClass::Bad => CbOutcome::Failure(RE_BAD_RESPONSE),
    }
}

/// C18 (client half): every operation through the C ABI, every outcome class
pub fn run_client(cfg: &ScenCfg, out: &mut RunOut) {
    let chunk = chance(1, 2);
    kernel::with(|w| {
        w.cfg.sched_random = false;
        w.cfg.select_random = false;
        w.cfg.chunk_reads = chunk;
        w.cfg.short_writes = chunk;
    });
    let dec_idx = choose(36) as u8;
    let mut rt = FfiRuntime::new();
    let addr: SocketAddr = "10.0.0.9:502".parse().unwrap();
    net::stub_listen(addr);
    let states: Arc<Mutex<StateLog>> = Arc::new(Mutex::new(StateLog::default()));
    let listener = ffi::ClientStateListener {
        on_change: Some(st_change),
        on_destroy: Some(st_destroy),
        ctx: Arc::into_raw(states.clone()) as *mut c_void,
    };
    let host = CString::new("10.0.0.9").unwrap();
    // a request queue of size 0 is a configuration a C caller can pass: the channel must be created (or
    // refused with an error), not bring the process down. The Rust constructor behind the C function is
    // tried first, under catch_unwind, because a panic inside the extern "C" function aborts the process
    let zero_queue_ok = std::panic::catch_unwind(|| {
        let _ = rodbus::client::create_tcp_client_task_with_options(
            rodbus::client::HostAddr::ip("10.0.0.9".parse().unwrap(), 502),
            rodbus::doubling_retry_strategy(std::time::Duration::from_millis(100), std::time::Duration::from_millis(100)),
            None,
            rodbus::ClientOptions::default().max_queued_requests(0),
        );
    })
    .is_ok();
    if !zero_queue_ok {
        if !out.known("C18", "client_queue_size_zero_panics") {
            let d = "creating a client channel with max_queued_requests = 0 panics (tokio::sync::mpsc::channel(0)); through rodbus_client_channel_create_tcp the panic leaves an extern \"C\" function, which aborts the process".to_string();
            out.violate("C18", "client_queue_size_zero_panics", d.clone());
            out.violate("C13", "client_queue_size_zero_panics", d);
            return;
        }
    }
    let qcap_arg: u16 = if zero_queue_ok { [0u16, 1, 2, 4, 16][choose(5) as usize] } else { [1u16, 2, 4, 16][choose(4) as usize] };
    // a queue of 0 is a queue of 1 (as max_sessions = 0 is one session on the server side)
    let qcap: u16 = qcap_arg.max(1);
    if qcap_arg == 0 {
        out.probe("ffi_queue_size_zero");
    }
    let retry_ms = 100u64;
    let mut ch: *mut rodbus_ffi::ClientChannel = std::ptr::null_mut();
    let rc = unsafe {
        ffi::rodbus_client_channel_create_tcp(
            rt.ptr,
            host.as_ptr(),
            502,
            qcap_arg,
            ffi::RetryStrategy { min_delay: retry_ms, max_delay: retry_ms },
            ffi_decode(dec_idx),
            listener,
            &mut ch,
        )
    };
    if rc != 0 {
        out.violate("C18", "channel_create", format!("create_tcp returned {}", rc));
        return;
    }
    kernel::settle();
    let rc = unsafe { ffi::rodbus_client_channel_enable(ch) };
    kernel::settle();
    let mut peer: Option<PeerEnd> = net::stub_accept(addr);
    if rc != 0 || peer.is_none() {
        out.violate("C18", "enable", format!("enable returned {} / connected={}", rc, peer.is_some()));
        return;
    }
    let mut expected_states: Vec<c_int> = vec![0, 1, 2];
    let mut all_ctx: Vec<Ctx> = Vec::new();
    let mut wl = dec_idx as u64;
    let mut trace: Vec<String> = Vec::new();
    let n = 3 + choose(14) as usize;
    for _ in 0..n {
        let timeout_ms = [10u64, 250, 1000, 5000][choose(4) as usize];
        let unit = if chance(1, 2) { UNIT_POOL[choose(8) as usize] } else { choose(256) as u8 };
        let ctx: Ctx = Arc::new(Mutex::new(CbLog::default()));
        all_ctx.push(ctx.clone());
        // ---- invalid arguments: the call reports an error; the callback must still fire exactly once
        if chance(1, 8) {
            let (req, want_rc) = match choose(5) {
                0 => (Req::ReadCoils { start: 5, count: 0 }, PE_INVALID_RANGE),
                1 => (Req::ReadHolding { start: 65535, count: 2 }, PE_INVALID_RANGE),
                2 => (Req::ReadDiscrete { start: 0, count: 2001 }, PE_INVALID_RANGE),
                3 => (Req::ReadInput { start: 7, count: 126 }, PE_INVALID_RANGE),
                _ => (Req::WriteRegs { start: 65535, values: vec![1, 2] }, PE_INVALID_REQUEST),
            };
            let rc = ffi_submit(ch, &req, unit, timeout_ms, &ctx);
            kernel::settle();
            trace.push(format!("invalid-argument call fc={} -> rc {}", req.fc(), rc));
            hash_bytes(&mut wl, &[0xEE, req.fc()]);
            if rc != want_rc && !(rc == PE_INVALID_RANGE && want_rc == PE_INVALID_REQUEST) {
                out.violate("C18", "param_error_code", format!("fc={} with an invalid range returned {} (expected {})", req.fc(), rc, want_rc));
                return;
            }
            let (n_out, n_destroy) = {
                let l = ctx.lock().unwrap();
                (l.outcomes.len(), l.destroyed)
            };
            // the Rust API reports such a request as BadRequest; the C ABI also has BadArgument for it.
            // Shutdown would claim that the task is gone.
            if n_out == 1 {
                let o = ctx.lock().unwrap().outcomes[0].1.clone();
                if o != CbOutcome::Failure(RE_BAD_REQUEST) && o != CbOutcome::Failure(9) {
                    out.violate("C18", "invalid_argument_reported_as_other_error", format!("fc={} range={:?}: callback got {:?} (rc={}), expected BadRequest/BadArgument", req.fc(), req.range(), o, rc));
                    return;
                }
            }
            if n_out != 1 {
                if !(n_out == 0 && out.known("C18", "callback_not_invoked_when_argument_validation_fails")) {
                    out.violate("C18", "callback_count_on_param_error", format!("fc={} invalid argument: completion callback fired {} times (destroy {}), rc={}", req.fc(), n_out, n_destroy, rc));
                    return;
                }
            }
            if n_destroy != 1 {
                out.violate("C18", "on_destroy_count", format!("fc={} invalid argument: on_destroy fired {} times", req.fc(), n_destroy));
                return;
            }
            out.ops_checked += 1;
            continue;
        }
        let req = gen_valid_req(chance(2, 3));
        hash_bytes(&mut wl, &pdu::encode_req(&req)[..5.min(pdu::encode_req(&req).len())]);
        let rc = ffi_submit(ch, &req, unit, timeout_ms, &ctx);
        kernel::settle();
        if rc != PE_OK {
            out.violate("C18", "submit_rc", format!("valid request fc={} returned {}", req.fc(), rc));
            return;
        }
        let p = peer.as_ref().unwrap();
        let wire = p.take_received();
        let want_pdu = pdu::encode_req(&req);
        if wire.len() != 7 + want_pdu.len() || wire[7..] != want_pdu[..] || wire[6] != unit {
            out.violate(
                "C18",
                "wire_differs_from_rust_api",
                format!("fc={} range={:?} unit={}: wire {} but the protocol encoding is unit={} pdu={}", req.fc(), req.range(), unit, hex(&wire), unit, hex(&want_pdu)),
            );
            out.violate("C03", "wire_differs_from_rust_api", format!("ffi fc={} wire {}", req.fc(), hex(&wire)));
            return;
        }
        let tx = ((wire[0] as u16) << 8) | wire[1] as u16;
        let submitted_at = kernel::now_ns();
        // ---- the outcome
        let outcome_kind = weighted(&[6, 4, 2, 2, 1, 1]);
        let want: CbOutcome;
        let mut want_at: Option<u64> = None;
        match outcome_kind {
            0 => {
                let r = super::client::correct_reply(&req);
                p.write(&mbap_frame(tx, unit, &r));
                kernel::settle();
                want = expected_ok(&req, &r);
                trace.push(format!("fc={} correct reply", req.fc()));
            }
            1 => {
                let e = if chance(1, 2) { super::common::pick_exc_code() } else { choose(256) as u8 };
                p.write(&mbap_frame(tx, unit, &[req.fc() | 0x80, e]));
                kernel::settle();
                want = CbOutcome::Failure(exception_to_ffi(e));
                trace.push(format!("fc={} exception {}", req.fc(), e));
                hash_bytes(&mut wl, &[e]);
            }
            2 => {
                let r = super::client::gen_reply_pdu(&req);
                p.write(&mbap_frame(tx, unit, &r));
                kernel::settle();
                want = expected_ok(&req, &r);
                trace.push(format!("fc={} reply variant {}", req.fc(), hex(&r[..r.len().min(8)])));
            }
            3 => {
                // silence: the timeout passes through unchanged
                kernel::advance(timeout_ms * MS - 1);
                if !ctx.lock().unwrap().outcomes.is_empty() {
                    out.violate("C18", "timeout_value_changed", format!("a {} ms timeout fired early: {:?}", timeout_ms, ctx.lock().unwrap().outcomes));
                    return;
                }
                kernel::advance(1);
                want = CbOutcome::Failure(RE_TIMEOUT);
                want_at = Some(submitted_at + timeout_ms * MS);
                trace.push(format!("fc={} timeout {} ms", req.fc(), timeout_ms));
            }
            4 => {
                p.write(&mbap_frame_raw(tx, 9, 3, unit, &[3, 0]));
                kernel::settle();
                want = CbOutcome::Failure(RE_BAD_FRAMING);
                expected_states.extend([4, 1, 2]);
                trace.push("bad framing".into());
            }
            _ => {
                peer.as_mut().unwrap().shutdown_write();
                kernel::settle();
                want = CbOutcome::Failure(RE_IO);
                expected_states.extend([4, 1, 2]);
                trace.push("peer closed".into());
            }
        }
        let (outs, destroyed) = {
            let l = ctx.lock().unwrap();
            (l.outcomes.clone(), l.destroyed)
        };
        let got_norm: Vec<CbOutcome> = outs
            .iter()
            .map(|(_, o)| match (o, &want) {
                // a malformed echo may be reported as BadRequest/Internal by the Rust API too: same class
                (CbOutcome::Failure(c), CbOutcome::Failure(w)) if *w == RE_BAD_RESPONSE && (*c == RE_BAD_REQUEST || *c == 8) => CbOutcome::Failure(RE_BAD_RESPONSE),
                _ => o.clone(),
            })
            .collect();
        if got_norm != vec![want.clone()] {
            out.violate(
                "C18",
                "outcome_differs_from_rust_api",
                format!("fc={} range={:?} after `{}`: callback outcomes {:?}, the Rust API reports {:?}", req.fc(), req.range(), trace.last().unwrap(), outs, want),
            );
            return;
        }
        if let Some(t) = want_at {
            if outs[0].0 != t {
                out.violate("C18", "timeout_value_changed", format!("timeout of {} ms completed at +{} ns", timeout_ms, outs[0].0 - submitted_at));
                return;
            }
        }
        if destroyed != 1 {
            out.violate("C18", "on_destroy_count", format!("fc={}: on_destroy fired {} times after completion", req.fc(), destroyed));
            return;
        }
        out.ops_checked += 1;
        if outcome_kind >= 4 {
            // reconnect after the retry delay
            kernel::advance(retry_ms * MS);
            peer = net::stub_accept(addr);
            if peer.is_none() {
                out.violate("C18", "retry_strategy_not_forwarded", format!("no reconnect {} ms after the connection was lost", retry_ms));
                return;
            }
        }
        if chance(1, 6) {
            let lvl = choose(36) as u8;
            let rc = unsafe { ffi::rodbus_client_channel_set_decode_level(ch, ffi_decode(lvl)) };
            kernel::settle();
            if rc != 0 {
                out.violate("C18", "set_decode_level", format!("returned {}", rc));
                return;
            }
        }
    }
    // ---- a caller-owned list can be used for several writes: the values pass through unchanged each time
    {
        let p = peer.as_ref().unwrap();
        let _ = p.take_received();
        let coils = chance(1, 2);
        let nvals = 1 + choose(9) as usize;
        let bits: Vec<bool> = (0..nvals).map(|_| choose(2) == 1).collect();
        let regs: Vec<u16> = (0..nvals).map(|_| choose(65536) as u16).collect();
        let (blist, rlist) = unsafe {
            let bl = ffi::rodbus_bit_list_create(nvals as u32);
            let rl = ffi::rodbus_register_list_create(nvals as u32);
            for i in 0..nvals {
                ffi::rodbus_bit_list_add(bl, bits[i]);
                ffi::rodbus_register_list_add(rl, regs[i]);
            }
            (bl, rl)
        };
        let req = if coils { Req::WriteCoils { start: 3, values: bits.clone() } } else { Req::WriteRegs { start: 3, values: regs.clone() } };
        for round in 0..2 {
            let c: Ctx = Arc::new(Mutex::new(CbLog::default()));
            let param = ffi::RequestParam { unit_id: 1, timeout: 1000 };
            let rc = unsafe {
                if coils {
                    ffi::rodbus_client_channel_write_multiple_coils(ch, param, 3, blist, write_cb(&c))
                } else {
                    ffi::rodbus_client_channel_write_multiple_registers(ch, ffi::RequestParam { unit_id: 1, timeout: 1000 }, 3, rlist, write_cb(&c))
                }
            };
            kernel::settle();
            let wire = p.take_received();
            let want = pdu::encode_req(&req);
            if rc != 0 || wire.len() != 7 + want.len() || wire[7..] != want[..] {
                out.violate("C18", "list_reuse_changes_values", format!("write #{} with the same list handle: rc={} wire {} expected pdu {}", round + 1, rc, hex(&wire), hex(&want)));
                return;
            }
            let tx = ((wire[0] as u16) << 8) | wire[1] as u16;
            p.write(&mbap_frame(tx, 1, &pdu::encode_ok_reply(&req, &[], &[])));
            kernel::settle();
            if c.lock().unwrap().outcomes.len() != 1 {
                out.violate("C18", "list_reuse_changes_values", format!("write #{}: callback outcomes {:?}", round + 1, c.lock().unwrap().outcomes));
                return;
            }
        }
        unsafe {
            ffi::rodbus_bit_list_destroy(blist);
            ffi::rodbus_register_list_destroy(rlist);
        }
        out.probe("list_reused");
    }
    // ---- listener states are the same-named counterparts, in order
    let got_states: Vec<c_int> = states.lock().unwrap().states.iter().map(|s| s.1).collect();
    if got_states != expected_states {
        out.violate("C18", "client_state_mapping", format!("listener saw {:?}, expected {:?}", got_states, expected_states));
        return;
    }
    // ---- queue full: the Sim is not stepped between the calls
    {
        let p = peer.as_ref().unwrap();
        let _ = p.take_received();
        let mut burst: Vec<(Ctx, c_int)> = Vec::new();
        let total = qcap as usize + 1 + choose(3) as usize;
        // one request is taken by the task and outstanding; the queue then holds qcap more
        let first: Ctx = Arc::new(Mutex::new(CbLog::default()));
        let rc0 = ffi_submit(ch, &Req::ReadCoils { start: 0, count: 1 }, 1, 1000, &first);
        kernel::settle();
        for _ in 0..total {
            let c: Ctx = Arc::new(Mutex::new(CbLog::default()));
            let rc = ffi_submit(ch, &Req::ReadHolding { start: 1, count: 1 }, 1, 1000, &c);
            burst.push((c, rc));
        }
        // a disable that meets the full queue is refused like a request ...
        let rc_dis_full = unsafe { ffi::rodbus_client_channel_disable(ch) };
        let accepted = burst.iter().filter(|b| b.1 == PE_OK).count();
        let rejected: Vec<&(Ctx, c_int)> = burst.iter().filter(|b| b.1 != PE_OK).collect();
        if rc0 != 0 || accepted != qcap as usize || rejected.iter().any(|b| b.1 != PE_TOO_MANY) {
            out.violate(
                "C18",
                "queue_full_code",
                format!("max_queued_requests={}: {} calls, return codes {:?} (expected {} x 0 then {})", qcap, total, burst.iter().map(|b| b.1).collect::<Vec<_>>(), qcap, PE_TOO_MANY),
            );
            return;
        }
        out.probe("queue_full_try_send");
        for (c, _) in &rejected {
            let l = c.lock().unwrap();
            if l.outcomes.len() != 1 || l.destroyed != 1 {
                out.violate("C18", "callback_count_on_queue_full", format!("rejected call: callback fired {} times, on_destroy {}", l.outcomes.len(), l.destroyed));
                return;
            }
            if l.outcomes[0].1 == CbOutcome::Failure(RE_SHUTDOWN) && !out.known("C10", "ffi_queue_full_reported_as_shutdown") {
                out.violate("C10", "shutdown_error_while_task_alive", "a request rejected because the queue is full completed with Shutdown although the channel task is alive".into());
                return;
            }
        }
        // drain: all accepted ones time out one after the other
        kernel::advance((qcap as u64 + 2) * 1000 * MS);
        for (c, rc) in burst.iter().chain(std::iter::once(&(first.clone(), rc0))) {
            if *rc == PE_OK {
                let l = c.lock().unwrap();
                if l.outcomes.len() != 1 || l.outcomes[0].1 != CbOutcome::Failure(RE_TIMEOUT) || l.destroyed != 1 {
                    out.violate("C18", "queued_request_outcome", format!("queued request: {:?} destroy={}", l.outcomes, l.destroyed));
                    return;
                }
            }
        }
        // ... and the application's retry, once there is room, must take effect: a call that returns OK has
        // been forwarded (C18: same outcome as Channel::disable, which is never a silent no-op)
        if rc_dis_full != PE_TOO_MANY {
            out.violate("C18", "disable_on_full_queue", format!("disable with a full queue returned {} (expected {})", rc_dis_full, PE_TOO_MANY));
            return;
        }
        let before = states.lock().unwrap().states.len();
        let rc_dis = unsafe { ffi::rodbus_client_channel_disable(ch) };
        kernel::settle();
        let tail: Vec<c_int> = states.lock().unwrap().states[before..].iter().map(|s| s.1).collect();
        if rc_dis != PE_OK || tail != vec![0] {
            let d = format!("disable refused with a full queue (rc {}), repeated after the queue drained: rc {} and listener states {:?} (expected rc 0 and [Disabled])", rc_dis_full, rc_dis, tail);
            out.violate("C18", "disable_retry_has_no_effect", d.clone());
            out.violate("C13", "disable_retry_has_no_effect", d);
            return;
        }
        let closed = peer.as_ref().map(|p| p.remote_closed()).unwrap_or(true);
        if !closed {
            out.violate("C13", "disable_keeps_connection", "after disable through the C ABI the connection is still open".into());
            return;
        }
        let before = states.lock().unwrap().states.len();
        let rc_en = unsafe { ffi::rodbus_client_channel_enable(ch) };
        kernel::settle();
        peer = net::stub_accept(addr);
        let tail: Vec<c_int> = states.lock().unwrap().states[before..].iter().map(|s| s.1).collect();
        if rc_en != PE_OK || tail != vec![1, 2] || peer.is_none() {
            out.violate("C18", "enable_after_disable", format!("enable after disable: rc {} states {:?} connected={}", rc_en, tail, peer.is_some()));
            return;
        }
        out.probe("ffi_disable_refused_then_retried");
    }
    // ---- shutdown: pending callbacks complete with Shutdown, afterwards calls report Shutdown
    let pending: Ctx = Arc::new(Mutex::new(CbLog::default()));
    let rc = ffi_submit(ch, &Req::ReadInput { start: 0, count: 2 }, 1, 60_000, &pending);
    kernel::settle();
    rt.destroy();
    kernel::settle();
    {
        let l = pending.lock().unwrap();
        if rc != 0 || l.outcomes.len() != 1 || l.outcomes[0].1 != CbOutcome::Failure(RE_SHUTDOWN) || l.destroyed != 1 {
            out.violate("C18", "shutdown_outcome", format!("request pending at runtime destruction: rc={} outcomes {:?} destroy={}", rc, l.outcomes, l.destroyed));
            return;
        }
    }
    let after: Ctx = Arc::new(Mutex::new(CbLog::default()));
    let rc = ffi_submit(ch, &Req::ReadCoils { start: 0, count: 1 }, 1, 100, &after);
    {
        let l = after.lock().unwrap();
        if rc != PE_SHUTDOWN || l.outcomes.len() != 1 || l.outcomes[0].1 != CbOutcome::Failure(RE_SHUTDOWN) || l.destroyed != 1 {
            out.violate("C18", "post_shutdown_call", format!("call after shutdown: rc={} (expected {}) outcomes {:?} destroy={}", rc, PE_SHUTDOWN, l.outcomes, l.destroyed));
            return;
        }
    }
    unsafe { ffi::rodbus_client_channel_destroy(ch) };
    kernel::settle();
    let st = states.lock().unwrap();
    if st.destroyed != 1 {
        out.violate("C18", "listener_destroy_count", format!("listener on_destroy fired {} times", st.destroyed));
    }
    drop(st);
    out.nontrivial = Some(wl);
    out.sample = Some(json!({"scenario": "C ABI client vs same-named outcome table", "decode_level_index": dec_idx, "max_queued_requests": qcap, "steps": trace.iter().take(20).collect::<Vec<_>>()}));
    let _ = (cfg, &all_ctx);
    let _ = MbapDeframer::default();
    let _ = BTreeMap::<u8, u8>::new();
    let _: Option<IpAddr> = None;
}

// ---------------------------------------------------------------------------
// server side: write callbacks, database, address filter

#[derive(Clone, Debug, PartialEq, Eq)]
pub enum DbOp {
    Add(u8, u16, u16),
    Update(u8, u16, u16),
    Delete(u8, u16),
    Get(u8, u16),
}

#[derive(Clone, Debug, PartialEq, Eq)]
pub enum DbRes {
    Bool(bool),
    Get(Result<u16, c_int>),
}

/// reference model of the point database: one map per point type
#[derive(Clone, Default, Debug)]
pub struct DbModel {
    pub maps: [BTreeMap<u16, u16>; 4],
}

impl DbModel {
    pub fn apply(&mut self, op: &DbOp) -> DbRes {
        match op {
            DbOp::Add(t, i, v) => {
                let m = &mut self.maps[*t as usize];
                if m.contains_key(i) {
                    DbRes::Bool(false)
                } else {
                    m.insert(*i, *v);
                    DbRes::Bool(true)
                }
            }
            DbOp::Update(t, i, v) => {
                let m = &mut self.maps[*t as usize];
                if m.contains_key(i) {
                    m.insert(*i, *v);
                    DbRes::Bool(true)
                } else {
                    DbRes::Bool(false)
                }
            }
            DbOp::Delete(t, i) => DbRes::Bool(self.maps[*t as usize].remove(i).is_some()),
            DbOp::Get(t, i) => DbRes::Get(self.maps[*t as usize].get(i).copied().ok_or(PE_INVALID_INDEX)),
        }
    }
}

/// perform `op` through the extern "C" database functions
unsafe fn db_exec(db: *mut rodbus_ffi::Database, op: &DbOp) -> DbRes {
    match op {
        DbOp::Add(0, i, v) => DbRes::Bool(ffi::rodbus_database_add_coil(db, *i, *v != 0)),
        DbOp::Add(1, i, v) => DbRes::Bool(ffi::rodbus_database_add_discrete_input(db, *i, *v != 0)),
        DbOp::Add(2, i, v) => DbRes::Bool(ffi::rodbus_database_add_holding_register(db, *i, *v)),
        DbOp::Add(_, i, v) => DbRes::Bool(ffi::rodbus_database_add_input_register(db, *i, *v)),
        DbOp::Update(0, i, v) => DbRes::Bool(ffi::rodbus_database_update_coil(db, *i, *v != 0)),
        DbOp::Update(1, i, v) => DbRes::Bool(ffi::rodbus_database_update_discrete_input(db, *i, *v != 0)),
        DbOp::Update(2, i, v) => DbRes::Bool(ffi::rodbus_database_update_holding_register(db, *i, *v)),
        DbOp::Update(_, i, v) => DbRes::Bool(ffi::rodbus_database_update_input_register(db, *i, *v)),
        DbOp::Delete(0, i) => DbRes::Bool(ffi::rodbus_database_delete_coil(db, *i)),
        DbOp::Delete(1, i) => DbRes::Bool(ffi::rodbus_database_delete_discrete_input(db, *i)),
        DbOp::Delete(2, i) => DbRes::Bool(ffi::rodbus_database_delete_holding_register(db, *i)),
        DbOp::Delete(_, i) => DbRes::Bool(ffi::rodbus_database_delete_input_register(db, *i)),
        DbOp::Get(0, i) => {
            let mut o = false;
            let rc = ffi::rodbus_database_get_coil(db, *i, &mut o);
            DbRes::Get(if rc == 0 { Ok(o as u16) } else { Err(rc) })
        }
        DbOp::Get(1, i) => {
            let mut o = false;
            let rc = ffi::rodbus_database_get_discrete_input(db, *i, &mut o);
            DbRes::Get(if rc == 0 { Ok(o as u16) } else { Err(rc) })
        }
        DbOp::Get(2, i) => {
            let mut o = 0u16;
            let rc = ffi::rodbus_database_get_holding_register(db, *i, &mut o);
            DbRes::Get(if rc == 0 { Ok(o) } else { Err(rc) })
        }
        DbOp::Get(_, i) => {
            let mut o = 0u16;
            let rc = ffi::rodbus_database_get_input_register(db, *i, &mut o);
            DbRes::Get(if rc == 0 { Ok(o) } else { Err(rc) })
        }
    }
}

fn gen_db_op() -> DbOp {
    let t = choose(4) as u8;
    let i = [0u16, 1, 2, 3, 65535][choose(5) as usize];
    let v = if t < 2 { choose(2) as u16 } else { [0u16, 1, 0xABCD, 0xFFFF][choose(4) as usize] };
    match weighted(&[4, 3, 2, 2]) {
        0 => DbOp::Add(t, i, v),
        1 => DbOp::Update(t, i, v),
        2 => DbOp::Delete(t, i),
        _ => DbOp::Get(t, i),
    }
}

#[derive(Default)]
struct TxCtx {
    ops: Vec<DbOp>,
    results: Vec<DbRes>,
    calls: u32,
    destroyed: u32,
}

extern "C" fn tx_callback(db: *mut rodbus_ffi::Database, ctx: *mut c_void) {
    unsafe {
        let m = &*(ctx as *const Mutex<TxCtx>);
        let mut g = m.lock().unwrap();
        g.calls += 1;
        let ops = g.ops.clone();
        for op in &ops {
            let r = db_exec(db, op);
            g.results.push(r);
        }
    }
}
extern "C" fn tx_destroy(ctx: *mut c_void) {
    unsafe {
        let m = &*(ctx as *const Mutex<TxCtx>);
        m.lock().unwrap().destroyed += 1;
        drop(Arc::from_raw(ctx as *const Mutex<TxCtx>));
    }
}

fn db_callback(ops: Vec<DbOp>) -> (ffi::DatabaseCallback, Arc<Mutex<TxCtx>>) {
    let c = Arc::new(Mutex::new(TxCtx {
        ops,
        ..TxCtx::default()
    }));
    (
        ffi::DatabaseCallback {
            callback: Some(tx_callback),
            on_destroy: Some(tx_destroy),
            ctx: Arc::into_raw(c.clone()) as *mut c_void,
        },
        c,
    )
}

/// what the application's write callback returns next, and what it saw
#[derive(Default)]
struct WhCtx {
    next: Option<(bool, c_int, u8)>,
    /// database operations performed inside the callback
    inner_ops: Vec<DbOp>,
    inner_results: Vec<DbRes>,
    seen: Vec<String>,
    destroyed: u32,
}

unsafe fn wh_common(db: *mut rodbus_ffi::Database, ctx: *mut c_void, what: String) -> ffi::WriteResult {
    let m = &*(ctx as *const Mutex<WhCtx>);
    let mut g = m.lock().unwrap();
    g.seen.push(what);
    let ops = std::mem::take(&mut g.inner_ops);
    for op in &ops {
        let r = db_exec(db, op);
        g.inner_results.push(r);
    }
    let (success, exception, raw) = g.next.take().unwrap_or((true, 1, 0));
    ffi::WriteResult {
        success,
        exception,
        raw_exception: raw,
    }
}

extern "C" fn wh_coil(index: u16, value: bool, db: *mut rodbus_ffi::Database, ctx: *mut c_void) -> ffi::WriteResult {
    unsafe { wh_common(db, ctx, format!("coil {} {}", index, value)) }
}
extern "C" fn wh_reg(index: u16, value: u16, db: *mut rodbus_ffi::Database, ctx: *mut c_void) -> ffi::WriteResult {
    unsafe { wh_common(db, ctx, format!("reg {} {}", index, value)) }
}
extern "C" fn wh_coils(start: u16, it: *mut rodbus_ffi::BitValueIterator<'_>, db: *mut rodbus_ffi::Database, ctx: *mut c_void) -> ffi::WriteResult {
    let mut v = Vec::new();
    unsafe {
        loop {
            let p = ffi::rodbus_bit_value_iterator_next(it);
            if p.is_null() || v.len() > 3000 {
                break;
            }
            v.push(((*p).index, (*p).value));
        }
        wh_common(db, ctx, format!("coils {} {:?}", start, v))
    }
}
extern "C" fn wh_regs(start: u16, it: *mut rodbus_ffi::RegisterValueIterator<'_>, db: *mut rodbus_ffi::Database, ctx: *mut c_void) -> ffi::WriteResult {
    let mut v = Vec::new();
    unsafe {
        loop {
            let p = ffi::rodbus_register_value_iterator_next(it);
            if p.is_null() || v.len() > 300 {
                break;
            }
            v.push(((*p).index, (*p).value));
        }
        wh_common(db, ctx, format!("regs {} {:?}", start, v))
    }
}
extern "C" fn wh_destroy(ctx: *mut c_void) {
    unsafe {
        let m = &*(ctx as *const Mutex<WhCtx>);
        m.lock().unwrap().destroyed += 1;
        drop(Arc::from_raw(ctx as *const Mutex<WhCtx>));
    }
}

fn gen_write_result() -> ((bool, c_int, u8), Option<u8>) {
    // returns the WriteResult and the exception code the client must receive (None = success)
    match weighted(&[4, 5, 3]) {
        0 => ((true, 1, 0), None),
        1 => {
            let codes: [(c_int, u8); 9] = [(1, 1), (2, 2), (3, 3), (4, 4), (5, 5), (6, 6), (8, 8), (10, 10), (11, 11)];
            let (e, c) = codes[choose(9) as usize];
            ((false, e, choose(256) as u8), Some(c))
        }
        _ => {
            let raw = choose(256) as u8;
            ((false, 255, raw), Some(raw))
        }
    }
}

// authorization callbacks for the TLS+authz constructor: allow everything
extern "C" fn az_range(_u: u8, _r: ffi::AddressRange, _role: *const std::os::raw::c_char, _c: *mut c_void) -> c_int {
    0
}
extern "C" fn az_index(_u: u8, _i: u16, _role: *const std::os::raw::c_char, _c: *mut c_void) -> c_int {
    0
}
extern "C" fn az_destroy(_c: *mut c_void) {}

/// C18 (server half), C19 (map semantics), C16 (C ABI filter): variant 0 = TCP, 1 = TLS, 2 = TLS + authz
pub fn run_server(cfg: &ScenCfg, out: &mut RunOut) {
    use super::sessions::{gen_filter, gen_wildcard_string, FilterSpec};
    let chunk = chance(1, 2);
    let sched = chance(1, 2);
    kernel::with(|w| {
        w.cfg.sched_random = sched;
        w.cfg.select_random = sched;
        w.cfg.chunk_reads = chunk;
        w.cfg.short_writes = chunk;
    });
    let dec_idx = choose(36) as u8;
    let mut rt = FfiRuntime::new();
    let mut wl = (cfg.variant as u64) << 48 | dec_idx as u64;
    // ---- filter through the C ABI (strings)
    for _ in 0..3 {
        let (s, ok) = gen_wildcard_string();
        // a plain IP address is also a valid filter string in the C ABI
        let ok = ok || s.parse::<IpAddr>().is_ok();
        let cs = match CString::new(s.clone()) {
            Ok(c) => c,
            Err(_) => continue,
        };
        let mut f: *mut rodbus_ffi::AddressFilter = std::ptr::null_mut();
        let rc = unsafe { ffi::rodbus_address_filter_create(cs.as_ptr(), &mut f) };
        if (rc == 0) != ok {
            out.violate("C16", "ffi_filter_string", format!("rodbus_address_filter_create({:?}) returned {} but well-formed={}", s, rc, ok));
            return;
        }
        if rc == 0 {
            unsafe { ffi::rodbus_address_filter_destroy(f) };
        }
    }
    let (spec, base) = gen_filter();
    hash_bytes(&mut wl, format!("{:?}", spec).as_bytes());
    let filter: *mut rodbus_ffi::AddressFilter = unsafe {
        match &spec {
            FilterSpec::Any => ffi::rodbus_address_filter_any(),
            FilterSpec::Exact(ip) => {
                let mut f = std::ptr::null_mut();
                let c = CString::new(ip.to_string()).unwrap();
                if ffi::rodbus_address_filter_create(c.as_ptr(), &mut f) != 0 {
                    out.violate("C16", "ffi_filter_string", format!("address {} rejected", ip));
                    return;
                }
                f
            }
            FilterSpec::AnyOf(v) => {
                let mut f = std::ptr::null_mut();
                let c = CString::new(v[0].to_string()).unwrap();
                if ffi::rodbus_address_filter_create(c.as_ptr(), &mut f) != 0 {
                    out.violate("C16", "ffi_filter_string", format!("address {} rejected", v[0]));
                    return;
                }
                for ip in &v[1..] {
                    let c = CString::new(ip.to_string()).unwrap();
                    if ffi::rodbus_address_filter_add(f, c.as_ptr()) != 0 {
                        out.violate("C16", "ffi_filter_add", format!("adding {} rejected", ip));
                        return;
                    }
                }
                f
            }
            FilterSpec::Wildcard(w) => {
                let mut f = std::ptr::null_mut();
                let c = CString::new(FilterSpec::wildcard_string(w)).unwrap();
                if ffi::rodbus_address_filter_create(c.as_ptr(), &mut f) != 0 {
                    out.violate("C16", "ffi_filter_string", format!("wildcard {:?} rejected", w));
                    return;
                }
                f
            }
        }
    };
    // ---- refused additions must leave the filter as it was
    if chance(1, 3) {
        for _ in 0..1 + choose(2) {
            // (a pattern without any `*` is a plain address for the C ABI: an AnyOf filter of one)
            let fixed = match &spec {
                FilterSpec::Any => true,
                FilterSpec::Wildcard(w) => w.iter().any(|x| x.is_none()),
                _ => false,
            };
            let text = if fixed && chance(2, 3) {
                // well-formed address, but this kind of filter cannot take additions
                super::sessions::gen_peer_ip_pub(base).to_string()
            } else {
                ["", "1.2.3", "10.0.0.*", "300.1.1.1", "not an address", "1.2.3.4.5"][choose(6) as usize].to_string()
            };
            let c = CString::new(text.clone()).unwrap();
            let rc = unsafe { ffi::rodbus_address_filter_add(filter, c.as_ptr()) };
            if rc == 0 {
                out.violate("C16", "ffi_filter_add", format!("rodbus_address_filter_add({:?}) on filter {:?} succeeded", text, spec));
                return;
            }
            out.probe("ffi_filter_add_refused");
            hash_bytes(&mut wl, text.as_bytes());
        }
    }
    // ---- endpoints
    let map = unsafe { ffi::rodbus_device_map_create() };
    let nunits = 1 + choose(2) as usize;
    let mut units: Vec<(u8, Arc<Mutex<WhCtx>>, DbModel)> = Vec::new();
    for k in 0..nunits {
        let unit = [1u8, 7, 0][k];
        let wh = Arc::new(Mutex::new(WhCtx::default()));
        let handler = ffi::WriteHandler {
            write_single_coil: Some(wh_coil),
            write_single_register: Some(wh_reg),
            write_multiple_coils: Some(wh_coils),
            write_multiple_registers: Some(wh_regs),
            on_destroy: Some(wh_destroy),
            ctx: Arc::into_raw(wh.clone()) as *mut c_void,
        };
        let ops: Vec<DbOp> = (0..2 + choose(10)).map(|_| gen_db_op()).collect();
        let (cb, txc) = db_callback(ops.clone());
        let ok = unsafe { ffi::rodbus_device_map_add_endpoint(map, unit, handler, cb) };
        if !ok {
            out.violate("C19", "add_endpoint", format!("add_endpoint({}) failed", unit));
            return;
        }
        let mut model = DbModel::default();
        let want: Vec<DbRes> = ops.iter().map(|o| model.apply(o)).collect();
        let got = txc.lock().unwrap().results.clone();
        if got != want {
            out.violate("C19", "database_op_result", format!("configure callback of unit {}: ops {:?} returned {:?}, the per-type map model says {:?}", unit, ops, got, want));
            return;
        }
        out.ops_checked += ops.len() as u64;
        units.push((unit, wh, model));
    }
    // ---- the server
    let host = CString::new("10.0.0.1").unwrap();
    let mut server: *mut rodbus_ffi::Server = std::ptr::null_mut();
    let paths: Vec<CString> = ["ca1_cert.pem", "srv_ok_cert.pem", "srv_ok_key.pem"].iter().map(|f| CString::new(super::tls::fixture(f).to_str().unwrap()).unwrap()).collect();
    let empty = CString::new("").unwrap();
    let rc = unsafe {
        match cfg.variant {
            0 => ffi::rodbus_server_create_tcp(rt.ptr, host.as_ptr(), 502, filter, 8, map, ffi_decode(dec_idx), &mut server),
            v => {
                let tls = ffi::TlsServerConfig {
                    peer_cert_path: paths[0].as_ptr(),
                    local_cert_path: paths[1].as_ptr(),
                    private_key_path: paths[2].as_ptr(),
                    password: empty.as_ptr(),
                    min_tls_version: 0,
                    certificate_mode: 0,
                };
                if v == 1 {
                    ffi::rodbus_server_create_tls(rt.ptr, host.as_ptr(), 502, filter, 8, map, tls, ffi_decode(dec_idx), &mut server)
                } else {
                    let az = ffi::AuthorizationHandler {
                        read_coils: Some(az_range),
                        read_discrete_inputs: Some(az_range),
                        read_holding_registers: Some(az_range),
                        read_input_registers: Some(az_range),
                        write_single_coil: Some(az_index),
                        write_single_register: Some(az_index),
                        write_multiple_coils: Some(az_range),
                        write_multiple_registers: Some(az_range),
                        on_destroy: Some(az_destroy),
                        ctx: std::ptr::null_mut(),
                    };
                    ffi::rodbus_server_create_tls_with_authz(rt.ptr, host.as_ptr(), 502, filter, 8, map, tls, az, ffi_decode(dec_idx), &mut server)
                }
            }
        }
    };
    // the caller's filter object is only read by server_create: a second server created from the same
    // object filters exactly like the first
    let mut server2: *mut rodbus_ffi::Server = std::ptr::null_mut();
    if rc == 0 && cfg.variant == 0 && chance(1, 3) {
        let map2 = unsafe { ffi::rodbus_device_map_create() };
        let wh2 = Arc::new(Mutex::new(WhCtx::default()));
        let handler2 = ffi::WriteHandler {
            write_single_coil: Some(wh_coil),
            write_single_register: Some(wh_reg),
            write_multiple_coils: Some(wh_coils),
            write_multiple_registers: Some(wh_regs),
            on_destroy: Some(wh_destroy),
            ctx: Arc::into_raw(wh2) as *mut c_void,
        };
        let (cb2, _t2) = db_callback(vec![DbOp::Add(3, 4, 7)]);
        unsafe { ffi::rodbus_device_map_add_endpoint(map2, 1, handler2, cb2) };
        let rc2 = unsafe { ffi::rodbus_server_create_tcp(rt.ptr, host.as_ptr(), 503, filter, 8, map2, ffi_decode(dec_idx), &mut server2) };
        unsafe { ffi::rodbus_device_map_destroy(map2) };
        if rc2 != 0 {
            out.violate("C18", "server_create", format!("second server_create with the same filter object returned {}", rc2));
            return;
        }
        out.probe("ffi_filter_object_reused");
    }
    unsafe {
        ffi::rodbus_device_map_destroy(map);
        ffi::rodbus_address_filter_destroy(filter);
    }
    if rc != 0 {
        out.violate("C18", "server_create", format!("server_create (variant {}) returned {}", cfg.variant, rc));
        return;
    }
    kernel::settle();
    if !server2.is_null() {
        let addr2: SocketAddr = "10.0.0.1:503".parse().unwrap();
        for i in 0..2 {
            let ip = super::sessions::gen_peer_ip_pub(base);
            let matches = spec.matches(ip);
            if let Some(p) = net::connect_from(addr2, SocketAddr::new(ip, 2300 + i)) {
                kernel::settle();
                p.write(&mbap_frame(3, 1, &[4, 0, 4, 0, 1]));
                kernel::settle();
                let got = p.take_received();
                if matches && got.len() < 9 {
                    out.violate("C16", "matching_peer_not_served", format!("second C ABI server created from the same filter object {:?}: peer {} matches but received {}", spec, ip, hex(&got)));
                    return;
                }
                if !matches && (!got.is_empty() || !p.remote_closed()) {
                    out.violate("C16", "non_matching_peer_served", format!("second C ABI server created from the same filter object {:?}: peer {} does not match but received {} bytes (closed={})", spec, ip, got.len(), p.remote_closed()));
                    return;
                }
                out.ops_checked += 1;
            }
        }
        unsafe { ffi::rodbus_server_destroy(server2) };
        kernel::settle();
    }
    let addr: SocketAddr = "10.0.0.1:502".parse().unwrap();
    // ---- C16: peers from the lattice
    let npeers = 1 + choose(4) as usize;
    let mut served_peer: Option<PeerEnd> = None;
    for i in 0..npeers {
        let ip = super::sessions::gen_peer_ip_pub(base);
        hash_bytes(&mut wl, ip.to_string().as_bytes());
        let matches = spec.matches(ip);
        let from = SocketAddr::new(ip, 2100 + i as u16);
        if cfg.variant == 0 {
            let p = match net::connect_from(addr, from) {
                Some(p) => p,
                None => {
                    out.violate("C16", "not_listening", "the C ABI server is not listening".into());
                    return;
                }
            };
            kernel::settle();
            // a read of an absent point is still an answer (exception 02)
            p.write(&mbap_frame(3, 1, &[4, 0xFF, 0xF0, 0, 1]));
            kernel::settle();
            let got = p.take_received();
            if matches {
                if got.len() < 9 {
                    out.violate("C16", "matching_peer_not_served", format!("C ABI tcp, filter {:?}: peer {} matches but received {}", spec, ip, hex(&got)));
                    return;
                }
                out.probe("served");
                served_peer = Some(p);
            } else {
                if !got.is_empty() || !p.remote_closed() {
                    out.violate("C16", "non_matching_peer_served", format!("C ABI tcp, filter {:?}: peer {} does not match but received {} bytes (closed={})", spec, ip, got.len(), p.remote_closed()));
                    return;
                }
                out.probe("rejected");
            }
        } else {
            // TLS variants: a non-matching peer must not even get a TLS byte
            let p = match net::connect_from(addr, from) {
                Some(p) => p,
                None => {
                    out.violate("C16", "not_listening", "the C ABI TLS server is not listening".into());
                    return;
                }
            };
            kernel::settle();
            // plaintext is enough to tell "closed without any response" from "TLS stack answered"
            p.write(&mbap_frame(3, 1, &[4, 0xFF, 0xF0, 0, 1]));
            kernel::settle();
            let got = p.take_received();
            if matches {
                if got.is_empty() && p.remote_closed() {
                    out.violate("C16", "matching_peer_not_served", format!("C ABI tls variant {}, filter {:?}: peer {} matches but the connection was closed without a TLS response", cfg.variant, spec, ip));
                    return;
                }
                out.probe("served");
            } else {
                if !got.is_empty() || !p.remote_closed() {
                    let key = if cfg.variant == 1 { "ffi_tls_server_ignores_filter" } else { "" };
                    if !(key != "" && out.known("C16", key)) {
                        out.violate("C16", "non_matching_peer_served", format!("C ABI tls variant {}, filter {:?}: peer {} does not match but received {} bytes {} (closed={})", cfg.variant, spec, ip, got.len(), hex(&got), p.remote_closed()));
                        return;
                    }
                }
                out.probe("rejected");
            }
        }
        out.ops_checked += 1;
    }
    // ---- C18 / C19 over plain TCP with a served peer
    if cfg.variant == 0 {
        let peer = match served_peer {
            Some(p) => Some(p),
            None => {
                // find an address that matches
                let ip = match &spec {
                    FilterSpec::Any => Some("10.9.9.9".parse().unwrap()),
                    FilterSpec::Exact(ip) => Some(*ip),
                    FilterSpec::AnyOf(v) => Some(v[0]),
                    FilterSpec::Wildcard(w) => Some(IpAddr::V4(std::net::Ipv4Addr::new(w[0].unwrap_or(9), w[1].unwrap_or(9), w[2].unwrap_or(9), w[3].unwrap_or(9)))),
                };
                ip.and_then(|ip| net::connect_from(addr, SocketAddr::new(ip, 2999)))
            }
        };
        let peer = match peer {
            Some(p) => p,
            None => return,
        };
        kernel::settle();
        let mut tx = 100u16;
        let nops = 3 + choose(14) as usize;
        for _ in 0..nops {
            let ui = choose(units.len() as u32) as usize;
            let unit = units[ui].0;
            match weighted(&[3, 4, 4]) {
                0 => {
                    // transaction through the C ABI
                    let ops: Vec<DbOp> = (0..1 + choose(6)).map(|_| gen_db_op()).collect();
                    let (cb, txc) = db_callback(ops.clone());
                    let rc = unsafe { ffi::rodbus_server_update_database(server, unit, cb) };
                    let want: Vec<DbRes> = ops.iter().map(|o| units[ui].2.apply(o)).collect();
                    let g = txc.lock().unwrap();
                    if rc != 0 || g.calls != 1 || g.results != want || g.destroyed != 1 {
                        out.violate("C19", "database_op_result", format!("transaction on unit {}: rc={} calls={} destroy={} ops {:?} returned {:?}, the model says {:?}", unit, rc, g.calls, g.destroyed, ops, g.results, want));
                        return;
                    }
                    out.ops_checked += ops.len() as u64;
                    hash_bytes(&mut wl, format!("{:?}", ops).as_bytes());
                }
                1 => {
                    // client read: data if every point exists, else exception 02
                    let ty = choose(4) as u8;
                    let start = [0u16, 1, 2, 65535, 65534][choose(5) as usize];
                    let count = ((1 + choose(3)) as u32).min(65536 - start as u32).max(1) as u16;
                    let fc = [1u8, 2, 3, 4][ty as usize];
                    tx = tx.wrapping_add(1);
                    peer.write(&mbap_frame(tx, unit, &[fc, (start >> 8) as u8, start as u8, 0, count as u8]));
                    kernel::settle();
                    let got = peer.take_received();
                    let m = &units[ui].2.maps[ty as usize];
                    let vals: Option<Vec<u16>> = (0..count).map(|k| m.get(&(start + k)).copied()).collect();
                    let want_pdu = match vals {
                        None => vec![fc | 0x80, 2],
                        Some(v) => {
                            let req = match ty {
                                0 => Req::ReadCoils { start, count },
                                1 => Req::ReadDiscrete { start, count },
                                2 => Req::ReadHolding { start, count },
                                _ => Req::ReadInput { start, count },
                            };
                            let bits: Vec<bool> = v.iter().map(|x| *x != 0).collect();
                            pdu::encode_ok_reply(&req, &bits, &v)
                        }
                    };
                    let want = mbap_frame(tx, unit, &want_pdu);
                    if got != want {
                        out.violate("C19", "client_read_vs_database", format!("read type {} start {} count {} on unit {}: reply {} expected {} (database model {:?})", ty, start, count, unit, hex(&got), hex(&want), m));
                        return;
                    }
                    out.ops_checked += 1;
                    hash_bytes(&mut wl, &[fc, start as u8, count as u8]);
                }
                _ => {
                    // client write: the callback's WriteResult is what the client receives
                    let (wr, code) = gen_write_result();
                    let inner: Vec<DbOp> = if chance(1, 3) { (0..1 + choose(2)).map(|_| gen_db_op()).collect() } else { Vec::new() };
                    {
                        let mut g = units[ui].1.lock().unwrap();
                        g.next = Some(wr);
                        g.inner_ops = inner.clone();
                        g.inner_results.clear();
                        g.seen.clear();
                    }
                    let req = match choose(4) {
                        0 => Req::WriteCoil { addr: choose(5) as u16, value: choose(2) == 1 },
                        1 => Req::WriteReg { addr: choose(5) as u16, value: pick_u16_boundary() },
                        2 => Req::WriteCoils { start: choose(3) as u16, values: (0..1 + choose(10)).map(|_| choose(2) == 1).collect() },
                        _ => Req::WriteRegs { start: choose(3) as u16, values: (0..1 + choose(5)).map(|_| choose(65536) as u16).collect() },
                    };
                    tx = tx.wrapping_add(1);
                    peer.write(&mbap_frame(tx, unit, &pdu::encode_req(&req)));
                    kernel::settle();
                    let got = peer.take_received();
                    let want_pdu = match code {
                        None => pdu::encode_ok_reply(&req, &[], &[]),
                        Some(c) => vec![req.fc() | 0x80, c],
                    };
                    let want = mbap_frame(tx, unit, &want_pdu);
                    let want_inner: Vec<DbRes> = inner.iter().map(|o| units[ui].2.apply(o)).collect();
                    let g = units[ui].1.lock().unwrap();
                    let want_seen = match &req {
                        Req::WriteCoil { addr, value } => format!("coil {} {}", addr, value),
                        Req::WriteReg { addr, value } => format!("reg {} {}", addr, value),
                        Req::WriteCoils { start, values } => format!("coils {} {:?}", start, values.iter().enumerate().map(|(i, v)| (start + i as u16, *v)).collect::<Vec<_>>()),
                        Req::WriteRegs { start, values } => format!("regs {} {:?}", start, values.iter().enumerate().map(|(i, v)| (start + i as u16, *v)).collect::<Vec<_>>()),
                        _ => unreachable!(),
                    };
                    if g.seen != vec![want_seen.clone()] {
                        out.violate("C18", "write_callback_arguments", format!("fc={}: the write callback saw {:?}, expected [{}]", req.fc(), g.seen, want_seen));
                        return;
                    }
                    if got != want {
                        let key = if req.fc() == 5 && code.is_some() { "ffi_write_single_coil_result_replaced" } else { "" };
                        if !(key != "" && out.known("C18", key)) {
                            out.violate(
                                "C18",
                                "write_result_not_forwarded",
                                format!("fc={}: the write callback returned success={} exception={} raw={} but the client received {} (expected {})", req.fc(), wr.0, wr.1, wr.2, hex(&got), hex(&want)),
                            );
                            return;
                        }
                    }
                    if g.inner_results != want_inner {
                        out.violate("C19", "database_op_result", format!("inside a write callback: ops {:?} returned {:?}, the model says {:?}", inner, g.inner_results, want_inner));
                        return;
                    }
                    out.ops_checked += 1;
                    hash_bytes(&mut wl, &[req.fc(), wr.0 as u8, wr.1 as u8, wr.2]);
                }
            }
            if chance(1, 8) {
                let rc = unsafe { ffi::rodbus_server_set_decode_level(server, ffi_decode(choose(36) as u8)) };
                if rc != 0 {
                    out.violate("C18", "server_set_decode_level", format!("returned {}", rc));
                    return;
                }
            }
        }
    }
    unsafe { ffi::rodbus_server_destroy(server) };
    kernel::settle();
    rt.destroy();
    for (u, wh, _) in &units {
        let d = wh.lock().unwrap().destroyed;
        if d != 1 {
            out.violate("C18", "write_handler_destroy_count", format!("unit {}: WriteHandler on_destroy fired {} times after server and runtime were destroyed", u, d));
        }
    }
    out.nontrivial = Some(wl);
    out.sample = Some(json!({"scenario": "C ABI server: write results, database, address filter", "variant": cfg.variant, "filter": format!("{:?}", spec), "units": units.iter().map(|u| u.0).collect::<Vec<_>>()}));
}

// ---------------------------------------------------------------------------
// C18: the serial client through the C ABI (port states, serial settings, retry strategy)

pub fn run_client_rtu(_cfg: &ScenCfg, out: &mut RunOut) {
    use crate::model::frame::rtu_frame;
    use simtokio::serial;
    const PATH: &str = "/dev/ttyFFI0";
    kernel::with(|w| {
        w.cfg.sched_random = false;
        w.cfg.select_random = false;
    });
    let dec_idx = choose(36) as u8;
    let mut rt = FfiRuntime::new();
    serial::add_line(PATH, serial::OpenOutcome::Ok, true);
    let states: Arc<Mutex<StateLog>> = Arc::new(Mutex::new(StateLog::default()));
    let listener = ffi::PortStateListener {
        on_change: Some(st_change),
        on_destroy: Some(st_destroy),
        ctx: Arc::into_raw(states.clone()) as *mut c_void,
    };
    let baud = [1200u32, 9600, 19200, 115200][choose(4) as usize];
    let retry_ms = [20u64, 100, 1000][choose(3) as usize];
    let retry_max = retry_ms * [1u64, 4][choose(2) as usize];
    let settings = ffi::SerialPortSettings {
        baud_rate: baud,
        data_bits: 3,
        flow_control: 0,
        parity: choose(3) as c_int,
        stop_bits: choose(2) as c_int,
    };
    let path = CString::new(PATH).unwrap();
    let mut ch: *mut rodbus_ffi::ClientChannel = std::ptr::null_mut();
    // the port is missing for the first attempts: the retry strategy is what was configured
    let fails = choose(3) as usize;
    for _ in 0..fails {
        serial::plan_open(PATH, serial::OpenOutcome::NoDevice);
    }
    let rc = unsafe {
        ffi::rodbus_client_channel_create_rtu(rt.ptr, path.as_ptr(), settings, 4, ffi::RetryStrategy { min_delay: retry_ms, max_delay: retry_max }, ffi_decode(dec_idx), listener, &mut ch)
    };
    if rc != 0 {
        out.violate("C18", "channel_create", format!("create_rtu returned {}", rc));
        return;
    }
    kernel::settle();
    let rc = unsafe { ffi::rodbus_client_channel_enable(ch) };
    kernel::settle();
    if rc != 0 {
        out.violate("C18", "enable", format!("enable returned {}", rc));
        return;
    }
    // open attempts: at 0, then after min, 2*min (capped)
    let mut expect_opens = vec![0u64];
    let mut d = retry_ms;
    let mut t = 0u64;
    for _ in 0..fails {
        t += d * MS;
        expect_opens.push(t);
        d = (d * 2).min(retry_max);
    }
    kernel::advance_to(t);
    let opens: Vec<u64> = serial::opens(PATH).iter().map(|o| o.at).collect();
    if opens != expect_opens {
        out.violate("C18", "retry_strategy_not_forwarded", format!("min={}ms max={}ms, {} failed opens: attempts at {:?}, expected {:?}", retry_ms, retry_max, fails, opens, expect_opens));
        return;
    }
    let mut expected_states: Vec<c_int> = vec![0];
    for _ in 0..fails {
        expected_states.push(1);
    }
    expected_states.push(2);
    // the port was opened with the configured baud rate (what the simulated port recorded; the length of the
    // inter-frame silence the library derives from it is not a property and is not looked at)
    if serial::line_baud(PATH) != baud {
        out.violate("C18", "serial_settings_not_forwarded", format!("configured baud rate {}, the port was opened with {}", baud, serial::line_baud(PATH)));
        return;
    }
    let t35 = super::client::t35_ns(baud);
    let mut wl = dec_idx as u64 ^ (baud as u64) << 8 ^ (fails as u64) << 40;
    let n = 2 + choose(4) as usize;
    let mut last_write: Option<u64> = None;
    let mut sent_so_far: u64 = serial::line_total_from_port(PATH);
    for k in 0..n {
        let req = gen_valid_req(true);
        let unit = 1 + choose(10) as u8;
        hash_bytes(&mut wl, &pdu::encode_req(&req)[..4]);
        let ctx: Ctx = Arc::new(Mutex::new(CbLog::default()));
        let rc = ffi_submit(ch, &req, unit, 1000, &ctx);
        if rc != 0 {
            out.violate("C18", "submit_rc", format!("rtu request returned {}", rc));
            return;
        }
        kernel::settle();
        // back-to-back requests: give the frame time to leave after whatever silence the library keeps
        let before = kernel::now_ns();
        kernel::run_until(|| serial::line_total_from_port(PATH) > sent_so_far, before + 2 * t35 + 10 * MS, 100_000);
        let _ = (k, &mut last_write);
        let wire = serial::line_take(PATH);
        sent_so_far += wire.len() as u64;
        let want = rtu_frame(unit, &pdu::encode_req(&req));
        if wire != want {
            out.violate("C18", "wire_differs_from_rust_api", format!("rtu fc={}: wire {} expected {}", req.fc(), hex(&wire), hex(&want)));
            return;
        }
        let r = super::client::correct_reply(&req);
        serial::line_write(PATH, &rtu_frame(unit, &r));
        kernel::settle();
        let l = ctx.lock().unwrap();
        if l.outcomes.len() != 1 || l.outcomes[0].1 != expected_ok(&req, &r) || l.destroyed != 1 {
            out.violate("C18", "outcome_differs_from_rust_api", format!("rtu fc={}: outcomes {:?} destroy {}", req.fc(), l.outcomes, l.destroyed));
            return;
        }
        out.ops_checked += 1;
    }
    // the port is lost: Wait, then Open again after the configured minimum delay
    serial::inject_port_lost(PATH, std::io::ErrorKind::BrokenPipe);
    kernel::settle();
    let lost_at = kernel::now_ns();
    kernel::advance(retry_ms * MS);
    expected_states.extend([1, 2]);
    let opens: Vec<u64> = serial::opens(PATH).iter().map(|o| o.at).collect();
    if opens.last() != Some(&(lost_at + retry_ms * MS)) {
        out.violate("C18", "retry_strategy_not_forwarded", format!("port lost at {}: re-open attempts {:?}, expected one at {}", lost_at, opens, lost_at + retry_ms * MS));
        return;
    }
    let rc = unsafe { ffi::rodbus_client_channel_disable(ch) };
    kernel::settle();
    expected_states.push(0);
    let got: Vec<c_int> = states.lock().unwrap().states.iter().map(|s| s.1).collect();
    if rc != 0 || got != expected_states {
        out.violate("C18", "port_state_mapping", format!("disable rc={}; port listener saw {:?}, expected {:?} (0 Disabled, 1 Wait, 2 Open, 3 Shutdown)", rc, got, expected_states));
        return;
    }
    rt.destroy();
    kernel::settle();
    unsafe { ffi::rodbus_client_channel_destroy(ch) };
    kernel::settle();
    if states.lock().unwrap().destroyed != 1 {
        out.violate("C18", "listener_destroy_count", format!("port listener on_destroy fired {} times", states.lock().unwrap().destroyed));
    }
    out.nontrivial = Some(wl);
    out.sample = Some(json!({"scenario": "C ABI serial client", "baud": baud, "retry_ms": [retry_ms, retry_max], "failed_opens": fails, "requests": n}));
}

// ---------------------------------------------------------------------------
// C18: TLS client configuration through the C ABI

pub fn run_client_tls(_cfg: &ScenCfg, out: &mut RunOut) {
    use super::tls::{fixture, peer_server_config};
    use simtokio::io::{AsyncReadExt, AsyncWriteExt};
    use simtokio::net::TcpListener;
    let chunk = chance(1, 2);
    kernel::with(|w| {
        w.cfg.chunk_reads = chunk;
        w.cfg.short_writes = chunk;
    });
    let dec_idx = choose(36) as u8;
    let min13 = choose(2) == 1;
    let self_signed = choose(2) == 1;
    let peer_v = choose(3);
    // which certificate the server presents, and which name the client is told to expect
    let (srv_cert, srv_key, trust, local_cert, local_key): (&str, &str, &str, &str, &str) = if self_signed {
        match choose(2) {
            0 => ("ss_a_cert.pem", "ss_a_key.pem", "ss_a_cert.pem", "ss_b_cert.pem", "ss_b_key.pem"),
            _ => ("ss_c_cert.pem", "ss_c_key.pem", "ss_a_cert.pem", "ss_b_cert.pem", "ss_b_key.pem"),
        }
    } else {
        match choose(3) {
            0 => ("srv_ok_cert.pem", "srv_ok_key.pem", "ca1_cert.pem", "cli_operator_cert.pem", "cli_operator_key.pem"),
            1 => ("srv_wrongname_cert.pem", "srv_wrongname_key.pem", "ca1_cert.pem", "cli_operator_cert.pem", "cli_operator_key.pem"),
            _ => ("srv_wrongca_cert.pem", "srv_wrongca_key.pem", "ca1_cert.pem", "cli_operator_cert.pem", "cli_operator_key.pem"),
        }
    };
    let (dns_name, wildcard_flag) = match choose(4) {
        0 => ("test.com", false),
        1 => ("other.example", false),
        2 => ("*", true),
        _ => ("*", false),
    };
    // expected admission (written from the documented meaning of the fields)
    let cert_ok = if self_signed {
        srv_cert == "ss_a_cert.pem"
    } else {
        let chain_ok = srv_cert != "srv_wrongca_cert.pem";
        let cert_names: &[&str] = if srv_cert == "srv_wrongname_cert.pem" { &["other.example"] } else { &["test.com"] };
        let name_ok = if dns_name == "*" && wildcard_flag { true } else { cert_names.contains(&dns_name) };
        chain_ok && name_ok
    };
    let version_ok = !min13 || peer_v != 0;
    let admitted = cert_ok && version_ok;
    let mut rt = FfiRuntime::new();
    let addr: SocketAddr = "10.0.0.7:802".parse().unwrap();
    let listener = TcpListener::bind_now(addr).unwrap();
    let scfg = peer_server_config(peer_v, srv_cert, srv_key);
    let got_req = Arc::new(Mutex::new(Vec::<u8>::new()));
    {
        let got_req = got_req.clone();
        simtokio::task::spawn_named("tls-peer-server", async move {
            let (tcp, _) = match listener.accept().await {
                Ok(x) => x,
                Err(_) => return,
            };
            let acceptor = tokio_rustls::TlsAcceptor::from(scfg);
            let mut stream = match acceptor.accept(tcp).await {
                Ok(s) => s,
                Err(_) => return,
            };
            let mut buf = [0u8; 64];
            if let Ok(Ok(n)) = simtokio::time::timeout(std::time::Duration::from_secs(3), stream.read(&mut buf)).await {
                got_req.lock().unwrap().extend_from_slice(&buf[..n]);
                if n >= 12 {
                    let tx = ((buf[0] as u16) << 8) | buf[1] as u16;
                    let _ = stream.write_all(&mbap_frame(tx, 1, &[3, 2, 0xBE, 0xEF])).await;
                }
            }
            simtokio::time::sleep(std::time::Duration::from_secs(5)).await;
        });
    }
    let cs = |s: &str| CString::new(s).unwrap();
    let (c_dns, c_peer, c_local, c_key, c_pw) = (
        cs(dns_name),
        cs(fixture(trust).to_str().unwrap()),
        cs(fixture(local_cert).to_str().unwrap()),
        cs(fixture(local_key).to_str().unwrap()),
        cs(""),
    );
    let tls = ffi::TlsClientConfig {
        dns_name: c_dns.as_ptr(),
        peer_cert_path: c_peer.as_ptr(),
        local_cert_path: c_local.as_ptr(),
        private_key_path: c_key.as_ptr(),
        password: c_pw.as_ptr(),
        min_tls_version: if min13 { 1 } else { 0 },
        certificate_mode: if self_signed { 1 } else { 0 },
        allow_server_name_wildcard: wildcard_flag,
    };
    let states: Arc<Mutex<StateLog>> = Arc::new(Mutex::new(StateLog::default()));
    let lst = ffi::ClientStateListener {
        on_change: Some(st_change),
        on_destroy: Some(st_destroy),
        ctx: Arc::into_raw(states.clone()) as *mut c_void,
    };
    let host = cs("10.0.0.7");
    let mut ch: *mut rodbus_ffi::ClientChannel = std::ptr::null_mut();
    let rc = unsafe {
        ffi::rodbus_client_channel_create_tls(rt.ptr, host.as_ptr(), 802, 4, ffi::RetryStrategy { min_delay: 30_000, max_delay: 30_000 }, tls, ffi_decode(dec_idx), lst, &mut ch)
    };
    let desc = format!(
        "C ABI TLS client: mode={} min={} dns_name={:?} allow_wildcard={} server_cert={} peer_versions={}",
        if self_signed { "self-signed" } else { "authority" },
        if min13 { "1.3" } else { "1.2" },
        dns_name,
        wildcard_flag,
        srv_cert,
        ["1.2", "1.3", "1.2+1.3"][peer_v as usize]
    );
    if rc != 0 {
        // "*" without the wildcard flag is not a usable DNS name: refusing the configuration is fine
        if !(dns_name == "*" && !wildcard_flag && !self_signed) {
            out.violate("C18", "tls_client_create", format!("{}: create_tls returned {}", desc, rc));
        }
        out.nontrivial = Some(0xFF ^ (min13 as u64) << 9);
        return;
    }
    kernel::settle();
    unsafe { ffi::rodbus_client_channel_enable(ch) };
    kernel::run_until(|| false, 500 * MS, 200_000);
    let ctx: Ctx = Arc::new(Mutex::new(CbLog::default()));
    let _ = ffi_submit(ch, &Req::ReadHolding { start: 0, count: 1 }, 1, 1000, &ctx);
    kernel::run_until(|| false, kernel::now_ns() + 2_000 * MS, 200_000);
    let st: Vec<c_int> = states.lock().unwrap().states.iter().map(|s| s.1).collect();
    let connected = st.contains(&2);
    let served = ctx.lock().unwrap().outcomes.first().map(|o| o.1 == CbOutcome::Regs(vec![(0, 0xBEEF)])).unwrap_or(false);
    // "*" without the flag in authority mode means: expect the literal name "*" (never matches)
    if admitted != (connected && served) {
        out.violate(
            "C18",
            "tls_client_config_not_forwarded",
            format!("{}: expected admitted={} but listener states {:?}, request outcome {:?}", desc, admitted, st, ctx.lock().unwrap().outcomes),
        );
        out.violate("C09", "tls_client_config_not_forwarded", desc.clone());
    }
    out.probe(if admitted { "ffi_tls_admitted" } else { "ffi_tls_refused" });
    out.ops_checked = 1;
    out.nontrivial = Some((min13 as u64) | (self_signed as u64) << 1 | (peer_v as u64) << 2 | (wildcard_flag as u64) << 4 | (dns_name.len() as u64) << 5 | (srv_cert.len() as u64) << 12 | (dec_idx as u64) << 20 | (chunk as u64) << 30);
    out.sample = Some(json!({"scenario": desc, "admitted_expected": admitted, "states": st}));
    rt.destroy();
    kernel::settle();
    unsafe { ffi::rodbus_client_channel_destroy(ch) };
    kernel::settle();
}

// ---------------------------------------------------------------------------
// C08 / C09 / C18 through the C ABI: a TLS server created with
// `rodbus_server_create_tls_with_authz`, whose authorization callbacks record the
// role string they are handed and decide by it. A history of TLS sessions with
// different role certificates follows; every callback of every session must see
// exactly the role of that session's certificate, and the reply must follow the
// callback's decision.

#[derive(Default)]
struct AzLog {
    /// (kind, unit, a, b, role bytes as passed, allowed)
    calls: Vec<(&'static str, u8, u16, u16, Vec<u8>, bool)>,
    allow_role: Vec<u8>,
}

unsafe fn az_record(kind: &'static str, u: u8, a: u16, b: u16, role: *const std::os::raw::c_char, c: *mut c_void) -> c_int {
    let m = &*(c as *const Mutex<AzLog>);
    let mut g = m.lock().unwrap();
    let r = if role.is_null() { Vec::new() } else { std::ffi::CStr::from_ptr(role).to_bytes().to_vec() };
    let ok = r == g.allow_role;
    g.calls.push((kind, u, a, b, r, ok));
    if ok {
        0
    } else {
        1
    }
}
extern "C" fn azl_read(u: u8, r: ffi::AddressRange, role: *const std::os::raw::c_char, c: *mut c_void) -> c_int {
    unsafe { az_record("read", u, r.start, r.count, role, c) }
}
extern "C" fn azl_write_range(u: u8, r: ffi::AddressRange, role: *const std::os::raw::c_char, c: *mut c_void) -> c_int {
    unsafe { az_record("write_range", u, r.start, r.count, role, c) }
}
extern "C" fn azl_index(u: u8, i: u16, role: *const std::os::raw::c_char, c: *mut c_void) -> c_int {
    unsafe { az_record("write_index", u, i, 1, role, c) }
}
extern "C" fn azl_destroy(c: *mut c_void) {
    unsafe { drop(Arc::from_raw(c as *const Mutex<AzLog>)) };
}

pub fn run_server_tls_authz(_cfg: &ScenCfg, out: &mut RunOut) {
    use super::tls::{fixture, peer_client_config, ROLE_CERTS};
    use simtokio::io::{AsyncReadExt, AsyncWriteExt};
    use tokio_rustls::rustls::pki_types::ServerName;
    let chunk = chance(1, 2);
    let sched = chance(1, 2);
    kernel::with(|w| {
        w.cfg.sched_random = sched;
        w.cfg.select_random = sched;
        w.cfg.chunk_reads = chunk;
        w.cfg.short_writes = chunk;
    });
    let dec_idx = choose(36) as u8;
    let mut rt = FfiRuntime::new();
    let map = unsafe { ffi::rodbus_device_map_create() };
    let wh = Arc::new(Mutex::new(WhCtx::default()));
    let handler = ffi::WriteHandler {
        write_single_coil: Some(wh_coil),
        write_single_register: Some(wh_reg),
        write_multiple_coils: Some(wh_coils),
        write_multiple_registers: Some(wh_regs),
        on_destroy: Some(wh_destroy),
        ctx: Arc::into_raw(wh.clone()) as *mut c_void,
    };
    let (cb, _txc) = db_callback(vec![DbOp::Add(2, 9, 0x1234), DbOp::Add(0, 3, 1)]);
    unsafe { ffi::rodbus_device_map_add_endpoint(map, 1, handler, cb) };
    let filter = unsafe { ffi::rodbus_address_filter_any() };
    let long_role = "R".repeat(200);
    let real_role = |r: &str| -> Vec<u8> { if r == "LONG" { long_role.as_bytes().to_vec() } else { r.as_bytes().to_vec() } };
    // the role the application's callbacks allow
    let allow = real_role(ROLE_CERTS[choose(ROLE_CERTS.len() as u32) as usize].2);
    let azlog = Arc::new(Mutex::new(AzLog { calls: Vec::new(), allow_role: allow.clone() }));
    let az = ffi::AuthorizationHandler {
        read_coils: Some(azl_read),
        read_discrete_inputs: Some(azl_read),
        read_holding_registers: Some(azl_read),
        read_input_registers: Some(azl_read),
        write_single_coil: Some(azl_index),
        write_single_register: Some(azl_index),
        write_multiple_coils: Some(azl_write_range),
        write_multiple_registers: Some(azl_write_range),
        on_destroy: Some(azl_destroy),
        ctx: Arc::into_raw(azlog.clone()) as *mut c_void,
    };
    let host = CString::new("10.0.0.1").unwrap();
    let paths: Vec<CString> = ["ca1_cert.pem", "srv_ok_cert.pem", "srv_ok_key.pem"].iter().map(|f| CString::new(fixture(f).to_str().unwrap()).unwrap()).collect();
    let empty = CString::new("").unwrap();
    let tls = ffi::TlsServerConfig {
        peer_cert_path: paths[0].as_ptr(),
        local_cert_path: paths[1].as_ptr(),
        private_key_path: paths[2].as_ptr(),
        password: empty.as_ptr(),
        min_tls_version: 0,
        certificate_mode: 0,
    };
    let mut server: *mut rodbus_ffi::Server = std::ptr::null_mut();
    let rc = unsafe { ffi::rodbus_server_create_tls_with_authz(rt.ptr, host.as_ptr(), 802, filter, 8, map, tls, az, ffi_decode(dec_idx), &mut server) };
    unsafe {
        ffi::rodbus_device_map_destroy(map);
        ffi::rodbus_address_filter_destroy(filter);
    }
    if rc != 0 {
        out.violate("C18", "server_create", format!("rodbus_server_create_tls_with_authz returned {}", rc));
        return;
    }
    kernel::settle();
    let addr: SocketAddr = "10.0.0.1:802".parse().unwrap();
    let nsess = 1 + choose(4) as usize;
    let mut wl = dec_idx as u64;
    let mut trace: Vec<String> = Vec::new();
    'sessions: for s in 0..nsess {
        let (cert, key, role_name) = ROLE_CERTS[choose(ROLE_CERTS.len() as u32) as usize];
        let role = real_role(role_name);
        // a role with an interior NUL has no C-string form: the callbacks must not be shown
        // some other role in its place, so every request of such a session is denied unasked
        let representable = !role.contains(&0);
        let allowed = representable && role == allow;
        hash_bytes(&mut wl, cert.as_bytes());
        let pcfg = peer_client_config(choose(3), cert, key);
        // requests of this session: reads and writes
        let nreq = 1 + choose(3) as usize;
        let mut reqs: Vec<(u16, Vec<u8>, (&'static str, u16, u16))> = Vec::new();
        for k in 0..nreq {
            let tx = (s * 16 + k) as u16 + 1;
            let (pdu, call): (Vec<u8>, (&'static str, u16, u16)) = match choose(4) {
                0 => (vec![3, 0, 9, 0, 1], ("read", 9, 1)),
                1 => (vec![1, 0, 3, 0, 1], ("read", 3, 1)),
                2 => (vec![6, 0, 9, 0x12, 0x34], ("write_index", 9, 1)),
                _ => (vec![16, 0, 9, 0, 1, 2, 0x12, 0x34], ("write_range", 9, 1)),
            };
            hash_bytes(&mut wl, &pdu);
            reqs.push((tx, pdu, call));
        }
        let replies: Arc<Mutex<Vec<u8>>> = Arc::new(Mutex::new(Vec::new()));
        let status: Arc<Mutex<Option<bool>>> = Arc::new(Mutex::new(None));
        {
            let replies = replies.clone();
            let status = status.clone();
            let frames: Vec<Vec<u8>> = reqs.iter().map(|(tx, p, _)| mbap_frame(*tx, 1, p)).collect();
            simtokio::task::spawn_named("tls-peer-client", async move {
                let tcp = match simtokio::net::TcpStream::connect(addr).await {
                    Ok(t) => t,
                    Err(_) => {
                        *status.lock().unwrap() = Some(false);
                        return;
                    }
                };
                let connector = tokio_rustls::TlsConnector::from(pcfg);
                let mut stream = match connector.connect(ServerName::try_from("test.com").unwrap(), tcp).await {
                    Ok(s) => s,
                    Err(_) => {
                        *status.lock().unwrap() = Some(false);
                        return;
                    }
                };
                *status.lock().unwrap() = Some(true);
                for f in frames {
                    if stream.write_all(&f).await.is_err() {
                        return;
                    }
                    let mut buf = [0u8; 64];
                    match simtokio::time::timeout(std::time::Duration::from_secs(2), stream.read(&mut buf)).await {
                        Ok(Ok(n)) if n > 0 => replies.lock().unwrap().extend_from_slice(&buf[..n]),
                        _ => return,
                    }
                }
            });
        }
        let before = azlog.lock().unwrap().calls.len();
        kernel::run_until(|| false, 2_500 * 1_000_000, 300_000);
        let desc = format!("C ABI TLS server with authorization callbacks allowing role {:?}; session {} (after {:?}) with certificate {} (role {:?})", String::from_utf8_lossy(&allow), s, trace, cert, role_name);
        trace.push(cert.trim_end_matches("_cert.pem").trim_end_matches(".pem").to_string());
        if *status.lock().unwrap() != Some(true) {
            out.violate("C09", "valid_peer_refused", format!("{}: the TLS handshake failed", desc));
            break;
        }
        let calls: Vec<_> = azlog.lock().unwrap().calls[before..].to_vec();
        let got = replies.lock().unwrap().clone();
        let mut want = Vec::new();
        if !representable {
            out.probe("ffi_role_with_nul");
            if let Some(c) = calls.first() {
                let detail = format!("{}: the role cannot be passed as a C string, yet a callback was handed role {:?}", desc, String::from_utf8_lossy(&c.4));
                out.violate("C08", "ffi_role_not_from_certificate", detail.clone());
                out.violate("C18", "ffi_role_not_from_certificate", detail);
                break;
            }
        }
        for (i, (tx, pdu, call)) in reqs.iter().enumerate() {
            match calls.get(i) {
                _ if !representable => {}
                Some((kind, u, a, b, r, ok)) => {
                    if r != &role {
                        let detail = format!("{}: callback {} was handed role {:?}, the certificate says {:?}", desc, i, String::from_utf8_lossy(r), String::from_utf8_lossy(&role));
                        out.violate("C08", "ffi_role_not_from_certificate", detail.clone());
                        out.violate("C09", "ffi_role_not_from_certificate", detail.clone());
                        out.violate("C18", "ffi_role_not_from_certificate", detail);
                        break 'sessions;
                    }
                    if (*kind, *a, *b) != *call || *u != 1 || *ok != allowed {
                        let detail = format!("{}: callback {} was {:?}, expected {:?} on unit 1", desc, i, (kind, u, a, b, ok), (call, allowed));
                        out.violate("C08", "ffi_authorization_query", detail.clone());
                        out.violate("C18", "ffi_authorization_query", detail);
                        break 'sessions;
                    }
                }
                None => {
                    let detail = format!("{}: request {} caused no authorization callback (calls {:?})", desc, i, calls.len());
                    out.violate("C08", "ffi_authorization_not_asked", detail.clone());
                    out.violate("C18", "ffi_authorization_not_asked", detail);
                    break 'sessions;
                }
            }
            if allowed {
                let r: Vec<u8> = match pdu[0] {
                    3 => vec![3, 2, 0x12, 0x34],
                    1 => vec![1, 1, 1],
                    6 => pdu.clone(),
                    _ => vec![16, 0, 9, 0, 1],
                };
                want.extend(mbap_frame(*tx, 1, &r));
            } else {
                want.extend(mbap_frame(*tx, 1, &[pdu[0] | 0x80, 1]));
            }
            out.ops_checked += 1;
        }
        if representable && calls.len() != reqs.len() {
            out.violate("C08", "ffi_authorization_query", format!("{}: {} requests, {} authorization callbacks", desc, reqs.len(), calls.len()));
            break;
        }
        if got != want {
            let detail = format!("{}: replies {} expected {}", desc, hex(&got), hex(&want));
            out.violate("C08", "ffi_authz_reply", detail.clone());
            out.violate("C18", "ffi_authz_reply", detail);
            break;
        }
        if !allowed && !wh.lock().unwrap().seen.is_empty() {
            out.violate("C08", "denied_request_had_effect", format!("{}: write handler saw {:?}", desc, wh.lock().unwrap().seen));
            break;
        }
        wh.lock().unwrap().seen.clear();
        out.probe(if allowed { "ffi_authz_allowed_session" } else { "ffi_authz_denied_session" });
    }
    out.nontrivial = Some(wl ^ (nsess as u64) << 56);
    out.sample = Some(json!({"scenario": "C ABI TLS server with authorization callbacks, session history", "allowed_role": String::from_utf8_lossy(&allow), "sessions": trace}));
    out.observable.extend(format!("{:?}", azlog.lock().unwrap().calls).into_bytes());
    unsafe { ffi::rodbus_server_destroy(server) };
    kernel::settle();
    rt.destroy();
}
