//! C09 (and the TLS parts of C08 / C16): real rodbus TLS client/server tasks and
//! real rustls handshakes over the simulated TCP stream, against a bare
//! `tokio_rustls` peer configured directly with rustls (independent of rodbus's
//! own min-version mapping).

use super::common::*;
use crate::driver::{RunOut, ScenCfg};
use crate::model::frame::mbap_frame;
use crate::model::server::{Call, Policy, UnitMem};
use rodbus::client::*;
use rodbus::server::*;
use rodbus::*;
use serde_json::json;
use simtokio::io::{AsyncReadExt, AsyncWriteExt};
use simtokio::kernel::{self, chance, choose, weighted};
use simtokio::net::{self, TcpListener, TcpStream};
use std::net::SocketAddr;
use std::path::PathBuf;
use std::sync::{Arc, Mutex};
use std::time::Duration;
use tokio_rustls::rustls;
use tokio_rustls::rustls::pki_types::{CertificateDer, PrivateKeyDer, PrivatePkcs8KeyDer, ServerName, UnixTime};

const MS: u64 = 1_000_000;

pub fn fixture(name: &str) -> PathBuf {
    PathBuf::from(format!("{}/fixtures/tls/{}", crate::driver::verif_root(), name))
}

fn load_certs(name: &str) -> Vec<CertificateDer<'static>> {
    let bytes = std::fs::read(fixture(name)).unwrap_or_else(|e| panic!("fixture {}: {}", name, e));
    pem::parse_many(bytes)
        .expect("pem")
        .into_iter()
        .filter(|p| p.tag() == "CERTIFICATE")
        .map(|p| CertificateDer::from(p.into_contents()))
        .collect()
}

fn load_key(name: &str) -> PrivateKeyDer<'static> {
    let bytes = std::fs::read(fixture(name)).unwrap_or_else(|e| panic!("fixture {}: {}", name, e));
    let p = pem::parse_many(bytes).expect("pem").into_iter().find(|p| p.tag() == "PRIVATE KEY").expect("pkcs8 key");
    PrivateKeyDer::Pkcs8(PrivatePkcs8KeyDer::from(p.into_contents()))
}

fn provider() -> Arc<rustls::crypto::CryptoProvider> {
    Arc::new(rustls::crypto::ring::default_provider())
}

#[derive(Debug)]
struct AnyServerCert;
impl rustls::client::danger::ServerCertVerifier for AnyServerCert {
    fn verify_server_cert(
        &self,
        _e: &CertificateDer<'_>,
        _i: &[CertificateDer<'_>],
        _n: &ServerName<'_>,
        _o: &[u8],
        _now: UnixTime,
    ) -> Result<rustls::client::danger::ServerCertVerified, rustls::Error> {
        Ok(rustls::client::danger::ServerCertVerified::assertion())
    }
    fn verify_tls12_signature(
        &self,
        _m: &[u8],
        _c: &CertificateDer<'_>,
        _d: &rustls::DigitallySignedStruct,
    ) -> Result<rustls::client::danger::HandshakeSignatureValid, rustls::Error> {
        Ok(rustls::client::danger::HandshakeSignatureValid::assertion())
    }
    fn verify_tls13_signature(
        &self,
        _m: &[u8],
        _c: &CertificateDer<'_>,
        _d: &rustls::DigitallySignedStruct,
    ) -> Result<rustls::client::danger::HandshakeSignatureValid, rustls::Error> {
        Ok(rustls::client::danger::HandshakeSignatureValid::assertion())
    }
    fn supported_verify_schemes(&self) -> Vec<rustls::SignatureScheme> {
        provider().signature_verification_algorithms.supported_schemes()
    }
}

#[derive(Debug)]
struct AnyClientCert;
impl rustls::server::danger::ClientCertVerifier for AnyClientCert {
    fn root_hint_subjects(&self) -> &[rustls::DistinguishedName] {
        &[]
    }
    fn verify_client_cert(
        &self,
        _e: &CertificateDer<'_>,
        _i: &[CertificateDer<'_>],
        _now: UnixTime,
    ) -> Result<rustls::server::danger::ClientCertVerified, rustls::Error> {
        Ok(rustls::server::danger::ClientCertVerified::assertion())
    }
    fn verify_tls12_signature(
        &self,
        _m: &[u8],
        _c: &CertificateDer<'_>,
        _d: &rustls::DigitallySignedStruct,
    ) -> Result<rustls::client::danger::HandshakeSignatureValid, rustls::Error> {
        Ok(rustls::client::danger::HandshakeSignatureValid::assertion())
    }
    fn verify_tls13_signature(
        &self,
        _m: &[u8],
        _c: &CertificateDer<'_>,
        _d: &rustls::DigitallySignedStruct,
    ) -> Result<rustls::client::danger::HandshakeSignatureValid, rustls::Error> {
        Ok(rustls::client::danger::HandshakeSignatureValid::assertion())
    }
    fn supported_verify_schemes(&self) -> Vec<rustls::SignatureScheme> {
        provider().signature_verification_algorithms.supported_schemes()
    }
}

/// 0 = TLS 1.2 only, 1 = TLS 1.3 only, 2 = both
fn versions(v: u32) -> &'static [&'static rustls::SupportedProtocolVersion] {
    static V12: &[&rustls::SupportedProtocolVersion] = &[&rustls::version::TLS12];
    static V13: &[&rustls::SupportedProtocolVersion] = &[&rustls::version::TLS13];
    static BOTH: &[&rustls::SupportedProtocolVersion] = &[&rustls::version::TLS12, &rustls::version::TLS13];
    match v {
        0 => V12,
        1 => V13,
        _ => BOTH,
    }
}

pub fn peer_client_config(v: u32, cert: &str, key: &str) -> Arc<rustls::ClientConfig> {
    let cfg = rustls::ClientConfig::builder_with_provider(provider())
        .with_protocol_versions(versions(v))
        .expect("versions")
        .dangerous()
        .with_custom_certificate_verifier(Arc::new(AnyServerCert))
        .with_client_auth_cert(load_certs(cert), load_key(key))
        .expect("client cert");
    Arc::new(cfg)
}

pub fn peer_server_config(v: u32, cert: &str, key: &str) -> Arc<rustls::ServerConfig> {
    let cfg = rustls::ServerConfig::builder_with_provider(provider())
        .with_protocol_versions(versions(v))
        .expect("versions")
        .with_client_cert_verifier(Arc::new(AnyClientCert))
        .with_single_cert(load_certs(cert), load_key(key))
        .expect("server cert");
    Arc::new(cfg)
}

#[derive(Default, Debug, Clone)]
pub struct PeerResult {
    pub connected_tcp: bool,
    pub handshake_ok: Option<bool>,
    pub version: Option<u16>,
    pub app_bytes: Vec<u8>,
    pub closed: bool,
    pub error: String,
}

pub fn version_num(v: Option<rustls::ProtocolVersion>) -> Option<u16> {
    v.map(|x| match x {
        rustls::ProtocolVersion::TLSv1_2 => 12,
        rustls::ProtocolVersion::TLSv1_3 => 13,
        _ => 0,
    })
}

/// What certificate the peer presents
#[derive(Clone, Copy, Debug, PartialEq, Eq)]
pub enum PeerCert {
    Valid,
    WrongAuthority,
    WrongName,
    Expired,
    NotYetValid,
    RoleLess,
    OtherRole,
    /// valid leaf followed by the CA certificate in the presented chain
    ValidChainCa,
    /// valid leaf (role operator) followed by an unrelated certificate carrying another role
    ValidChainRogue,
    /// (client role) the server certificate is valid for the IP literal the client expects
    ValidIpName,
    /// (client role) the client expects an IP literal the certificate is not valid for
    WrongIpName,
}

const ROLE_POLICY_ROLE: &str = "operator";

/// rodbus as TLS server; variant bit 0: authz
pub fn run_server_grid(cfg: &ScenCfg, out: &mut RunOut) {
    let sched = chance(1, 2);
    let chunk = chance(1, 2);
    let short = chance(1, 2);
    let lat = if cfg.faults && chance(1, 2) { 2 * MS } else { 0 };
    kernel::with(|w| {
        w.cfg.sched_random = sched;
        w.cfg.select_random = sched;
        w.cfg.chunk_reads = chunk;
        w.cfg.short_writes = short;
        w.cfg.max_latency_ns = lat;
    });
    let (dec_idx, decode) = pick_decode(&cfg.decode);
    let min13 = choose(2) == 1;
    let self_signed = choose(2) == 1;
    let authz = choose(2) == 1;
    let peer_v = choose(3);
    let pc = if self_signed {
        [PeerCert::Valid, PeerCert::WrongAuthority, PeerCert::Expired, PeerCert::NotYetValid, PeerCert::RoleLess, PeerCert::OtherRole][choose(6) as usize]
    } else {
        [PeerCert::Valid, PeerCert::WrongAuthority, PeerCert::Expired, PeerCert::NotYetValid, PeerCert::RoleLess, PeerCert::OtherRole, PeerCert::ValidChainCa, PeerCert::ValidChainRogue][choose(8) as usize]
    };
    // what the rodbus server trusts, and what the peer presents
    let (trust, local_cert, local_key, peer_cert, peer_key, peer_role): (&str, &str, &str, &str, &str, Option<&str>) = if self_signed {
        // the server expects exactly one client certificate
        match pc {
            PeerCert::Valid => ("ss_b_cert.pem", "ss_a_cert.pem", "ss_a_key.pem", "ss_b_cert.pem", "ss_b_key.pem", Some("viewer")),
            PeerCert::WrongAuthority => ("ss_b_cert.pem", "ss_a_cert.pem", "ss_a_key.pem", "ss_c_cert.pem", "ss_c_key.pem", Some("operator")),
            PeerCert::Expired => ("ss_expired_cert.pem", "ss_a_cert.pem", "ss_a_key.pem", "ss_expired_cert.pem", "ss_expired_key.pem", Some("operator")),
            PeerCert::NotYetValid => ("ss_future_cert.pem", "ss_a_cert.pem", "ss_a_key.pem", "ss_future_cert.pem", "ss_future_key.pem", Some("operator")),
            PeerCert::RoleLess => ("ss_norole_cert.pem", "ss_a_cert.pem", "ss_a_key.pem", "ss_norole_cert.pem", "ss_norole_key.pem", None),
            _ => ("ss_c_cert.pem", "ss_a_cert.pem", "ss_a_key.pem", "ss_c_cert.pem", "ss_c_key.pem", Some("operator")),
        }
    } else {
        match pc {
            PeerCert::Valid => ("ca1_cert.pem", "srv_ok_cert.pem", "srv_ok_key.pem", "cli_operator_cert.pem", "cli_operator_key.pem", Some("operator")),
            PeerCert::WrongAuthority => ("ca1_cert.pem", "srv_ok_cert.pem", "srv_ok_key.pem", "cli_wrongca_cert.pem", "cli_wrongca_key.pem", Some("operator")),
            PeerCert::Expired => ("ca1_cert.pem", "srv_ok_cert.pem", "srv_ok_key.pem", "cli_expired_cert.pem", "cli_expired_key.pem", Some("operator")),
            PeerCert::NotYetValid => ("ca1_cert.pem", "srv_ok_cert.pem", "srv_ok_key.pem", "cli_future_cert.pem", "cli_future_key.pem", Some("operator")),
            PeerCert::RoleLess => ("ca1_cert.pem", "srv_ok_cert.pem", "srv_ok_key.pem", "cli_norole_cert.pem", "cli_norole_key.pem", None),
            PeerCert::ValidChainCa => ("ca1_cert.pem", "srv_ok_cert.pem", "srv_ok_key.pem", "cli_operator_chain_ca.pem", "cli_operator_key.pem", Some("operator")),
            PeerCert::ValidChainRogue => ("ca1_cert.pem", "srv_ok_cert.pem", "srv_ok_key.pem", "cli_operator_chain_rogue.pem", "cli_operator_key.pem", Some("operator")),
            _ => ("ca1_cert.pem", "srv_ok_cert.pem", "srv_ok_key.pem", "cli_viewer_cert.pem", "cli_viewer_key.pem", Some("viewer")),
        }
    };
    let cert_ok = matches!(pc, PeerCert::Valid | PeerCert::RoleLess | PeerCert::OtherRole | PeerCert::ValidChainCa | PeerCert::ValidChainRogue);
    let version_ok = if min13 { peer_v != 0 } else { true };
    let role_ok = !authz || peer_role.is_some();
    let admitted = cert_ok && version_ok && role_ok;

    let tls = match TlsServerConfig::new(
        &fixture(trust),
        &fixture(local_cert),
        &fixture(local_key),
        None,
        if min13 { MinTlsVersion::V1_3 } else { MinTlsVersion::V1_2 },
        if self_signed { CertificateMode::SelfSigned } else { CertificateMode::AuthorityBased },
    ) {
        Ok(t) => t,
        Err(e) => {
            out.violate("C09", "server_config_rejected", format!("TlsServerConfig::new failed for fixtures {} / {}: {}", trust, local_cert, e));
            return;
        }
    };
    let journal: Journal = Arc::new(Mutex::new(Vec::new()));
    let mem = UnitMem::new(0xC09);
    let handler = MemHandler {
        unit: 1,
        mem: mem.clone(),
        journal: journal.clone(),
    }
    .wrap();
    let map = ServerHandlerMap::single(UnitId::new(1), handler);
    let addr: SocketAddr = "10.0.0.1:802".parse().unwrap();
    let listener = TcpListener::bind_now(addr).unwrap();
    // policy: only the operator role may read
    let policy = Policy::Role(ROLE_POLICY_ROLE.to_string());
    let (handle, task) = if authz {
        let auth = Arc::new(PolicyAuth {
            policy: policy.clone(),
            journal: journal.clone(),
        });
        create_tls_server_task_with_authz(4, listener, map, auth, tls, AddressFilter::Any, decode)
    } else {
        create_tls_server_task(4, listener, map, tls, AddressFilter::Any, decode)
    };
    let task = simtokio::task::spawn_named("tls-server", task.run());
    kernel::settle();
    // the peer
    let result = Arc::new(Mutex::new(PeerResult::default()));
    let pcfg = peer_client_config(peer_v, peer_cert, peer_key);
    let request = mbap_frame(0x77, 1, &[3, 0, 9, 0, 1]);
    let fault = if cfg.faults { weighted(&[3, 1, 1]) } else { 0 };
    {
        let result = result.clone();
        let request = request.clone();
        simtokio::task::spawn_named("tls-peer-client", async move {
            let tcp = match TcpStream::connect(addr).await {
                Ok(t) => t,
                Err(e) => {
                    result.lock().unwrap().error = format!("tcp: {}", e);
                    return;
                }
            };
            result.lock().unwrap().connected_tcp = true;
            if fault == 1 {
                // plaintext Modbus instead of a ClientHello
                let mut tcp = tcp;
                let _ = tcp.write_all(&request).await;
                let mut buf = [0u8; 64];
                let n = simtokio::time::timeout(Duration::from_secs(2), tcp.read(&mut buf)).await;
                let mut r = result.lock().unwrap();
                r.handshake_ok = Some(false);
                if let Ok(Ok(n)) = n {
                    r.app_bytes.extend_from_slice(&buf[..n]);
                    r.closed = n == 0;
                }
                return;
            }
            let connector = tokio_rustls::TlsConnector::from(pcfg);
            let name = ServerName::try_from("test.com").unwrap();
            let hs = connector.connect(name, tcp).await;
            let mut stream = match hs {
                Err(e) => {
                    let mut r = result.lock().unwrap();
                    r.handshake_ok = Some(false);
                    r.error = format!("{}", e);
                    return;
                }
                Ok(s) => s,
            };
            {
                let mut r = result.lock().unwrap();
                r.handshake_ok = Some(true);
                r.version = version_num(stream.get_ref().1.protocol_version());
            }
            if stream.write_all(&request).await.is_err() {
                result.lock().unwrap().closed = true;
                return;
            }
            let mut buf = [0u8; 64];
            match simtokio::time::timeout(Duration::from_secs(2), stream.read(&mut buf)).await {
                Ok(Ok(0)) => result.lock().unwrap().closed = true,
                Ok(Ok(n)) => result.lock().unwrap().app_bytes.extend_from_slice(&buf[..n]),
                Ok(Err(e)) => {
                    let mut r = result.lock().unwrap();
                    r.closed = true;
                    r.error = format!("{}", e);
                }
                Err(_) => {}
            }
            // keep the stream until the director has looked
            simtokio::time::sleep(Duration::from_secs(5)).await;
        });
    }
    if fault == 2 {
        // the connection dies in the middle of the handshake
        kernel::run_until(|| kernel::with(|w| w.net.conns.len() >= 1 && w.net.conns[0].pipes[1].total_written > 0), 1_000 * MS, 20_000);
        kernel::with(|w| {
            if let Some(c) = w.net.conns.get_mut(0) {
                c.pipes[0].wr_closed = true;
                w.count("fault_eof");
            }
        });
    }
    kernel::run_until(|| false, 3_000 * MS, 200_000);
    let r = result.lock().unwrap().clone();
    let v = mem.read_reg(3, 9).unwrap();
    let allowed_by_policy = !authz || peer_role == Some(ROLE_POLICY_ROLE);
    let good_reply = mbap_frame(0x77, 1, &[3, 2, (v >> 8) as u8, v as u8]);
    let denied_reply = mbap_frame(0x77, 1, &[0x83, 1]);
    let j = journal.lock().unwrap().clone();
    let desc = format!(
        "server min={} mode={} authz={} peer_versions={} peer_cert={:?} fault={}",
        if min13 { "1.3" } else { "1.2" },
        if self_signed { "self-signed" } else { "authority" },
        authz,
        ["1.2", "1.3", "1.2+1.3"][peer_v as usize],
        pc,
        fault
    );
    let served = r.app_bytes == good_reply || r.app_bytes == denied_reply;
    if fault != 0 {
        // broken handshakes: nothing may be processed
        // a TLS alert in answer to garbage is not Modbus processing; a Modbus reply is
        let modbus_reply = r.app_bytes.len() >= 2 && r.app_bytes[0] == 0x00 && r.app_bytes[1] == 0x77;
        if modbus_reply || !j.is_empty() {
            out.violate("C09", "processed_without_handshake", format!("{}: bytes {} / calls {:?} although the handshake never completed", desc, hex(&r.app_bytes), j));
        }
        out.probe("broken_handshake");
    } else if admitted {
        out.probe("admitted");
        if !served {
            let key = if !min13 && peer_v == 1 { "min_1_2_refuses_tls13_only_peer" } else { "" };
            if !(key != "" && out.known("C09", key)) {
                out.violate("C09", "valid_peer_refused", format!("{}: a valid peer offering an acceptable version was not served (handshake_ok={:?} version={:?} bytes={} error={})", desc, r.handshake_ok, r.version, hex(&r.app_bytes), r.error));
            }
        } else {
            if let Some(ver) = r.version {
                if min13 && ver < 13 {
                    out.violate("C09", "below_minimum_version", format!("{}: negotiated TLS 1.{}", desc, ver - 10));
                }
            }
            let want = if allowed_by_policy { &good_reply } else { &denied_reply };
            if &r.app_bytes != want {
                out.violate("C08", "tls_authz_reply", format!("{}: reply {} expected {}", desc, hex(&r.app_bytes), hex(want)));
            }
            if authz {
                let role = peer_role.unwrap().to_string();
                let first = j.first().cloned();
                let want_call = (1u8, Call::Auth(3, 9, 1, role.clone(), allowed_by_policy));
                if first.as_ref() != Some(&want_call) {
                    out.violate("C09", "role_not_from_certificate", format!("{}: first journal entry {:?}, expected {:?}", desc, first, want_call));
                    out.violate("C08", "role_not_from_certificate", format!("{}: first journal entry {:?}, expected {:?}", desc, first, want_call));
                }
                if !allowed_by_policy && j.len() != 1 {
                    out.violate("C08", "denied_request_had_effect", format!("{}: journal {:?}", desc, j));
                }
            }
        }
    } else {
        out.probe("refused");
        if !r.app_bytes.is_empty() || !j.is_empty() {
            let key = if min13 && peer_v == 0 && cert_ok && role_ok { "min_1_3_accepts_tls12_peer" } else { "" };
            if !(key != "" && out.known("C09", key)) {
                let rule = if !cert_ok {
                    "invalid_certificate_admitted"
                } else if !version_ok {
                    "below_minimum_version"
                } else {
                    "role_less_certificate_admitted"
                };
                let d = format!("{}: the peer must be refused but received {} (version {:?}); journal {:?}", desc, hex(&r.app_bytes), r.version, j);
                out.violate("C09", rule, d.clone());
                if rule == "role_less_certificate_admitted" {
                    // requests were served without the authorization handler ever being asked
                    out.violate("C08", rule, d);
                }
            }
        }
    }
    out.ops_checked = 1;
    out.nontrivial = Some(
        (min13 as u64) | (self_signed as u64) << 1 | (authz as u64) << 2 | (peer_v as u64) << 3 | (pc as u64) << 5 | (fault as u64) << 9 | (chunk as u64) << 11 | (short as u64) << 12 | (dec_idx as u64) << 16,
    );
    out.sample = Some(json!({"scenario": "tls grid, rodbus as server", "cell": desc, "admitted_expected": admitted, "handshake_ok": r.handshake_ok, "version": r.version, "app_bytes": hex(&r.app_bytes)}));
    out.observable.extend(format!("{:?}{:?}{:?}", r.handshake_ok, r.version, r.app_bytes).into_bytes());
    {
        let mut fut = Box::pin(handle.shutdown());
        let _ = kernel::block_on(fut.as_mut());
    }
    kernel::settle();
    let _ = task;
}

/// rodbus as TLS client against a bare rustls server
pub fn run_client_grid(cfg: &ScenCfg, out: &mut RunOut) {
    let sched = chance(1, 2);
    let chunk = chance(1, 2);
    let short = chance(1, 2);
    let lat = if cfg.faults && chance(1, 2) { 2 * MS } else { 0 };
    kernel::with(|w| {
        w.cfg.sched_random = sched;
        w.cfg.select_random = sched;
        w.cfg.chunk_reads = chunk;
        w.cfg.short_writes = short;
        w.cfg.max_latency_ns = lat;
    });
    let (dec_idx, decode) = pick_decode(&cfg.decode);
    let min13 = choose(2) == 1;
    let self_signed = choose(2) == 1;
    let peer_v = choose(3);
    let pc = if self_signed {
        [PeerCert::Valid, PeerCert::WrongAuthority, PeerCert::WrongName, PeerCert::Expired, PeerCert::NotYetValid][choose(5) as usize]
    } else {
        [PeerCert::Valid, PeerCert::WrongAuthority, PeerCert::WrongName, PeerCert::Expired, PeerCert::NotYetValid, PeerCert::ValidIpName, PeerCert::WrongIpName][choose(7) as usize]
    };
    let (trust, local_cert, local_key, srv_cert, srv_key): (&str, &str, &str, &str, &str) = if self_signed {
        match pc {
            PeerCert::Valid | PeerCert::WrongName => ("ss_a_cert.pem", "ss_b_cert.pem", "ss_b_key.pem", "ss_a_cert.pem", "ss_a_key.pem"),
            PeerCert::WrongAuthority => ("ss_a_cert.pem", "ss_b_cert.pem", "ss_b_key.pem", "ss_c_cert.pem", "ss_c_key.pem"),
            PeerCert::Expired => ("ss_expired_cert.pem", "ss_b_cert.pem", "ss_b_key.pem", "ss_expired_cert.pem", "ss_expired_key.pem"),
            _ => ("ss_future_cert.pem", "ss_b_cert.pem", "ss_b_key.pem", "ss_future_cert.pem", "ss_future_key.pem"),
        }
    } else {
        match pc {
            PeerCert::Valid => ("ca1_cert.pem", "cli_operator_cert.pem", "cli_operator_key.pem", "srv_ok_cert.pem", "srv_ok_key.pem"),
            PeerCert::WrongAuthority => ("ca1_cert.pem", "cli_operator_cert.pem", "cli_operator_key.pem", "srv_wrongca_cert.pem", "srv_wrongca_key.pem"),
            PeerCert::WrongName => ("ca1_cert.pem", "cli_operator_cert.pem", "cli_operator_key.pem", "srv_wrongname_cert.pem", "srv_wrongname_key.pem"),
            PeerCert::Expired => ("ca1_cert.pem", "cli_operator_cert.pem", "cli_operator_key.pem", "srv_expired_cert.pem", "srv_expired_key.pem"),
            PeerCert::ValidIpName => ("ca1_cert.pem", "cli_operator_cert.pem", "cli_operator_key.pem", "srv_ip_cert.pem", "srv_ip_key.pem"),
            PeerCert::WrongIpName => ("ca1_cert.pem", "cli_operator_cert.pem", "cli_operator_key.pem", "srv_ok_cert.pem", "srv_ok_key.pem"),
            _ => ("ca1_cert.pem", "cli_operator_cert.pem", "cli_operator_key.pem", "srv_future_cert.pem", "srv_future_key.pem"),
        }
    };
    // self-signed mode does not check names (the whole certificate is compared)
    let cert_ok = match pc {
        PeerCert::Valid | PeerCert::ValidIpName => true,
        PeerCert::WrongName => self_signed,
        _ => false,
    };
    // the name the client expects: a DNS name, or the IP literal of the server
    let expected_name = if matches!(pc, PeerCert::ValidIpName | PeerCert::WrongIpName) { "10.0.0.7" } else { "test.com" };
    let version_ok = if min13 { peer_v != 0 } else { true };
    let admitted = cert_ok && version_ok;
    let min = if min13 { MinTlsVersion::V1_3 } else { MinTlsVersion::V1_2 };
    let tls = if self_signed {
        TlsClientConfig::self_signed(&fixture(trust), &fixture(local_cert), &fixture(local_key), None, min)
    } else {
        TlsClientConfig::full_pki(Some(expected_name.to_string()), &fixture(trust), &fixture(local_cert), &fixture(local_key), None, min)
    };
    let tls = match tls {
        Ok(t) => t,
        Err(e) => {
            out.violate("C09", "client_config_rejected", format!("TlsClientConfig failed for fixtures {} / {}: {}", trust, local_cert, e));
            return;
        }
    };
    let addr: SocketAddr = "10.0.0.7:802".parse().unwrap();
    let states: super::client::StateLog = Arc::new(Mutex::new(Vec::new()));
    let comps: super::client::Completions = Arc::new(Mutex::new(Vec::new()));
    // the name (or address) that is dialed is not the name that is verified: a third of the runs reach the server
    // through a host name that is neither the expected subject name nor - except on purpose - in the certificate
    let dialed: Option<&str> = match choose(6) {
        0 => Some("plc.example"),
        1 => Some("other.example"), // the name the wrong-name certificate is valid for
        _ => None,
    };
    let host = match dialed {
        Some(name) => {
            net::set_dns(name, Some(addr.ip()));
            HostAddr::dns(name.to_string(), addr.port())
        }
        None => HostAddr::ip(addr.ip(), addr.port()),
    };
    let (channel, task) = create_tls_client_task_with_options(
        host,
        doubling_retry_strategy(Duration::from_secs(30), Duration::from_secs(30)),
        tls,
        Some(Box::new(super::client::Listen { log: states.clone(), delay_ns: 0 })),
        ClientOptions::default().decode_level(decode),
    );
    let task = simtokio::task::spawn_named("tls-client", task.run());
    // the peer: a bare rustls server
    let result = Arc::new(Mutex::new(PeerResult::default()));
    let scfg = peer_server_config(peer_v, srv_cert, srv_key);
    let listener = TcpListener::bind_now(addr).unwrap();
    let fault = if cfg.faults { weighted(&[3, 1, 1]) } else { 0 };
    {
        let result = result.clone();
        simtokio::task::spawn_named("tls-peer-server", async move {
            let (tcp, _) = match listener.accept().await {
                Ok(x) => x,
                Err(_) => return,
            };
            result.lock().unwrap().connected_tcp = true;
            if fault == 1 {
                // garbage instead of a ServerHello
                let mut tcp = tcp;
                let _ = tcp.write_all(&[0x00, 0x01, 0x00, 0x00, 0x00, 0x05, 0x01, 0x03, 0x02, 0x00, 0x07]).await;
                simtokio::time::sleep(Duration::from_secs(5)).await;
                return;
            }
            if fault == 2 {
                drop(tcp);
                return;
            }
            let acceptor = tokio_rustls::TlsAcceptor::from(scfg);
            let mut stream = match acceptor.accept(tcp).await {
                Err(e) => {
                    let mut r = result.lock().unwrap();
                    r.handshake_ok = Some(false);
                    r.error = format!("{}", e);
                    return;
                }
                Ok(s) => s,
            };
            {
                let mut r = result.lock().unwrap();
                r.handshake_ok = Some(true);
                r.version = version_num(stream.get_ref().1.protocol_version());
            }
            let mut buf = [0u8; 64];
            match simtokio::time::timeout(Duration::from_secs(3), stream.read(&mut buf)).await {
                Ok(Ok(0)) => result.lock().unwrap().closed = true,
                Ok(Ok(n)) => {
                    result.lock().unwrap().app_bytes.extend_from_slice(&buf[..n]);
                    if n >= 12 {
                        let tx = ((buf[0] as u16) << 8) | buf[1] as u16;
                        let _ = stream.write_all(&mbap_frame(tx, 1, &[3, 2, 0x12, 0x34])).await;
                    }
                }
                Ok(Err(e)) => {
                    let mut r = result.lock().unwrap();
                    r.closed = true;
                    r.error = format!("{}", e);
                }
                Err(_) => {}
            }
            simtokio::time::sleep(Duration::from_secs(5)).await;
        });
    }
    kernel::settle();
    let _ = kernel::block_on(channel.enable());
    kernel::run_until(|| false, 500 * MS, 200_000);
    // a request: reaches the peer only over an established TLS session
    let req = crate::model::pdu::Req::ReadHolding { start: 0, count: 1 };
    super::client::submit(&channel, super::client::Style::Future, 0, &req, 1, 1000 * MS, &comps);
    kernel::run_until(|| false, 2_500 * MS, 200_000);
    let r = result.lock().unwrap().clone();
    let st = states.lock().unwrap().clone();
    let connected = st.iter().any(|(_, s)| *s == crate::model::client::MState::Connected);
    let comp = comps.lock().unwrap().clone();
    let desc = format!(
        "client min={} mode={} peer_versions={} server_cert={:?} fault={} dialed={}",
        if min13 { "1.3" } else { "1.2" },
        if self_signed { "self-signed" } else { "authority" },
        ["1.2", "1.3", "1.2+1.3"][peer_v as usize],
        pc,
        fault,
        dialed.unwrap_or("the IP address")
    );
    let want_req = mbap_frame(0, 1, &[3, 0, 0, 0, 1]);
    if fault != 0 {
        out.probe("broken_handshake");
        if connected || !r.app_bytes.is_empty() {
            out.violate("C09", "connected_without_handshake", format!("{}: listener {:?}, peer got {}", desc, st, hex(&r.app_bytes)));
        }
    } else if admitted {
        out.probe("admitted");
        let ok = connected && r.app_bytes == want_req && comp.len() == 1 && comp[0].2 == crate::model::client::Outcome::Ok(crate::model::pdu::ReplyData::Regs(vec![(0, 0x1234)]));
        if !ok {
            let key = if !min13 && peer_v == 1 { "min_1_2_refuses_tls13_only_peer" } else { "" };
            if !(key != "" && out.known("C09", key)) {
                out.violate("C09", "valid_peer_refused", format!("{}: a valid server offering an acceptable version was not used: listener {:?} peer_handshake={:?} peer_got={} completion={:?} err={}", desc, st, r.handshake_ok, hex(&r.app_bytes), comp, r.error));
            }
        } else if let Some(ver) = r.version {
            if min13 && ver < 13 {
                out.violate("C09", "below_minimum_version", format!("{}: negotiated TLS 1.{}", desc, ver - 10));
            }
        }
    } else {
        out.probe("refused");
        if connected || !r.app_bytes.is_empty() {
            let key = if min13 && peer_v == 0 && cert_ok { "min_1_3_accepts_tls12_peer" } else { "" };
            if !(key != "" && out.known("C09", key)) {
                let rule = if !cert_ok { "invalid_certificate_admitted" } else { "below_minimum_version" };
                out.violate("C09", rule, format!("{}: the server must be refused but listener {:?}, peer got {} (version {:?})", desc, st, hex(&r.app_bytes), r.version));
            }
        }
        // the request fails fast instead
        if comp.len() != 1 {
            out.violate("C10", "tls_request_not_completed", format!("{}: completion {:?}", desc, comp));
        }
    }
    out.ops_checked = 1;
    out.nontrivial = Some((1u64 << 40) | (min13 as u64) | (self_signed as u64) << 1 | (peer_v as u64) << 3 | (pc as u64) << 5 | (fault as u64) << 9 | (chunk as u64) << 11 | (short as u64) << 12 | (dec_idx as u64) << 16);
    out.sample = Some(json!({"scenario": "tls grid, rodbus as client", "cell": desc, "admitted_expected": admitted, "listener": format!("{:?}", st), "peer_version": r.version, "peer_got": hex(&r.app_bytes)}));
    out.observable.extend(format!("{:?}{:?}", st, comp).into_bytes());
    let _ = kernel::block_on(channel.shutdown());
    kernel::run_until(|| false, kernel::now_ns() + 100 * MS, 100_000);
    let _ = task;
}

// ---------------------------------------------------------------------------
// C08: authorization over real TLS sessions, model-based

pub const ROLE_CERTS: [(&str, &str, &str); 9] = [
    ("cli_operator_cert.pem", "cli_operator_key.pem", "operator"),
    ("cli_viewer_cert.pem", "cli_viewer_key.pem", "viewer"),
    ("cli_role_admin_cert.pem", "cli_role_admin_key.pem", "admin"),
    ("cli_role_long_cert.pem", "cli_role_long_key.pem", "LONG"),
    ("cli_role_utf8_cert.pem", "cli_role_utf8_key.pem", "rôle-ü"),
    ("cli_role_space_cert.pem", "cli_role_space_key.pem", "role with space"),
    ("cli_role_empty_cert.pem", "cli_role_empty_key.pem", ""),
    ("cli_operator_chain_ca.pem", "cli_operator_key.pem", "operator"),
    ("cli_role_nul_cert.pem", "cli_role_nul_key.pem", "operator\0x"),
];

fn gen_policy(role: &str, first: Option<(u8, u16, u16)>) -> Policy {
    match weighted(&[1, 1, 2, 4, 2, 1, 2]) {
        0 => Policy::AllowAll,
        1 => Policy::DenyAll,
        2 => Policy::BuiltinReadOnly,
        3 => Policy::Table(choose(1 << 20) as u64),
        4 => Policy::Role(if chance(1, 2) { role.to_string() } else { ["operator", "viewer", "admin", ""][choose(4) as usize].to_string() }),
        5 => Policy::DenyUnit([1u8, 2, 0, 17][choose(4) as usize]),
        _ => match first {
            Some((fc, s, c)) => Policy::OnlyExact(fc, s, c),
            None => Policy::Table(7),
        },
    }
}

/// C08: a TLS+authz server, a client certificate with some role, a sequence of
/// requests; replies and the interleaved authorization / point-handler journal
/// must equal the reference model with that policy and role.
pub fn run_authz_model(cfg: &ScenCfg, out: &mut RunOut) {
    use crate::model::pdu::{classify, Class};
    use crate::model::server::{Framing, RefServer};
    let sched = chance(1, 2);
    let chunk = chance(1, 2);
    kernel::with(|w| {
        w.cfg.sched_random = sched;
        w.cfg.select_random = sched;
        w.cfg.chunk_reads = chunk;
        w.cfg.short_writes = chunk;
    });
    let (dec_idx, decode) = pick_decode(&cfg.decode);
    let (cert, key, role) = ROLE_CERTS[choose(ROLE_CERTS.len() as u32) as usize];
    let long_role = "R".repeat(200);
    let role: &str = if role == "LONG" { &long_role } else { role };
    let units = super::server_tcp::gen_units();
    // the request script
    let n = 1 + choose(12) as usize;
    let mut frames: Vec<(u16, u8, Vec<u8>)> = Vec::new();
    let mut wl = dec_idx as u64;
    for i in 0..n {
        let pdu = match weighted(&[5, 2]) {
            0 => crate::model::pdu::encode_req(&gen_valid_req(true)),
            _ => gen_request_pdu(),
        };
        // repeat the previous request sometimes (an earlier allow must not carry over),
        // possibly with a different quantity on the same start address
        let pdu = if i > 0 && chance(1, 4) {
            let mut p = frames[i - 1].2.clone();
            if p.len() == 5 && chance(1, 2) {
                p[4] = p[4].wrapping_add(1 + choose(20) as u8);
            }
            p
        } else {
            pdu
        };
        let unit = if i > 0 && chance(1, 2) { frames[i - 1].1 } else { super::server_tcp::pick_dest(&units) };
        hash_bytes(&mut wl, &pdu[..pdu.len().min(6)]);
        frames.push((i as u16 * 3 + 1, unit, pdu));
    }
    let first = frames.iter().find_map(|(_, _, p)| match classify(p) {
        Class::Valid(r) => {
            let (s, c) = match &r {
                crate::model::pdu::Req::WriteCoil { addr, .. } | crate::model::pdu::Req::WriteReg { addr, .. } => (*addr, 0),
                _ => r.range(),
            };
            Some((r.fc(), s, c))
        }
        _ => None,
    });
    let policy = gen_policy(role, first);
    hash_bytes(&mut wl, format!("{:?}{}", policy, role).as_bytes());
    let tls = TlsServerConfig::new(
        &fixture("ca1_cert.pem"),
        &fixture("srv_ok_cert.pem"),
        &fixture("srv_ok_key.pem"),
        None,
        MinTlsVersion::V1_2,
        CertificateMode::AuthorityBased,
    )
    .expect("server config");
    let journal: Journal = Arc::new(Mutex::new(Vec::new()));
    let mut map = ServerHandlerMap::new();
    let mut handlers = std::collections::BTreeMap::new();
    for (u, mem) in &units {
        let h = MemHandler {
            unit: *u,
            mem: mem.clone(),
            journal: journal.clone(),
        }
        .wrap();
        map.add(UnitId::new(*u), h.clone());
        handlers.insert(*u, h);
    }
    let addr: SocketAddr = "10.0.0.1:802".parse().unwrap();
    let listener = TcpListener::bind_now(addr).unwrap();
    let auth: Arc<dyn AuthorizationHandler> = if policy == Policy::BuiltinReadOnly {
        ReadOnlyAuthorizationHandler::create()
    } else {
        Arc::new(PolicyAuth {
            policy: policy.clone(),
            journal: journal.clone(),
        })
    };
    let (handle, task) = create_tls_server_task_with_authz(4, listener, map, auth, tls, AddressFilter::Any, decode);
    let _task = simtokio::task::spawn_named("tls-server", task.run());
    kernel::settle();
    // model
    let mut model = RefServer {
        framing: Framing::Mbap,
        units: units.clone(),
        auth: Some((policy.clone(), role.to_string())),
    };
    let mut expected = Vec::new();
    let mut exps = Vec::new();
    for (tx, unit, pdu) in &frames {
        let mut ex = model.serve(*unit, pdu);
        if let Some(r) = &ex.reply {
            expected.extend(mbap_frame(*tx, *unit, r));
        }
        if policy == Policy::BuiltinReadOnly {
            ex.calls.retain(|(_, c)| !matches!(c, Call::Auth(..)));
        }
        exps.push(ex);
    }
    // the peer: handshake, then the requests in bursts of 1-3 frames per TLS record (requests behind a
    // denied or failing one are already buffered when it is answered); a burst may also be cut anywhere
    // into two records. The server works through them in order, so the journal order is the request order.
    let mut writes: Vec<(Vec<u8>, Option<usize>)> = Vec::new();
    {
        let mut i = 0;
        while i < frames.len() {
            let k = (1 + weighted(&[5, 3, 2]) as usize).min(frames.len() - i);
            let mut burst = Vec::new();
            for (tx, unit, pdu) in &frames[i..i + k] {
                burst.extend(mbap_frame(*tx, *unit, pdu));
            }
            if k > 1 {
                out.probe("tls_pipelined_burst");
            }
            let cut = if burst.len() > 8 && chance(1, 3) { Some(1 + choose(burst.len() as u32 - 1) as usize) } else { None };
            writes.push((burst, cut));
            i += k;
        }
    }
    // fault: the peer's receive window shrinks after the handshake and it does not read for a while after
    // each burst (the session is blocked writing replies - error replies included - for seconds)
    let stall: Option<(usize, u64)> = if chance(1, 4) { Some((1 + choose(40) as usize, [1u64, 6, 30][choose(3) as usize])) } else { None };
    if stall.is_some() {
        kernel::count("fault_peer_stall");
        out.probe("tls_peer_stalls_between_bursts");
    }
    let nbursts = writes.len() as u64;
    let got = Arc::new(Mutex::new((Vec::<u8>::new(), false, String::new())));
    {
        let got = got.clone();
        let pcfg = peer_client_config(2, cert, key);
        simtokio::task::spawn_named("tls-peer-client", async move {
            let tcp = match TcpStream::connect(addr).await {
                Ok(t) => t,
                Err(_) => return,
            };
            let connector = tokio_rustls::TlsConnector::from(pcfg);
            let mut stream = match connector.connect(ServerName::try_from("test.com").unwrap(), tcp).await {
                Ok(s) => s,
                Err(e) => {
                    got.lock().unwrap().2 = format!("{}", e);
                    return;
                }
            };
            got.lock().unwrap().1 = true;
            if let Some((cap, _)) = stall {
                kernel::with(|w| {
                    if let Some(c) = w.net.conns.get_mut(0) {
                        c.pipes[1].capacity = cap;
                    }
                });
            }
            for (f, cut) in writes.into_iter() {
                let ok = match cut {
                    Some(cut) => stream.write_all(&f[..cut]).await.is_ok() && stream.flush().await.is_ok() && stream.write_all(&f[cut..]).await.is_ok(),
                    None => stream.write_all(&f).await.is_ok(),
                };
                if !ok {
                    return;
                }
                if let Some((_, secs)) = stall {
                    simtokio::time::sleep(Duration::from_secs(secs)).await;
                }
                let mut buf = [0u8; 300];
                // collect whatever comes back within 20 ms of virtual time
                loop {
                    match simtokio::time::timeout(Duration::from_millis(20), stream.read(&mut buf)).await {
                        Ok(Ok(0)) | Ok(Err(_)) => return,
                        Ok(Ok(n)) => got.lock().unwrap().0.extend_from_slice(&buf[..n]),
                        Err(_) => break,
                    }
                }
            }
            simtokio::time::sleep(Duration::from_secs(1)).await;
        });
    }
    kernel::run_until(|| false, (n as u64 + 2) * 40 * MS + 500 * MS + stall.map(|(_, s)| s * 1000 * MS * (nbursts + 1)).unwrap_or(0), 400_000);
    let (bytes, hs, err) = got.lock().unwrap().clone();
    let desc = format!("role={:?} policy={:?} units={:?}{}", role.chars().take(12).collect::<String>(), policy, units.keys().collect::<Vec<_>>(), stall.map(|(c, s)| format!(" peer window {} bytes, silent {} s after each burst", c, s)).unwrap_or_default());
    if !hs {
        out.violate("C09", "valid_peer_refused", format!("{}: handshake failed: {}", desc, err));
        return;
    }
    if bytes != expected {
        // find the first frame whose reply differs
        let classes: Vec<String> = frames.iter().zip(exps.iter()).map(|((_, u, p), e)| format!("unit={} {} pdu={}", u, e.class, hex(&p[..p.len().min(8)]))).collect();
        let denied = exps.iter().any(|e| e.class == "denied");
        out.violate(
            "C08",
            if denied { "reply_stream/with_denied" } else { "reply_stream/all_allowed" },
            format!("{}: replies {} expected {}; frames {:?}", desc, hex(&bytes[..bytes.len().min(60)]), hex(&expected[..expected.len().min(60)]), classes),
        );
    } else {
        let j = journal.lock().unwrap().clone();
        if let Err(e) = super::server_tcp::check_journal(&j, &exps, out) {
            out.violate("C08", "journal", format!("{}: {} (journal {:?})", desc, e, &j[..j.len().min(8)]));
            out.violate("C02", "journal_with_authorization", format!("{}: {}", desc, e));
        }
        for (u, h) in &handlers {
            let g = h.lock().unwrap();
            let m = &model.units[u];
            if g.mem.coils != m.coils || g.mem.holding != m.holding {
                out.violate("C08", "denied_request_changed_state", format!("{}: unit {} memory differs from the model", desc, u));
            }
        }
    }
    out.probe_n("denied", exps.iter().filter(|e| e.class == "denied").count() as u64);
    out.probe_n("allowed_valid", exps.iter().filter(|e| e.class == "valid" || e.class == "unconfigured").count() as u64);
    out.ops_checked = n as u64;
    out.nontrivial = Some(wl);
    out.sample = Some(json!({"scenario": "authorization over TLS vs reference model", "role": role.chars().take(16).collect::<String>(), "policy": format!("{:?}", policy),
        "frames": frames.iter().zip(exps.iter()).take(6).map(|((_, u, p), e)| json!({"unit": u, "pdu": hex(&p[..p.len().min(12)]), "class": e.class})).collect::<Vec<_>>()}));
    out.observable.extend_from_slice(&bytes);
    {
        let mut fut = Box::pin(handle.shutdown());
        let _ = kernel::block_on(fut.as_mut());
    }
    kernel::settle();
}

// ---------------------------------------------------------------------------
// C16 (Rust API, TLS and TLS+authz): the filter is applied before any TLS byte

/// variant 0: TLS, 1: TLS + authorization handler
pub fn run_filter_tls(cfg: &ScenCfg, out: &mut RunOut) {
    use super::sessions::{gen_filter, gen_peer_ip_pub};
    let sched = chance(1, 2);
    kernel::with(|w| {
        w.cfg.sched_random = sched;
        w.cfg.select_random = sched;
    });
    let (dec_idx, decode) = pick_decode(&cfg.decode);
    let (spec, base) = gen_filter();
    let tls = TlsServerConfig::new(
        &fixture("ca1_cert.pem"),
        &fixture("srv_ok_cert.pem"),
        &fixture("srv_ok_key.pem"),
        None,
        MinTlsVersion::V1_2,
        CertificateMode::AuthorityBased,
    )
    .expect("server config");
    let journal: Journal = Arc::new(Mutex::new(Vec::new()));
    let mem = UnitMem::new(0xC16);
    let handler = MemHandler {
        unit: 1,
        mem: mem.clone(),
        journal: journal.clone(),
    }
    .wrap();
    let map = ServerHandlerMap::single(UnitId::new(1), handler);
    let addr: SocketAddr = "10.0.0.1:802".parse().unwrap();
    let listener = TcpListener::bind_now(addr).unwrap();
    let (handle, task) = if cfg.variant == 1 {
        let auth = Arc::new(PolicyAuth {
            policy: Policy::AllowAll,
            journal: journal.clone(),
        });
        create_tls_server_task_with_authz(8, listener, map, auth, tls, spec.to_rodbus(), decode)
    } else {
        create_tls_server_task(8, listener, map, tls, spec.to_rodbus(), decode)
    };
    let _task = simtokio::task::spawn_named("tls-server", task.run());
    kernel::settle();
    let mut wl = dec_idx as u64 | (cfg.variant as u64) << 8;
    hash_bytes(&mut wl, format!("{:?}", spec).as_bytes());
    let n = 1 + choose(4) as usize;
    let v = mem.read_reg(4, 2).unwrap();
    let request = mbap_frame(0x16, 1, &[4, 0, 2, 0, 1]);
    let good = mbap_frame(0x16, 1, &[4, 2, (v >> 8) as u8, v as u8]);
    let mut samples = Vec::new();
    for _ in 0..n {
        let ip = gen_peer_ip_pub(base);
        hash_bytes(&mut wl, ip.to_string().as_bytes());
        let matches = spec.matches(ip);
        kernel::with(|w| w.net.client_ip = Some(ip));
        let result = Arc::new(Mutex::new(PeerResult::default()));
        let raw_bytes = Arc::new(Mutex::new(0u64));
        {
            let result = result.clone();
            let request = request.clone();
            let pcfg = peer_client_config(2, "cli_operator_cert.pem", "cli_operator_key.pem");
            simtokio::task::spawn_named("tls-peer-client", async move {
                let tcp = match TcpStream::connect(addr).await {
                    Ok(t) => t,
                    Err(_) => return,
                };
                result.lock().unwrap().connected_tcp = true;
                let connector = tokio_rustls::TlsConnector::from(pcfg);
                let mut stream = match connector.connect(ServerName::try_from("test.com").unwrap(), tcp).await {
                    Ok(s) => s,
                    Err(e) => {
                        let mut r = result.lock().unwrap();
                        r.handshake_ok = Some(false);
                        r.error = format!("{}", e);
                        return;
                    }
                };
                result.lock().unwrap().handshake_ok = Some(true);
                if stream.write_all(&request).await.is_err() {
                    return;
                }
                let mut buf = [0u8; 64];
                if let Ok(Ok(n)) = simtokio::time::timeout(Duration::from_secs(1), stream.read(&mut buf)).await {
                    result.lock().unwrap().app_bytes.extend_from_slice(&buf[..n]);
                }
                simtokio::time::sleep(Duration::from_secs(2)).await;
            });
        }
        let conns_before = kernel::with(|w| w.net.conns.len());
        kernel::run_until(|| false, kernel::now_ns() + 1_500 * MS, 200_000);
        // bytes the server wrote on this connection at the TCP level
        let server_bytes = kernel::with(|w| w.net.conns.get(conns_before).map(|c| c.pipes[1].total_written).unwrap_or(0));
        *raw_bytes.lock().unwrap() = server_bytes;
        let r = result.lock().unwrap().clone();
        if samples.len() < 4 {
            samples.push(json!({"peer": ip.to_string(), "matches": matches, "server_tcp_bytes": server_bytes, "handshake": r.handshake_ok}));
        }
        if matches {
            if r.app_bytes != good {
                out.violate("C16", "matching_peer_not_served", format!("tls variant {}, filter {:?}: peer {} matches but got handshake={:?} reply={} err={}", cfg.variant, spec, ip, r.handshake_ok, hex(&r.app_bytes), r.error));
                return;
            }
            out.probe("served");
        } else {
            if server_bytes != 0 || r.handshake_ok == Some(true) {
                out.violate("C16", "non_matching_peer_served", format!("tls variant {}, filter {:?}: peer {} does not match but the server sent {} bytes (handshake {:?})", cfg.variant, spec, ip, server_bytes, r.handshake_ok));
                return;
            }
            out.probe("rejected");
        }
        out.ops_checked += 1;
    }
    out.nontrivial = Some(wl);
    out.sample = Some(json!({"scenario": "address filter (Rust API, TLS)", "variant": cfg.variant, "filter": format!("{:?}", spec), "peers": samples}));
    {
        let mut fut = Box::pin(handle.shutdown());
        let _ = kernel::block_on(fut.as_mut());
    }
    kernel::settle();
}

// ---------------------------------------------------------------------------
// C07 / C15 on TLS: a peer that stalls in the middle of the handshake must not keep
// the task from honouring disable / shutdown, nor a server session from being closed.

/// variant 0: rodbus TLS client against a stalling server; 1: rodbus TLS server with a stalling client
pub fn run_handshake_stall(cfg: &ScenCfg, out: &mut RunOut) {
    let sched = chance(1, 2);
    let chunk = chance(1, 2);
    kernel::with(|w| {
        w.cfg.sched_random = sched;
        w.cfg.select_random = sched;
        w.cfg.chunk_reads = chunk;
    });
    let (dec_idx, decode) = pick_decode(&cfg.decode);
    // what the stalling peer sends before going silent
    let prefix: Vec<u8> = match choose(4) {
        0 => Vec::new(),
        1 => vec![0x16, 0x03, 0x03],                         // start of a handshake record header
        2 => vec![0x16, 0x03, 0x03, 0x00, 0x50, 0x02, 0x00], // record header + truncated body
        _ => (0..1 + choose(40)).map(|_| choose(256) as u8).collect(),
    };
    let stall_is_garbage = prefix.len() > 7 || (prefix.len() >= 1 && prefix[0] != 0x16);
    let mut wl = dec_idx as u64 | (cfg.variant as u64) << 8;
    hash_bytes(&mut wl, &prefix);
    if cfg.variant == 0 {
        let tls = TlsClientConfig::full_pki(
            Some("test.com".to_string()),
            &fixture("ca1_cert.pem"),
            &fixture("cli_operator_cert.pem"),
            &fixture("cli_operator_key.pem"),
            None,
            MinTlsVersion::V1_2,
        )
        .expect("client config");
        let addr: SocketAddr = "10.0.0.7:802".parse().unwrap();
        net::stub_listen(addr);
        let states: super::client::StateLog = Arc::new(Mutex::new(Vec::new()));
        let comps: super::client::Completions = Arc::new(Mutex::new(Vec::new()));
        let (channel, task) = create_tls_client_task_with_options(
            HostAddr::ip(addr.ip(), addr.port()),
            doubling_retry_strategy(Duration::from_secs(1), Duration::from_secs(1)),
            tls,
            Some(Box::new(super::client::Listen { log: states.clone(), delay_ns: 0 })),
            ClientOptions::default().decode_level(decode),
        );
        let task = simtokio::task::spawn_named("tls-client", task.run());
        kernel::settle();
        let _ = kernel::block_on(channel.enable());
        kernel::settle();
        let peer = match net::stub_accept(addr) {
            Some(p) => p,
            None => {
                out.violate("C13", "no_connection_established", "TLS client did not dial".into());
                return;
            }
        };
        // the peer reads the ClientHello, answers with the prefix, then stays silent and open
        let hello = peer.take_received();
        peer.write(&prefix);
        kernel::settle();
        kernel::advance(2_000 * MS);
        // a request made meanwhile must not hang forever (it is not connected)
        let req = crate::model::pdu::Req::ReadCoils { start: 0, count: 1 };
        super::client::submit(&channel, super::client::Style::Future, 0, &req, 1, 100 * MS, &comps);
        kernel::advance(1_000 * MS);
        let completed = comps.lock().unwrap().len();
        // shutdown must end the task
        let ch2 = channel.clone();
        simtokio::task::spawn_named("cmd", async move {
            let _ = ch2.shutdown().await;
        });
        kernel::advance(5_000 * MS);
        let finished = task.is_finished();
        let closed_by_client = peer.remote_closed();
        if !finished && !stall_is_garbage {
            if !out.known("C07", "tls_client_handshake_not_raced_against_commands") {
                out.violate(
                    "C07",
                    "tls_handshake_stall_blocks_shutdown",
                    format!("TLS client: the peer sent {} bytes of a handshake ({}) and went silent; 5 s after shutdown() the task is still running (request completed: {}, connection closed by client: {})", prefix.len(), hex(&prefix), completed, closed_by_client),
                );
            }
        } else if !finished && stall_is_garbage {
            out.violate("C07", "garbage_handshake_blocks_shutdown", format!("TLS client: garbage {} in place of a ServerHello; task still running 5 s after shutdown", hex(&prefix)));
        }
        if finished && completed != 1 {
            out.violate("C10", "request_lost_during_handshake", format!("a request submitted during the TLS handshake completed {} times", completed));
        }
        out.probe(if finished { "stall_client_shutdown_ok" } else { "stall_client_wedged" });
        out.sample = Some(json!({"scenario": "tls handshake stall (client)", "client_hello_bytes": hello.len(), "peer_prefix": hex(&prefix), "task_finished_after_shutdown": finished}));
        drop(peer);
    } else {
        let tls = TlsServerConfig::new(
            &fixture("ca1_cert.pem"),
            &fixture("srv_ok_cert.pem"),
            &fixture("srv_ok_key.pem"),
            None,
            MinTlsVersion::V1_2,
            CertificateMode::AuthorityBased,
        )
        .expect("server config");
        let journal: Journal = Arc::new(Mutex::new(Vec::new()));
        let handler = MemHandler {
            unit: 1,
            mem: UnitMem::new(1),
            journal: journal.clone(),
        }
        .wrap();
        let map = ServerHandlerMap::single(UnitId::new(1), handler);
        let addr: SocketAddr = "10.0.0.1:802".parse().unwrap();
        let listener = TcpListener::bind_now(addr).unwrap();
        let max_sessions = 1 + choose(2) as usize;
        let (handle, task) = create_tls_server_task(max_sessions, listener, map, tls, AddressFilter::Any, decode);
        let task = simtokio::task::spawn_named("tls-server", task.run());
        kernel::settle();
        // stalling clients
        let n = 1 + choose(3) as usize;
        let mut stalled = Vec::new();
        for i in 0..n {
            let p = net::connect_from(addr, format!("10.0.5.{}:{}", i + 1, 4000 + i).parse().unwrap()).unwrap();
            p.write(&prefix);
            kernel::settle();
            stalled.push(p);
        }
        kernel::advance(1_000 * MS);
        // a decode-level change reaches the sessions while they are still handshaking
        let mut handle = handle;
        if chance(1, 2) {
            let mut fut = Box::pin(handle.set_decode_level(decode_level(choose(36) as u8)));
            let _ = kernel::block_on(fut.as_mut());
            kernel::settle();
            out.probe("decode_change_during_handshake");
        }
        let evict_expected = n > max_sessions;
        // eviction: the oldest stalled sessions beyond the limit must be closed
        if evict_expected && !stall_is_garbage {
            let open = stalled.iter().filter(|p| !p.remote_closed()).count();
            if open > max_sessions && !out.known("C15", "tls_server_session_in_handshake_not_closed") {
                out.violate("C15", "stalled_handshake_sessions_exceed_limit", format!("{} connections stalled in the TLS handshake are still open, max_sessions={}", open, max_sessions));
            }
        }
        // shutdown closes every session, also those still in the handshake
        {
            let mut fut = Box::pin(handle.shutdown());
            let _ = kernel::block_on(fut.as_mut());
        }
        kernel::advance(5_000 * MS);
        let open = stalled.iter().filter(|p| !p.remote_closed()).count();
        if !task.is_finished() {
            out.violate("C15", "server_task_survives_shutdown", "TLS server task still running after shutdown".into());
        } else if open > 0 && !stall_is_garbage {
            if !out.known("C15", "tls_server_session_in_handshake_not_closed") {
                out.violate(
                    "C15",
                    "handshaking_session_survives_shutdown",
                    format!("TLS server: {} connection(s) stalled in the handshake (peer sent {}) are still open 5 s after the server was shut down", open, hex(&prefix)),
                );
                out.violate("C07", "handshaking_session_survives_shutdown", format!("{} stalled TLS sessions survive server shutdown", open));
            }
        }
        out.probe(if open == 0 { "stall_server_closed_all" } else { "stall_server_left_open" });
        out.sample = Some(json!({"scenario": "tls handshake stall (server)", "stalled_clients": n, "max_sessions": max_sessions, "peer_prefix": hex(&prefix), "open_after_shutdown": open}));
    }
    out.ops_checked = 1;
    out.nontrivial = Some(wl);
}

// ---------------------------------------------------------------------------
// C15 on a TLS server: established TLS sessions, failed handshakes and stalled
// handshakes all go through the session tracker

enum PeerCmd {
    Sentinel(u16),
    Close,
}

#[derive(Default)]
struct TlsPeerLog {
    handshake: Option<bool>,
    replies: Vec<Vec<u8>>,
    closed: bool,
}

enum Kind {
    Tls(simtokio::sync::mpsc::UnboundedSender<PeerCmd>, Arc<Mutex<TlsPeerLog>>),
    Raw(net::PeerEnd),
}

pub fn run_tls_sessions(cfg: &ScenCfg, out: &mut RunOut) {
    let sched = chance(1, 2);
    let chunk = chance(1, 2);
    kernel::with(|w| {
        w.cfg.sched_random = sched;
        w.cfg.select_random = sched;
        w.cfg.chunk_reads = chunk;
    });
    let (dec_idx, decode) = pick_decode(&cfg.decode);
    let tls = TlsServerConfig::new(
        &fixture("ca1_cert.pem"),
        &fixture("srv_ok_cert.pem"),
        &fixture("srv_ok_key.pem"),
        None,
        MinTlsVersion::V1_2,
        CertificateMode::AuthorityBased,
    )
    .expect("server config");
    let journal: Journal = Arc::new(Mutex::new(Vec::new()));
    let mem = UnitMem::new(0xC15);
    let handler = MemHandler { unit: 1, mem: mem.clone(), journal: journal.clone() }.wrap();
    let map = ServerHandlerMap::single(UnitId::new(1), handler);
    let addr: SocketAddr = "10.0.0.1:802".parse().unwrap();
    let listener = TcpListener::bind_now(addr).unwrap();
    // 0 is documented to mean 1
    let cfg_sessions = choose(4) as usize;
    let max_sessions = cfg_sessions.max(1);
    let (handle, task) = create_tls_server_task(cfg_sessions, listener, map, tls, AddressFilter::Any, decode);
    let task = simtokio::task::spawn_named("tls-server", task.run());
    kernel::settle();
    let mut conns: Vec<(usize, Kind)> = Vec::new();
    let mut live: Vec<usize> = Vec::new();
    let mut next_id = 0usize;
    let mut wl = dec_idx as u64 | (max_sessions as u64) << 8;
    let mut trace = Vec::new();
    let mut tx = 0u16;
    let mut server_up = true;
    let n = 4 + choose(12) as usize;
    for _ in 0..n {
        let kind = if server_up { weighted(&[5, 3, 2, 4, 2, 1]) } else { 0 };
        hash_bytes(&mut wl, &[kind as u8]);
        match kind {
            0 => {
                // a TLS client with a valid certificate
                let id = next_id;
                next_id += 1;
                let (ctx, mut crx) = simtokio::sync::mpsc::unbounded_channel::<PeerCmd>();
                let log = Arc::new(Mutex::new(TlsPeerLog::default()));
                let l2 = log.clone();
                let pcfg = peer_client_config(2, "cli_operator_cert.pem", "cli_operator_key.pem");
                kernel::with(|w| w.net.client_ip = Some(format!("10.0.6.{}", 1 + id % 200).parse().unwrap()));
                simtokio::task::spawn_named("tls-peer", async move {
                    let tcp = match TcpStream::connect(addr).await {
                        Ok(t) => t,
                        Err(_) => {
                            let mut l = l2.lock().unwrap();
                            l.handshake = Some(false);
                            l.closed = true;
                            return;
                        }
                    };
                    let connector = tokio_rustls::TlsConnector::from(pcfg);
                    let mut stream = match connector.connect(ServerName::try_from("test.com").unwrap(), tcp).await {
                        Ok(s) => s,
                        Err(_) => {
                            let mut l = l2.lock().unwrap();
                            l.handshake = Some(false);
                            l.closed = true;
                            return;
                        }
                    };
                    l2.lock().unwrap().handshake = Some(true);
                    let mut buf = [0u8; 128];
                    loop {
                        simtokio::select! {
                            c = crx.recv() => match c {
                                Some(PeerCmd::Sentinel(t)) => {
                                    if stream.write_all(&mbap_frame(t, 1, &[4, 0, 3, 0, 1])).await.is_err() {
                                        l2.lock().unwrap().closed = true;
                                        return;
                                    }
                                }
                                Some(PeerCmd::Close) | None => return,
                            },
                            r = stream.read(&mut buf) => match r {
                                Ok(0) | Err(_) => {
                                    l2.lock().unwrap().closed = true;
                                    return;
                                }
                                Ok(k) => l2.lock().unwrap().replies.push(buf[..k].to_vec()),
                            }
                        }
                    }
                });
                kernel::settle();
                if server_up {
                    if live.len() >= max_sessions {
                        live.remove(0);
                        out.probe("eviction");
                    }
                    live.push(id);
                }
                conns.push((id, Kind::Tls(ctx, log)));
                trace.push(format!("tls connect #{}", id));
            }
            1 => {
                // the handshake fails: garbage instead of a ClientHello; the slot must be released
                let id = next_id;
                next_id += 1;
                let p = net::connect_from(addr, format!("10.0.7.{}:{}", 1 + id % 200, 5000 + id).parse().unwrap());
                if let Some(p) = p {
                    // accepted at the limit like any other connection
                    if live.len() >= max_sessions {
                        live.remove(0);
                        out.probe("eviction");
                    }
                    p.write(&[0x47, 0x45, 0x54, 0x20, 0x2f, 0x20, 0x48, 0x54, 0x54, 0x50, 0x0d, 0x0a]);
                    kernel::settle();
                    conns.push((id, Kind::Raw(p)));
                    out.probe("failed_handshake");
                    trace.push(format!("garbage connect #{} (handshake fails)", id));
                }
            }
            2 => {
                // a silent peer: stays in the handshake and occupies a slot
                let id = next_id;
                next_id += 1;
                if let Some(p) = net::connect_from(addr, format!("10.0.8.{}:{}", 1 + id % 200, 6000 + id).parse().unwrap()) {
                    kernel::settle();
                    if live.len() >= max_sessions {
                        live.remove(0);
                        out.probe("eviction");
                    }
                    live.push(id);
                    conns.push((id, Kind::Raw(p)));
                    trace.push(format!("silent connect #{} (stalls in the handshake)", id));
                }
            }
            3 => {
                // sentinel over an established TLS session
                let tls_live: Vec<usize> = live.iter().copied().filter(|id| matches!(conns.iter().find(|c| c.0 == *id), Some((_, Kind::Tls(..))))).collect();
                if !tls_live.is_empty() {
                    let id = tls_live[choose(tls_live.len() as u32) as usize];
                    if let Some((_, Kind::Tls(ctx, log))) = conns.iter().find(|c| c.0 == id) {
                        tx = tx.wrapping_add(1);
                        let before = log.lock().unwrap().replies.len();
                        let _ = ctx.send(PeerCmd::Sentinel(tx));
                        kernel::settle();
                        let v = mem.read_reg(4, 3).unwrap();
                        let want = mbap_frame(tx, 1, &[4, 2, (v >> 8) as u8, v as u8]);
                        let got: Vec<u8> = log.lock().unwrap().replies[before..].concat();
                        if got != want {
                            let d = format!("TLS session {} (live per model {:?}, limit {}) answered {} expected {}", id, live, max_sessions, hex(&got), hex(&want));
                            out.violate("C15", "live_tls_session_not_served", d.clone());
                            out.violate("C01", "live_tls_session_not_served", d);
                            return;
                        }
                        out.ops_checked += 1;
                        trace.push(format!("request on #{}", id));
                    }
                }
            }
            4 => {
                // a live peer goes away
                if !live.is_empty() {
                    let pos = choose(live.len() as u32) as usize;
                    let id = live.remove(pos);
                    if let Some(i) = conns.iter().position(|c| c.0 == id) {
                        match &mut conns[i].1 {
                            Kind::Tls(ctx, _) => {
                                let _ = ctx.send(PeerCmd::Close);
                            }
                            Kind::Raw(p) => p.close(),
                        }
                    }
                    kernel::settle();
                    trace.push(format!("peer #{} closes", id));
                }
            }
            _ => {
                let mut fut = Box::pin(handle.shutdown());
                let _ = kernel::block_on(fut.as_mut());
                drop(fut);
                kernel::settle();
                server_up = false;
                live.clear();
                trace.push("shutdown".into());
            }
        }
        kernel::settle();
        // which connections are open from the peers' point of view?
        let mut open: Vec<usize> = Vec::new();
        for (id, k) in &conns {
            let is_open = match k {
                Kind::Tls(ctx, log) => {
                    let l = log.lock().unwrap();
                    !l.closed && l.handshake == Some(true) && !ctx.is_closed()
                }
                Kind::Raw(p) => !p.remote_closed() && !p.is_closed(),
            };
            if is_open {
                open.push(*id);
            }
        }
        let mut want = live.clone();
        want.sort();
        if open != want {
            let rule = if open.len() > want.len() { "tls_session_not_closed" } else { "tls_wrong_session_closed" };
            let d = format!("TLS server max_sessions={}: open connections {:?}, model expects {:?} (oldest first {:?}) after: {:?}", max_sessions, open, want, live, trace.last());
            out.violate("C15", rule, d.clone());
            // an established session that the server closed although it was below the limit and not the oldest:
            // whatever that peer sends from now on is not answered (C01: one reply per request)
            let established_lost = want.iter().any(|id| !open.contains(id) && matches!(conns.iter().find(|c| c.0 == *id), Some((_, Kind::Tls(..)))));
            if established_lost {
                out.violate("C01", "established_tls_session_closed_by_server", d);
            }
            return;
        }
        out.state((live.len() as u64) | (max_sessions as u64) << 4 | (server_up as u64) << 8);
    }
    if !server_up && !task.is_finished() {
        out.violate("C15", "server_task_survives_shutdown", "TLS server task still running after shutdown".into());
    }
    out.nontrivial = Some(wl);
    out.sample = Some(json!({"scenario": "tls server sessions", "max_sessions": max_sessions, "actions": trace.iter().take(20).collect::<Vec<_>>()}));
    if server_up {
        let mut fut = Box::pin(handle.shutdown());
        let _ = kernel::block_on(fut.as_mut());
    }
    kernel::settle();
}

// ---------------------------------------------------------------------------
// C09 / C08 over a history: several TLS listeners with different trust live in
// one process, and the same peers (each with one rustls client configuration,
// i.e. with its session store and resumption tickets) connect to them in an
// arbitrary order. Admission, negotiated access and the role passed to the
// authorization handler of every connection must be a function of the
// certificate that peer holds and of the listener's own configuration - never
// of what an earlier connection (to this or another listener) established.

struct HistListener {
    name: &'static str,
    addr: SocketAddr,
    authz: bool,
    min13: bool,
    /// identities this listener's trust settings accept
    accepts: &'static [usize],
    journal: Journal,
    mem: UnitMem,
    handle: ServerHandle,
}

/// (certificate, key, role in the certificate)
const IDENTITIES: [(&str, &str, Option<&str>); 6] = [
    ("cli_operator_cert.pem", "cli_operator_key.pem", Some("operator")),
    ("cli_viewer_cert.pem", "cli_viewer_key.pem", Some("viewer")),
    ("cli_wrongca_cert.pem", "cli_wrongca_key.pem", Some("operator")),
    ("cli_norole_cert.pem", "cli_norole_key.pem", None),
    ("ss_b_cert.pem", "ss_b_key.pem", Some("viewer")),
    ("ss_c_cert.pem", "ss_c_key.pem", Some("operator")),
];

pub fn run_server_history(cfg: &ScenCfg, out: &mut RunOut) {
    let sched = chance(1, 2);
    let chunk = chance(1, 2);
    let short = chance(1, 3);
    kernel::with(|w| {
        w.cfg.sched_random = sched;
        w.cfg.select_random = sched;
        w.cfg.chunk_reads = chunk;
        w.cfg.short_writes = short;
    });
    let (dec_idx, decode) = pick_decode(&cfg.decode);
    // the listeners of this process
    let specs: [(&'static str, &str, &str, &str, CertificateMode, &'static [usize]); 3] = [
        ("authority-ca1", "ca1_cert.pem", "srv_ok_cert.pem", "srv_ok_key.pem", CertificateMode::AuthorityBased, &[0, 1, 3]),
        ("authority-ca2", "ca2_cert.pem", "srv_wrongca_cert.pem", "srv_wrongca_key.pem", CertificateMode::AuthorityBased, &[2]),
        ("self-signed-b", "ss_b_cert.pem", "ss_a_cert.pem", "ss_a_key.pem", CertificateMode::SelfSigned, &[4]),
    ];
    let nl = 2 + choose(2) as usize;
    let mut listeners: Vec<HistListener> = Vec::new();
    let mut tasks = Vec::new();
    for (k, (name, trust, cert, key, mode, accepts)) in specs.iter().enumerate().take(nl) {
        let min13 = chance(1, 4);
        let authz = chance(1, 2);
        // at the session limit a new valid peer is still admitted (the oldest session makes room)
        let max_sessions = [1usize, 2, 8][choose(3) as usize];
        let tls = match TlsServerConfig::new(&fixture(trust), &fixture(cert), &fixture(key), None, if min13 { MinTlsVersion::V1_3 } else { MinTlsVersion::V1_2 }, *mode) {
            Ok(t) => t,
            Err(e) => {
                out.violate("C09", "server_config_rejected", format!("TlsServerConfig::new failed for listener {}: {}", name, e));
                return;
            }
        };
        let journal: Journal = Arc::new(Mutex::new(Vec::new()));
        let mem = UnitMem::new(0xC09 + k as u64);
        let handler = MemHandler { unit: 1, mem: mem.clone(), journal: journal.clone() }.wrap();
        let map = ServerHandlerMap::single(UnitId::new(1), handler);
        let addr: SocketAddr = format!("10.0.0.{}:802", 1 + k).parse().unwrap();
        let listener = TcpListener::bind_now(addr).unwrap();
        let (handle, task) = if authz {
            let auth = Arc::new(PolicyAuth { policy: Policy::Role(ROLE_POLICY_ROLE.to_string()), journal: journal.clone() });
            create_tls_server_task_with_authz(max_sessions, listener, map, auth, tls, AddressFilter::Any, decode)
        } else {
            create_tls_server_task(max_sessions, listener, map, tls, AddressFilter::Any, decode)
        };
        tasks.push(simtokio::task::spawn_named("tls-server", task.run()));
        listeners.push(HistListener { name, addr, authz, min13, accepts, journal, mem, handle });
    }
    kernel::settle();
    // one client configuration (with its session store) per identity, created at first use
    let mut configs: Vec<Option<(u32, Arc<rustls::ClientConfig>)>> = vec![None; IDENTITIES.len()];
    let nconn = 2 + choose(5) as usize;
    let mut wl = dec_idx as u64 | (nl as u64) << 8;
    let mut trace: Vec<String> = Vec::new();
    // bias towards the history that matters: the same identity on different listeners
    let focus = choose(IDENTITIES.len() as u32) as usize;
    for c in 0..nconn {
        let li = choose(nl as u32) as usize;
        let id = if chance(1, 2) { focus } else { choose(IDENTITIES.len() as u32) as usize };
        let (cert, key, role) = IDENTITIES[id];
        if configs[id].is_none() {
            let v = choose(3);
            configs[id] = Some((v, peer_client_config(v, cert, key)));
        }
        let (peer_v, pcfg) = configs[id].clone().unwrap();
        let l = &listeners[li];
        hash_bytes(&mut wl, &[li as u8, id as u8, peer_v as u8, l.authz as u8, l.min13 as u8]);
        let before = l.journal.lock().unwrap().len();
        let result = Arc::new(Mutex::new(PeerResult::default()));
        let resumed = Arc::new(Mutex::new(false));
        let tx = 0x100 + c as u16;
        let request = mbap_frame(tx, 1, &[3, 0, 9, 0, 1]);
        let keep_open = chance(1, 3);
        {
            let result = result.clone();
            let resumed = resumed.clone();
            let addr = l.addr;
            kernel::with(|w| w.net.client_ip = Some(format!("10.0.9.{}", 1 + id).parse().unwrap()));
            simtokio::task::spawn_named("tls-peer-client", async move {
                let tcp = match TcpStream::connect(addr).await {
                    Ok(t) => t,
                    Err(e) => {
                        result.lock().unwrap().error = format!("tcp: {}", e);
                        return;
                    }
                };
                result.lock().unwrap().connected_tcp = true;
                let connector = tokio_rustls::TlsConnector::from(pcfg);
                let mut stream = match connector.connect(ServerName::try_from("test.com").unwrap(), tcp).await {
                    Err(e) => {
                        let mut r = result.lock().unwrap();
                        r.handshake_ok = Some(false);
                        r.error = format!("{}", e);
                        return;
                    }
                    Ok(s) => s,
                };
                {
                    let mut r = result.lock().unwrap();
                    r.handshake_ok = Some(true);
                    r.version = version_num(stream.get_ref().1.protocol_version());
                    *resumed.lock().unwrap() = matches!(stream.get_ref().1.handshake_kind(), Some(rustls::HandshakeKind::Resumed));
                }
                if stream.write_all(&request).await.is_err() {
                    result.lock().unwrap().closed = true;
                    return;
                }
                let mut buf = [0u8; 64];
                match simtokio::time::timeout(Duration::from_secs(2), stream.read(&mut buf)).await {
                    Ok(Ok(0)) => result.lock().unwrap().closed = true,
                    Ok(Ok(n)) => result.lock().unwrap().app_bytes.extend_from_slice(&buf[..n]),
                    Ok(Err(e)) => {
                        let mut r = result.lock().unwrap();
                        r.closed = true;
                        r.error = format!("{}", e);
                    }
                    Err(_) => {}
                }
                if keep_open {
                    simtokio::time::sleep(Duration::from_secs(600)).await;
                }
            });
        }
        kernel::run_until(|| false, 2_500 * MS, 200_000);
        let r = result.lock().unwrap().clone();
        let was_resumed = *resumed.lock().unwrap();
        if was_resumed {
            out.probe("resumed_handshake");
        }
        let cert_ok = l.accepts.contains(&id);
        let version_ok = !(l.min13 && peer_v == 0);
        let admitted = cert_ok && version_ok && (!l.authz || role.is_some());
        let allowed = !l.authz || role == Some(ROLE_POLICY_ROLE);
        let v = l.mem.read_reg(3, 9).unwrap();
        let good = mbap_frame(tx, 1, &[3, 2, (v >> 8) as u8, v as u8]);
        let denied = mbap_frame(tx, 1, &[0x83, 1]);
        let j: Vec<(u8, Call)> = l.journal.lock().unwrap()[before..].to_vec();
        let desc = format!(
            "connection {} of the history {:?}: identity {} (role {:?}, versions {}) to listener {} (authz={} min={}){}",
            c,
            trace,
            cert,
            role,
            ["1.2", "1.3", "1.2+1.3"][peer_v as usize],
            l.name,
            l.authz,
            if l.min13 { "1.3" } else { "1.2" },
            if was_resumed { " [resumed session]" } else { "" }
        );
        trace.push(format!("{}->{}{}", cert.trim_end_matches("_cert.pem"), l.name, if was_resumed { "(resumed)" } else { "" }));
        if admitted {
            out.probe("history_admitted");
            let want = if allowed { &good } else { &denied };
            if &r.app_bytes != want {
                let known = !l.min13 && peer_v == 1 && out.known("C09", "min_1_2_refuses_tls13_only_peer");
                if !known {
                    let rule = if r.app_bytes == good || r.app_bytes == denied { "history_changes_access" } else { "valid_peer_refused" };
                    out.violate("C09", rule, format!("{}: reply {} expected {} (handshake {:?}, error {})", desc, hex(&r.app_bytes), hex(want), r.handshake_ok, r.error));
                    if rule == "history_changes_access" {
                        out.violate("C08", rule, format!("{}: reply {} expected {}", desc, hex(&r.app_bytes), hex(want)));
                    }
                    break;
                }
            }
            if l.authz {
                let want_call = (1u8, Call::Auth(3, 9, 1, role.unwrap().to_string(), allowed));
                if j.first() != Some(&want_call) {
                    out.violate("C09", "role_not_from_certificate", format!("{}: authorization handler saw {:?}, expected {:?}", desc, j.first(), want_call));
                    out.violate("C08", "role_not_from_certificate", format!("{}: authorization handler saw {:?}, expected {:?}", desc, j.first(), want_call));
                    break;
                }
                if !allowed && j.len() != 1 {
                    out.violate("C08", "denied_request_had_effect", format!("{}: journal {:?}", desc, j));
                    break;
                }
            }
            if l.min13 && r.version.map(|x| x < 13).unwrap_or(false) {
                out.violate("C09", "below_minimum_version", format!("{}: negotiated {:?}", desc, r.version));
                break;
            }
        } else {
            out.probe("history_refused");
            if !r.app_bytes.is_empty() || !j.is_empty() {
                let known = l.min13 && peer_v == 0 && cert_ok && (!l.authz || role.is_some()) && out.known("C09", "min_1_3_accepts_tls12_peer");
                if !known {
                    let rule = if !cert_ok {
                        "invalid_certificate_admitted"
                    } else if !version_ok {
                        "below_minimum_version"
                    } else {
                        "role_less_certificate_admitted"
                    };
                    let d = format!("{}: the peer must be refused but received {} (version {:?}); handler calls {:?}", desc, hex(&r.app_bytes), r.version, j);
                    out.violate("C09", rule, d.clone());
                    if rule == "role_less_certificate_admitted" {
                        out.violate("C08", rule, d);
                    }
                    break;
                }
            }
        }
        out.ops_checked += 1;
        out.state((li as u64) | (id as u64) << 2 | (was_resumed as u64) << 5 | (admitted as u64) << 6 | (l.authz as u64) << 7);
    }
    out.nontrivial = Some(wl);
    out.sample = Some(json!({"scenario": "tls server history (several listeners, shared peer session stores)", "listeners": listeners.iter().map(|l| format!("{} authz={} min13={}", l.name, l.authz, l.min13)).collect::<Vec<_>>(), "connections": trace}));
    out.observable.extend(format!("{:?}", trace).into_bytes());
    for l in listeners.iter_mut() {
        let mut fut = Box::pin(l.handle.shutdown());
        let _ = kernel::block_on(fut.as_mut());
    }
    kernel::settle();
    let _ = tasks;
}

// ---------------------------------------------------------------------------
// C14 on a TLS channel: a connection counts as successful only once the TLS
// handshake is done. A scripted peer refuses TCP, breaks the handshake in
// several ways, or completes it and closes later; the waits announced to the
// listener must follow model::client::Retry over that outcome sequence and be
// the waits actually observed before the next TCP attempt.

#[derive(Clone, Copy, Debug, PartialEq)]
enum ConnStep {
    Refused,
    Garbage,
    CloseAtOnce,
    BadCertificate,
    /// handshake completes; the peer closes after this many ns
    Good(u64),
}

pub fn run_client_retry(cfg: &ScenCfg, out: &mut RunOut) {
    use crate::model::client::{MState, Retry};
    let sched = chance(1, 2);
    let chunk = chance(1, 2);
    kernel::with(|w| {
        w.cfg.sched_random = sched;
        w.cfg.select_random = sched;
        w.cfg.chunk_reads = chunk;
        w.cfg.short_writes = chunk;
        w.cfg.max_latency_ns = 0;
    });
    let (dec_idx, decode) = pick_decode(&cfg.decode);
    let retry_min = [1 * MS, 50 * MS, 1000 * MS][choose(3) as usize];
    let retry_max = retry_min * [1u64, 2, 8, 60][choose(4) as usize];
    let n = 2 + choose(7) as usize;
    let mut script: Vec<ConnStep> = Vec::new();
    for _ in 0..n {
        script.push(match weighted(&[2, 2, 2, 2, 3]) {
            0 => ConnStep::Refused,
            1 => ConnStep::Garbage,
            2 => ConnStep::CloseAtOnce,
            3 => ConnStep::BadCertificate,
            _ => ConnStep::Good([0u64, 1 * MS, 700 * MS][choose(3) as usize]),
        });
    }
    let tls = match TlsClientConfig::full_pki(Some("test.com".to_string()), &fixture("ca1_cert.pem"), &fixture("cli_operator_cert.pem"), &fixture("cli_operator_key.pem"), None, MinTlsVersion::V1_2) {
        Ok(t) => t,
        Err(e) => {
            out.violate("C09", "client_config_rejected", format!("TlsClientConfig::full_pki failed: {}", e));
            return;
        }
    };
    let addr: SocketAddr = "10.0.0.7:802".parse().unwrap();
    let states: super::client::StateLog = Arc::new(Mutex::new(Vec::new()));
    let (channel, task) = create_tls_client_task_with_options(
        HostAddr::ip(addr.ip(), addr.port()),
        doubling_retry_strategy(Duration::from_nanos(retry_min), Duration::from_nanos(retry_max)),
        tls,
        Some(Box::new(super::client::Listen { log: states.clone(), delay_ns: 0 })),
        ClientOptions::default().decode_level(decode),
    );
    let task = simtokio::task::spawn_named("tls-client", task.run());
    // connect plans are consumed one per attempt, in order
    for s in &script {
        net::plan_connect(addr, if *s == ConnStep::Refused { net::ConnectOutcome::Refused } else { net::ConnectOutcome::Accept });
    }
    let listener = TcpListener::bind_now(addr).unwrap();
    let good = peer_server_config(2, "srv_ok_cert.pem", "srv_ok_key.pem");
    let bad = peer_server_config(2, "srv_wrongca_cert.pem", "srv_wrongca_key.pem");
    let accepted: Vec<ConnStep> = script.iter().copied().filter(|s| *s != ConnStep::Refused).collect();
    simtokio::task::spawn_named("tls-peer-server", async move {
        for step in accepted {
            let (mut tcp, _) = match listener.accept().await {
                Ok(x) => x,
                Err(_) => return,
            };
            match step {
                ConnStep::Garbage => {
                    let _ = tcp.write_all(&[0x00, 0x01, 0x00, 0x00, 0x00, 0x05, 0x01, 0x03, 0x02, 0x00, 0x07]).await;
                    // keep the socket: the client must give up because of what it read
                    simtokio::task::spawn_named("hold", async move {
                        simtokio::time::sleep(Duration::from_secs(3600)).await;
                        drop(tcp);
                    });
                }
                ConnStep::CloseAtOnce => drop(tcp),
                ConnStep::BadCertificate | ConnStep::Good(_) => {
                    let acceptor = tokio_rustls::TlsAcceptor::from(if step == ConnStep::BadCertificate { bad.clone() } else { good.clone() });
                    if let Ok(stream) = acceptor.accept(tcp).await {
                        if let ConnStep::Good(hold) = step {
                            simtokio::time::sleep(Duration::from_nanos(hold)).await;
                        }
                        drop(stream);
                    }
                }
                ConnStep::Refused => unreachable!(),
            }
        }
        // afterwards: accept and stay silent
        loop {
            match listener.accept().await {
                Ok((tcp, _)) => {
                    simtokio::task::spawn_named("hold", async move {
                        simtokio::time::sleep(Duration::from_secs(36_000)).await;
                        drop(tcp);
                    });
                }
                Err(_) => return,
            }
        }
    });
    kernel::settle();
    let _ = kernel::block_on(channel.enable());
    // long enough for every wait of the script
    let budget: u64 = script.len() as u64 * (retry_max + 800 * MS) + 100 * MS;
    let waits_seen = |st: &Vec<(u64, MState)>| st.iter().filter(|(_, s)| matches!(s, MState::WaitAfterFailedConnect(_) | MState::WaitAfterDisconnect(_))).count();
    {
        let states = states.clone();
        let want = script.len();
        kernel::run_until(move || waits_seen(&states.lock().unwrap()) >= want, budget, 2_000_000);
    }
    let st: Vec<(u64, MState)> = states.lock().unwrap().clone();
    let attempts: Vec<u64> = net::attempts().iter().map(|a| a.at).collect();
    let desc = format!("TLS client, retry min {} ms max {} ms, connection outcomes {:?}", retry_min / MS, retry_max / MS, script);
    // expected: Connecting, then per step either Wait(failed) or Connected + Wait(disconnect), each followed by Connecting
    let mut retry = Retry::new(retry_min, retry_max);
    let mut it = st.iter().skip_while(|(_, s)| *s != MState::Connecting).peekable();
    let mut ok = true;
    let mut step_i = 0usize;
    let mut attempt_i = 0usize;
    'steps: for step in &script {
        // Connecting at the instant of a TCP attempt
        let (tc, _) = match it.next() {
            Some((t, MState::Connecting)) => (*t, ()),
            other => {
                let d = format!("{}: step {} expected Connecting, listener has {:?}; full log {:?}", desc, step_i, other, st);
                out.violate("C14", "tls_retry_sequence", d.clone());
                out.violate("C13", "tls_listener_sequence", d);
                ok = false;
                break 'steps;
            }
        };
        if attempts.get(attempt_i) != Some(&tc) {
            out.violate("C14", "tls_attempt_instant", format!("{}: step {}: Connecting announced at {} but TCP attempts were made at {:?}", desc, step_i, tc, attempts));
            ok = false;
            break;
        }
        attempt_i += 1;
        let (tw, d) = match step {
            ConnStep::Good(_) => {
                match it.next() {
                    Some((_, MState::Connected)) => {}
                    other => {
                        let d = format!("{}: step {} ({:?}) expected Connected, got {:?}; full log {:?}", desc, step_i, step, other, st);
                        out.violate("C14", "tls_retry_sequence", d.clone());
                        out.violate("C13", "tls_listener_sequence", d);
                        ok = false;
                        break 'steps;
                    }
                }
                retry.reset();
                let want = retry.disconnected();
                match it.next() {
                    Some((t, MState::WaitAfterDisconnect(d))) if *d == want => (*t, *d),
                    other => {
                        out.violate("C14", "tls_retry_delay", format!("{}: step {} ({:?}) expected WaitAfterDisconnect({}), got {:?}; full log {:?}", desc, step_i, step, want, other, st));
                        ok = false;
                        break 'steps;
                    }
                }
            }
            _ => {
                let want = retry.failed();
                match it.next() {
                    Some((t, MState::WaitAfterFailedConnect(d))) if *d == want => (*t, *d),
                    other => {
                        if !matches!(other, Some((_, MState::WaitAfterFailedConnect(_)))) {
                            // not a wait at all: the path itself is illegal (e.g. Connected announced before the handshake)
                            out.violate("C13", "tls_listener_sequence", format!("{}: step {} ({:?}) must be followed by WaitAfterFailedConnect, listener has {:?}; full log {:?}", desc, step_i, step, other, st));
                        }
                        out.violate("C14", "tls_retry_delay", format!("{}: step {} ({:?}) expected WaitAfterFailedConnect({}), got {:?}; full log {:?}", desc, step_i, step, want, other, st));
                        ok = false;
                        break 'steps;
                    }
                }
            }
        };
        // the wait is the one actually observed
        if let Some((tn, s)) = it.peek() {
            if *s != MState::Connecting || *tn != tw + d {
                out.violate("C14", "tls_wait_not_honoured", format!("{}: step {}: a wait of {} announced at {} was followed by {:?} at {} (expected Connecting at {}); full log {:?}", desc, step_i, d, tw, s, tn, tw + d, st));
                ok = false;
                break;
            }
        }
        out.ops_checked += 1;
        step_i += 1;
    }
    if ok && step_i < script.len() {
        out.violate("C14", "tls_retry_sequence", format!("{}: only {} of {} outcomes were reached within {} ns; log {:?}", desc, step_i, script.len(), budget, st));
    }
    out.probe("tls_retry_runs");
    if script.windows(2).any(|w| matches!(w[0], ConnStep::Garbage | ConnStep::CloseAtOnce | ConnStep::BadCertificate) && matches!(w[1], ConnStep::Garbage | ConnStep::CloseAtOnce | ConnStep::BadCertificate)) {
        out.probe("tls_consecutive_failed_handshakes");
    }
    let mut wl = dec_idx as u64 ^ retry_min << 8 ^ retry_max << 20;
    hash_bytes(&mut wl, format!("{:?}", script).as_bytes());
    out.nontrivial = Some(wl);
    out.sample = Some(json!({"scenario": "tls client retry schedule", "retry_min_ms": retry_min / MS, "retry_max_ms": retry_max / MS, "outcomes": format!("{:?}", script)}));
    out.observable.extend(format!("{:?}", st).into_bytes());
    let _ = kernel::block_on(channel.shutdown());
    kernel::run_until(|| false, kernel::now_ns() + 100 * MS, 100_000);
    let _ = task;
}

// ---------------------------------------------------------------------------
// C07 inside an established TLS session: one bit of the ciphertext is flipped on its way to rodbus (server
// role: in a request record; client role: in a reply record). rustls must reject the record, the library must
// end that session with an error - no panic, no handler call or result from the damaged record - and stay
// usable: the server serves a new connection, the client reconnects and completes the next request.

pub fn run_tls_corruption(cfg: &ScenCfg, out: &mut RunOut) {
    let sched = chance(1, 2);
    let chunk = chance(1, 2);
    kernel::with(|w| {
        w.cfg.sched_random = sched;
        w.cfg.select_random = sched;
        w.cfg.chunk_reads = chunk;
        w.cfg.short_writes = chunk;
    });
    let (dec_idx, decode) = pick_decode(&cfg.decode);
    // inside the protected part of the record: the five header bytes are not all covered by the record
    // protection (rustls builds the TLS 1.3 additional data from constants and the length), so a flipped
    // outer type or legacy version is tolerated by the TLS layer and nothing reaches rodbus
    let offset_in_record = 5 + choose(24) as u64;
    let mask = 1u8 << choose(8);
    let peer_v = choose(3);
    if cfg.variant == 0 {
        // ---- rodbus as TLS server
        let tls = TlsServerConfig::new(&fixture("ca1_cert.pem"), &fixture("srv_ok_cert.pem"), &fixture("srv_ok_key.pem"), None, MinTlsVersion::V1_2, CertificateMode::AuthorityBased).expect("server config");
        let journal: Journal = Arc::new(Mutex::new(Vec::new()));
        let mem = UnitMem::new(0xC07);
        let handler = MemHandler { unit: 1, mem: mem.clone(), journal: journal.clone() }.wrap();
        let map = ServerHandlerMap::single(UnitId::new(1), handler);
        let addr: SocketAddr = "10.0.0.1:802".parse().unwrap();
        let listener = TcpListener::bind_now(addr).unwrap();
        let (handle, task) = create_tls_server_task(4, listener, map, tls, AddressFilter::Any, decode);
        let task = simtokio::task::spawn_named("tls-server", task.run());
        kernel::settle();
        // phase: 0 connecting, 1 first reply received, 2 damaged request sent, 3 done
        let log: Arc<Mutex<(u32, Vec<u8>, Vec<u8>, bool)>> = Arc::new(Mutex::new((0, Vec::new(), Vec::new(), false)));
        let (go_tx, mut go_rx) = simtokio::sync::mpsc::unbounded_channel::<()>();
        {
            let log = log.clone();
            let pcfg = peer_client_config(peer_v, "cli_operator_cert.pem", "cli_operator_key.pem");
            simtokio::task::spawn_named("tls-peer-client", async move {
                let tcp = match TcpStream::connect(addr).await {
                    Ok(t) => t,
                    Err(_) => return,
                };
                let connector = tokio_rustls::TlsConnector::from(pcfg);
                let mut stream = match connector.connect(ServerName::try_from("test.com").unwrap(), tcp).await {
                    Ok(s) => s,
                    Err(_) => return,
                };
                let mut buf = [0u8; 128];
                if stream.write_all(&mbap_frame(1, 1, &[3, 0, 1, 0, 1])).await.is_err() {
                    return;
                }
                if let Ok(Ok(n)) = simtokio::time::timeout(Duration::from_secs(2), stream.read(&mut buf)).await {
                    log.lock().unwrap().1.extend_from_slice(&buf[..n]);
                }
                log.lock().unwrap().0 = 1;
                // wait for the director to arm the fault
                let _ = go_rx.recv().await;
                let _ = stream.write_all(&mbap_frame(2, 1, &[3, 0, 2, 0, 1])).await;
                log.lock().unwrap().0 = 2;
                match simtokio::time::timeout(Duration::from_secs(2), stream.read(&mut buf)).await {
                    Ok(Ok(0)) | Ok(Err(_)) => log.lock().unwrap().3 = true,
                    Ok(Ok(n)) => log.lock().unwrap().2.extend_from_slice(&buf[..n]),
                    Err(_) => {}
                }
                log.lock().unwrap().0 = 3;
            });
        }
        {
            let log = log.clone();
            kernel::run_until(move || log.lock().unwrap().0 >= 1, 3_000 * MS, 400_000);
        }
        // arm: flip one bit of the next record the client sends
        kernel::with(|w| {
            if let Some(c) = w.net.conns.get_mut(0) {
                let p = &mut c.pipes[0];
                p.flip = Some((p.total_written + offset_in_record, mask));
                w.count("fault_bitflip");
            }
        });
        let calls_before = journal.lock().unwrap().len();
        let _ = go_tx.send(());
        {
            let log = log.clone();
            kernel::run_until(move || log.lock().unwrap().0 >= 3, kernel::now_ns() + 3_000 * MS, 400_000);
        }
        let (phase, first, second, closed) = log.lock().unwrap().clone();
        let v1 = mem.read_reg(3, 1).unwrap();
        let desc = format!("TLS server, peer versions {}, bit {:#04x} flipped at byte {} of the second request's record", ["1.2", "1.3", "1.2+1.3"][peer_v as usize], mask, offset_in_record);
        if first != mbap_frame(1, 1, &[3, 2, (v1 >> 8) as u8, v1 as u8]) {
            out.violate("C09", "valid_peer_refused", format!("{}: the first request was not served ({})", desc, hex(&first)));
            return;
        }
        let panics: Vec<String> = kernel::with(|w| w.panics.clone());
        let j = journal.lock().unwrap()[calls_before..].to_vec();
        // a Modbus reply to the damaged request (tx 2) must not exist; a TLS alert is fine
        let modbus_reply = second.len() >= 2 && second[0] == 0 && second[1] == 2;
        if !panics.is_empty() || !j.is_empty() || modbus_reply || phase < 3 {
            out.violate("C07", "tls_corrupted_record_processed", format!("{}: panics {:?}, handler calls {:?}, bytes back {} (closed={}, phase {})", desc, panics, j, hex(&second), closed, phase));
            return;
        }
        // the server is still there for the next peer
        let ok: Arc<Mutex<Vec<u8>>> = Arc::new(Mutex::new(Vec::new()));
        {
            let ok = ok.clone();
            let pcfg = peer_client_config(2, "cli_operator_cert.pem", "cli_operator_key.pem");
            simtokio::task::spawn_named("tls-peer-client", async move {
                if let Ok(tcp) = TcpStream::connect(addr).await {
                    let connector = tokio_rustls::TlsConnector::from(pcfg);
                    if let Ok(mut stream) = connector.connect(ServerName::try_from("test.com").unwrap(), tcp).await {
                        let mut buf = [0u8; 64];
                        let _ = stream.write_all(&mbap_frame(3, 1, &[3, 0, 3, 0, 1])).await;
                        if let Ok(Ok(n)) = simtokio::time::timeout(Duration::from_secs(2), stream.read(&mut buf)).await {
                            ok.lock().unwrap().extend_from_slice(&buf[..n]);
                        }
                    }
                }
            });
        }
        kernel::run_until(|| false, kernel::now_ns() + 2_500 * MS, 400_000);
        let v3 = mem.read_reg(3, 3).unwrap();
        if *ok.lock().unwrap() != mbap_frame(3, 1, &[3, 2, (v3 >> 8) as u8, v3 as u8]) {
            out.violate("C07", "server_dead_after_tls_corruption", format!("{}: a new connection afterwards received {}", desc, hex(&ok.lock().unwrap())));
        }
        {
            let mut fut = Box::pin(handle.shutdown());
            let _ = kernel::block_on(fut.as_mut());
        }
        kernel::settle();
        let _ = task;
    } else {
        // ---- rodbus as TLS client
        let tls = TlsClientConfig::full_pki(Some("test.com".to_string()), &fixture("ca1_cert.pem"), &fixture("cli_operator_cert.pem"), &fixture("cli_operator_key.pem"), None, MinTlsVersion::V1_2).expect("client config");
        let addr: SocketAddr = "10.0.0.7:802".parse().unwrap();
        let states: super::client::StateLog = Arc::new(Mutex::new(Vec::new()));
        let comps: super::client::Completions = Arc::new(Mutex::new(Vec::new()));
        let (channel, task) = create_tls_client_task_with_options(
            HostAddr::ip(addr.ip(), addr.port()),
            doubling_retry_strategy(Duration::from_millis(100), Duration::from_millis(100)),
            tls,
            Some(Box::new(super::client::Listen { log: states.clone(), delay_ns: 0 })),
            ClientOptions::default().decode_level(decode),
        );
        let task = simtokio::task::spawn_named("tls-client", task.run());
        let listener = TcpListener::bind_now(addr).unwrap();
        let scfg = peer_server_config(peer_v, "srv_ok_cert.pem", "srv_ok_key.pem");
        let served = Arc::new(Mutex::new(0u32));
        {
            let served = served.clone();
            simtokio::task::spawn_named("tls-peer-server", async move {
                loop {
                    let (tcp, _) = match listener.accept().await {
                        Ok(x) => x,
                        Err(_) => return,
                    };
                    let acceptor = tokio_rustls::TlsAcceptor::from(scfg.clone());
                    let served = served.clone();
                    simtokio::task::spawn_named("tls-peer-conn", async move {
                        let mut stream = match acceptor.accept(tcp).await {
                            Ok(s) => s,
                            Err(_) => return,
                        };
                        let mut buf = [0u8; 64];
                        loop {
                            match stream.read(&mut buf).await {
                                Ok(n) if n >= 12 => {
                                    let tx = ((buf[0] as u16) << 8) | buf[1] as u16;
                                    *served.lock().unwrap() += 1;
                                    if stream.write_all(&mbap_frame(tx, 1, &[3, 2, 0x12, 0x34])).await.is_err() {
                                        return;
                                    }
                                }
                                _ => return,
                            }
                        }
                    });
                }
            });
        }
        kernel::settle();
        let _ = kernel::block_on(channel.enable());
        kernel::run_until(|| false, 500 * MS, 200_000);
        let req = crate::model::pdu::Req::ReadHolding { start: 0, count: 1 };
        super::client::submit(&channel, super::client::Style::Future, 0, &req, 1, 1000 * MS, &comps);
        kernel::run_until(|| false, kernel::now_ns() + 200 * MS, 200_000);
        // arm: one bit of the next record the peer sends (the second reply)
        kernel::with(|w| {
            if let Some(c) = w.net.conns.get_mut(0) {
                let p = &mut c.pipes[1];
                p.flip = Some((p.total_written + offset_in_record, mask));
                w.count("fault_bitflip");
            }
        });
        super::client::submit(&channel, super::client::Style::Future, 1, &req, 1, 1000 * MS, &comps);
        kernel::run_until(|| false, kernel::now_ns() + 1_500 * MS, 400_000);
        // after the reconnect the channel works again
        super::client::submit(&channel, super::client::Style::Future, 2, &req, 1, 1000 * MS, &comps);
        kernel::run_until(|| false, kernel::now_ns() + 1_500 * MS, 400_000);
        let c = comps.lock().unwrap().clone();
        let st = states.lock().unwrap().clone();
        let panics: Vec<String> = kernel::with(|w| w.panics.clone());
        let desc = format!("TLS client, peer versions {}, bit {:#04x} flipped at byte {} of the second reply's record", ["1.2", "1.3", "1.2+1.3"][peer_v as usize], mask, offset_in_record);
        let good = crate::model::client::Outcome::Ok(crate::model::pdu::ReplyData::Regs(vec![(0, 0x1234)]));
        let o = |id: usize| c.iter().find(|x| x.0 == id).map(|x| x.2.clone());
        if !panics.is_empty() {
            out.violate("C07", "tls_corrupted_record_processed", format!("{}: the client task panicked: {:?}", desc, panics));
        } else if o(0) != Some(good.clone()) {
            out.violate("C09", "valid_peer_refused", format!("{}: the first request completed with {:?}; listener {:?}", desc, o(0), st));
        } else if matches!(o(1), Some(crate::model::client::Outcome::Ok(_)) | Some(crate::model::client::Outcome::Exception(_)) | None) {
            out.violate("C07", "tls_corrupted_record_processed", format!("{}: the request whose reply record was damaged completed with {:?}", desc, o(1)));
        } else if o(2) != Some(good) {
            out.violate("C07", "client_dead_after_tls_corruption", format!("{}: after the damaged record the next request completed with {:?}; listener {:?}", desc, o(2), st));
        }
        let _ = kernel::block_on(channel.shutdown());
        kernel::run_until(|| false, kernel::now_ns() + 100 * MS, 100_000);
        let _ = task;
        let _ = served;
    }
    out.probe(if cfg.variant == 0 { "tls_corruption_server_role" } else { "tls_corruption_client_role" });
    out.ops_checked = 3;
    out.nontrivial = Some((cfg.variant as u64) << 40 | (offset_in_record << 16) | (mask as u64) << 8 | (peer_v as u64) << 4 | (dec_idx as u64) << 24);
    out.sample = Some(json!({"scenario": "bit flip inside an established TLS session", "role": if cfg.variant == 0 { "server" } else { "client" }, "offset_in_record": offset_in_record, "mask": mask}));
}
