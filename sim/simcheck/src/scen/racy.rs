//! Racy mode: bursts of actions without settling, random task scheduling, random
//! `select!` start index, chunked reads, short writes, latency, and an autonomous
//! peer. Exact prediction is replaced by history invariants that hold for every
//! legal interleaving, plus bounded liveness after the last fault (C10 C11 C12 C13 C14).

use super::client::{start_tcp_client_slow, submit, Style};
use super::common::*;
use crate::driver::{RunOut, ScenCfg};
use crate::model::client::{MState, Outcome};
use crate::model::frame::{mbap_frame, mbap_frame_raw, MbapDeframer};
use crate::model::pdu::{self, Req};
use rodbus::*;
use serde_json::json;
use simtokio::kernel::{self, chance, choose, weighted};
use simtokio::net::{self, PeerEnd};
use std::collections::BTreeMap;
use std::net::SocketAddr;

const MS: u64 = 1_000_000;

struct Sub {
    req: Req,
    unit: u8,
    timeout: u64,
    t_submit: u64,
}

struct WireFrame {
    conn: usize,
    t: u64,
    tx: u16,
    unit: u8,
    pdu: Vec<u8>,
}

struct Reply {
    conn: usize,
    ready_at: u64,
    tx: u16,
    pdu: Vec<u8>,
    /// the request frame (unit, PDU) this reply was written in answer to
    answers: (u8, Vec<u8>),
}

struct Fault {
    conn: usize,
    t: u64,
    kind: &'static str,
}

struct ConnState {
    peer: PeerEnd,
    deframer: MbapDeframer,
    consumed: u64,
    answered: usize,
    dead: bool,
    opened_at: u64,
}

fn unique_req(id: usize) -> Req {
    // every request is distinguishable on the wire: the start address encodes the id
    let start = (id as u16).wrapping_mul(13).wrapping_add(100) % 60000;
    let c = 1 + choose(6) as u16;
    match choose(8) {
        0 => Req::ReadCoils { start, count: c },
        1 => Req::ReadDiscrete { start, count: c },
        2 => Req::ReadHolding { start, count: c },
        3 => Req::ReadInput { start, count: c },
        4 => Req::WriteCoil { addr: start, value: choose(2) == 1 },
        5 => Req::WriteReg { addr: start, value: id as u16 },
        6 => Req::WriteCoils { start, values: (0..c).map(|_| choose(2) == 1).collect() },
        _ => Req::WriteRegs { start, values: (0..c).map(|i| i.wrapping_mul(3)).collect() },
    }
}

fn state_at(states: &[(u64, MState)], t: u64) -> Vec<MState> {
    // every state that was in effect at some point during instant t
    let mut v = Vec::new();
    let mut last_before: Option<MState> = None;
    for (ts, s) in states {
        if *ts < t {
            last_before = Some(*s);
        } else if *ts == t {
            v.push(*s);
        }
    }
    if let Some(s) = last_before {
        v.insert(0, s);
    }
    v
}

pub fn run_client_racy(cfg: &ScenCfg, out: &mut RunOut) {
    let lat = [0u64, 200_000, 3 * MS][choose(3) as usize];
    kernel::with(|w| {
        w.cfg.sched_random = true;
        w.cfg.select_random = true;
        w.cfg.chunk_reads = true;
        w.cfg.short_writes = true;
        w.cfg.max_latency_ns = lat;
    });
    let (dec_idx, decode) = pick_decode(&cfg.decode);
    let inject = cfg.faults;
    let addr: SocketAddr = "10.0.0.9:502".parse().unwrap();
    let retry_min = [1 * MS, 40 * MS][choose(2) as usize];
    let retry_max = retry_min * [1u64, 4][choose(2) as usize];
    let max_timeouts = [None, Some(1usize), Some(3)][choose(3) as usize];
    let qcap = [1usize, 2, 8][choose(3) as usize];
    let opts = ClientOptions::default()
        .decode_level(decode)
        .max_queued_requests(qcap)
        .max_response_timeouts(max_timeouts.and_then(std::num::NonZeroUsize::new));
    net::stub_listen(addr);
    let mut server_up = true;
    // the user's listener may be slow: its future is awaited inline by the client task
    let slow_listener = if inject && chance(1, 4) { [200_000u64, 3 * MS][choose(2) as usize] } else { 0 };
    let rig = start_tcp_client_slow(addr, (retry_min, retry_max), opts, slow_listener);
    let ch = rig.channel.clone().unwrap();
    let ch2 = ch.clone();
    let mut subs: BTreeMap<usize, Sub> = BTreeMap::new();
    let mut wire: Vec<WireFrame> = Vec::new();
    let mut replies: Vec<Reply> = Vec::new();
    // every reply frame the peer has written, with its connection
    let mut sent_frames: Vec<(usize, Vec<u8>)> = Vec::new();
    let mut faults: Vec<Fault> = Vec::new();
    let mut conns: Vec<ConnState> = Vec::new();
    let mut enables: Vec<u64> = Vec::new();
    // process stalls (clock jumps): a deadline inside one is served when the stall ends
    let mut jumps: Vec<(u64, u64)> = Vec::new();
    let mut next_id = 0usize;
    let mut trace: Vec<String> = Vec::new();
    let mut wl = dec_idx as u64 ^ (qcap as u64) << 8;
    let timeouts = [5 * MS, 50 * MS, 400 * MS];
    let turns = 15 + choose(60) as usize;
    // the last enable/disable command submitted (commands are processed in order)
    let mut last_ctrl: Option<bool> = None;
    // most runs start enabled
    if chance(3, 4) {
        last_ctrl = Some(true);
        let _ = kernel::block_on(ch.enable());
        enables.push(kernel::now_ns());
    }
    for _turn in 0..turns {
        // adopt new connections
        while let Some(p) = net::stub_accept(addr) {
            conns.push(ConnState {
                peer: p,
                deframer: MbapDeframer::default(),
                consumed: 0,
                answered: 0,
                dead: false,
                opened_at: kernel::now_ns(),
            });
        }
        match weighted(&[6, 8, 5, 2, 1, if inject { 2 } else { 0 }]) {
            0 => {
                // a burst of submissions through different handles and styles
                for _ in 0..1 + choose(3) {
                    let id = next_id;
                    next_id += 1;
                    let req = unique_req(id);
                    let unit = UNIT_POOL[choose(3) as usize];
                    let timeout = timeouts[choose(3) as usize];
                    hash_bytes(&mut wl, &[req.fc(), unit, (timeout / MS) as u8]);
                    let style = if chance(1, 2) { Style::Future } else { Style::Callback };
                    submit(if chance(1, 2) { &ch } else { &ch2 }, style, id, &req, unit, timeout, &rig.comps);
                    subs.insert(id, Sub { req, unit, timeout, t_submit: kernel::now_ns() });
                    if trace.len() < 60 {
                        trace.push(format!("t={} submit#{}", kernel::now_ns(), id));
                    }
                }
            }
            1 => {
                // run the system for a while
                let k = 1 + choose(12);
                for _ in 0..k {
                    if !kernel::step() {
                        // idle: let time pass to the next timer, but not beyond half a second per hop
                        match kernel::next_timer() {
                            Some(t) if t <= kernel::now_ns() + 500 * MS => {
                                kernel::advance_to(t);
                            }
                            _ => {
                                kernel::advance(1 * MS);
                                break;
                            }
                        }
                    }
                }
            }
            2 => {
                // the peer looks at what arrived and answers
                for ci in 0..conns.len() {
                    if conns[ci].dead {
                        continue;
                    }
                    let log = conns[ci].peer.remote_write_log();
                    let bytes = conns[ci].peer.take_received();
                    let base = conns[ci].consumed;
                    let frames = conns[ci].deframer.feed(&bytes);
                    let mut off = base;
                    for f in &frames {
                        off += 7 + f.pdu.len() as u64;
                        // instant at which the last byte of this frame was written
                        let t = log.iter().find(|(_, total)| *total >= off).map(|(t, _)| *t).unwrap_or(kernel::now_ns());
                        wire.push(WireFrame { conn: ci, t, tx: f.tx, unit: f.unit, pdu: f.pdu.clone() });
                    }
                    conns[ci].consumed += bytes.len() as u64;
                    // answer the frames not yet answered on this connection
                    let mine: Vec<usize> = (0..wire.len()).filter(|i| wire[*i].conn == ci).collect();
                    while conns[ci].answered < mine.len() && !conns[ci].dead {
                        let fi = mine[conns[ci].answered];
                        conns[ci].answered += 1;
                        let (tx, unit, pdu_req) = (wire[fi].tx, wire[fi].unit, wire[fi].pdu.clone());
                        let req = match pdu::classify(&pdu_req) {
                            pdu::Class::Valid(r) => r,
                            _ => continue,
                        };
                        let now = kernel::now_ns();
                        let choice = if inject { weighted(&[8, 2, 2, 2, 1, 1, 1]) } else { weighted(&[8, 2, 2, 2]) };
                        match choice {
                            0 => {
                                let r = super::client::correct_reply(&req);
                                // also: readable exactly at the request's deadline (a genuine race between the
                                // timer and the reader: either outcome is legal, both are checked for consistency)
                                let to_deadline = subs
                                    .values()
                                    .find(|s| pdu::encode_req(&s.req) == pdu_req && s.unit == unit)
                                    .map(|s| (wire[fi].t + s.timeout).saturating_sub(now))
                                    .unwrap_or(0);
                                let d = match choose(6) {
                                    0 => 0u64,
                                    1 => 100_000,
                                    2 => 4 * MS,
                                    3 => 49 * MS,
                                    4 => {
                                        out.probe("racy_reply_exactly_at_deadline");
                                        to_deadline
                                    }
                                    _ => to_deadline.saturating_sub(1),
                                };
                                let f = mbap_frame(tx, unit, &r);
                                sent_frames.push((ci, f.clone()));
                                let at = if chance(1, 4) {
                                    // the reply arrives in two segments, the second one later
                                    let cut = 1 + choose(f.len() as u32 - 1) as usize;
                                    conns[ci].peer.write_delayed_at(&f[..cut], d);
                                    out.probe("racy_split_reply");
                                    conns[ci].peer.write_delayed_at(&f[cut..], d + [1_000u64, 3 * MS, 30 * MS][choose(3) as usize])
                                } else {
                                    conns[ci].peer.write_delayed_at(&f, d)
                                };
                                replies.push(Reply { conn: ci, ready_at: at, tx, pdu: r, answers: (unit, pdu_req.clone()) });
                            }
                            1 => {
                                let e = pick_exc_code();
                                let r = vec![req.fc() | 0x80, e];
                                sent_frames.push((ci, mbap_frame(tx, unit, &r)));
                                let at = conns[ci].peer.write_delayed_at(&mbap_frame(tx, unit, &r), 0);
                                replies.push(Reply { conn: ci, ready_at: at, tx, pdu: r, answers: (unit, pdu_req.clone()) });
                            }
                            2 => {
                                if chance(1, 3) {
                                    // a reply from the mutation grammar (may be bad, may be fine)
                                    let r = super::client::gen_reply_pdu(&req);
                                    let at = conns[ci].peer.write_delayed_at(&mbap_frame(tx, unit, &r), 0);
                                    replies.push(Reply { conn: ci, ready_at: at, tx, pdu: r, answers: (unit, pdu_req.clone()) });
                                    out.probe("racy_variant_reply");
                                }
                                // else silence: the request will time out
                            }
                            3 => {
                                // a stale frame first, then the real reply; the stale one is either an older
                                // transaction id of this connection or a reply frame replayed from an earlier
                                // connection (ids are never reused, so it cannot be taken for the answer)
                                let older: Vec<&Vec<u8>> = sent_frames.iter().filter(|(c, _)| *c != ci).map(|(_, f)| f).collect();
                                let stale = if !older.is_empty() && chance(1, 2) {
                                    out.probe("racy_replayed_frame_from_earlier_connection");
                                    older[choose(older.len() as u32) as usize].clone()
                                } else {
                                    let k = if chance(1, 3) { [256u16, 32767, 32768, 32769][choose(4) as usize] } else { 1 + choose(3) as u16 };
                                    mbap_frame(tx.wrapping_sub(k), unit, &super::client::correct_reply(&req))
                                };
                                conns[ci].peer.write(&stale);
                                let r = super::client::correct_reply(&req);
                                let at = conns[ci].peer.write_delayed_at(&mbap_frame(tx, unit, &r), 1000);
                                replies.push(Reply { conn: ci, ready_at: at, tx, pdu: r, answers: (unit, pdu_req.clone()) });
                                out.probe("stale_then_reply");
                            }
                            4 => {
                                conns[ci].peer.shutdown_write();
                                conns[ci].dead = true;
                                faults.push(Fault { conn: ci, t: now, kind: "eof" });
                                kernel::count("fault_eof");
                            }
                            5 => {
                                conns[ci].peer.write(&mbap_frame_raw(tx, 3, 4, unit, &[1, 2, 3]));
                                conns[ci].dead = true;
                                faults.push(Fault { conn: ci, t: now, kind: "bad_header" });
                                kernel::count("fault_bad_header");
                            }
                            _ => {
                                conns[ci].peer.inject_read_error(0, std::io::ErrorKind::ConnectionReset);
                                conns[ci].dead = true;
                                faults.push(Fault { conn: ci, t: now, kind: "reset" });
                            }
                        }
                    }
                }
            }
            3 => {
                // control commands
                let c = if chance(1, 2) { ch.clone() } else { ch2.clone() };
                match weighted(&[3, 2, 2]) {
                    0 => {
                        enables.push(kernel::now_ns());
                        last_ctrl = Some(true);
                        // sent from the director so that control commands are queued in submission order
                        let _ = kernel::block_on(c.enable());
                        trace.push(format!("t={} enable", kernel::now_ns()));
                    }
                    1 => {
                        last_ctrl = Some(false);
                        let _ = kernel::block_on(c.disable());
                        trace.push(format!("t={} disable", kernel::now_ns()));
                    }
                    _ => {
                        let lvl = decode_level(choose(36) as u8);
                        simtokio::task::spawn_named("cmd", async move {
                            let _ = c.set_decode_level(lvl).await;
                        });
                    }
                }
            }
            5 => {
                // process stall: the clock jumps while tasks may be woken but not yet polled, so
                // several deadlines and pending wake-ups are served in one go
                let d = match kernel::next_timer() {
                    Some(t) if t > kernel::now_ns() => match choose(3) {
                        0 => t - kernel::now_ns(),
                        1 => t - kernel::now_ns() + 1,
                        _ => (t - kernel::now_ns()) * 2,
                    },
                    _ => 1 * MS,
                };
                let before = kernel::now_ns();
                kernel::jump(d.min(2_000 * MS));
                jumps.push((before, kernel::now_ns()));
                out.probe("racy_clock_jump");
            }
            _ => {
                if inject {
                    if server_up {
                        net::stub_unlisten(addr);
                    } else {
                        net::stub_listen(addr);
                    }
                    server_up = !server_up;
                    trace.push(format!("t={} server_up={}", kernel::now_ns(), server_up));
                }
            }
        }
    }
    // ---- faults stop; drain
    if !server_up {
        net::stub_listen(addr);
    }
    kernel::advance(2_000 * MS);
    // every request must be complete by now (largest timeout 400 ms, queue <= a few requests deep)
    kernel::advance(((next_id as u64) + 2) * 400 * MS);
    let comps = rig.comps.lock().unwrap().clone();
    let states = rig.states.lock().unwrap().clone();
    // collect late wire traffic for the justification checks
    while let Some(p) = net::stub_accept(addr) {
        conns.push(ConnState { peer: p, deframer: MbapDeframer::default(), consumed: 0, answered: 0, dead: false, opened_at: kernel::now_ns() });
    }
    for ci in 0..conns.len() {
        let log = conns[ci].peer.remote_write_log();
        let bytes = conns[ci].peer.take_received();
        let base = conns[ci].consumed;
        let frames = conns[ci].deframer.feed(&bytes);
        let mut off = base;
        for f in &frames {
            off += 7 + f.pdu.len() as u64;
            let t = log.iter().find(|(_, total)| *total >= off).map(|(t, _)| *t).unwrap_or(0);
            wire.push(WireFrame { conn: ci, t, tx: f.tx, unit: f.unit, pdu: f.pdu.clone() });
        }
    }
    wire.sort_by_key(|f| (f.t, f.conn));
    // the instant at which something due at `deadline` is actually served
    let served_at = |deadline: u64| -> u64 { jumps.iter().find(|(a, b)| *a < deadline && deadline <= *b).map(|(_, b)| *b).unwrap_or(deadline) };
    // 1. exactly once
    let mut by_id: BTreeMap<usize, Vec<(u64, Outcome)>> = BTreeMap::new();
    for (id, t, o) in &comps {
        by_id.entry(*id).or_default().push((*t, o.clone()));
    }
    for id in subs.keys() {
        match by_id.get(id).map(|v| v.len()).unwrap_or(0) {
            1 => {}
            0 => {
                out.violate("C10", "racy/never_completed", format!("request {} (submitted at {}) never completed; states {:?}", id, subs[id].t_submit, &states[states.len().saturating_sub(4)..]));
                return;
            }
            n => {
                out.violate("C10", "racy/completed_twice", format!("request {} completed {} times: {:?}", id, n, by_id[id]));
                return;
            }
        }
    }
    // 2. justification of every outcome
    for (id, s) in &subs {
        let (t_done, outcome) = by_id[id][0].clone();
        // a process stall while the request was in flight delays both the library's timers and the
        // moment the caller's task observes the result: exact instants are only demanded without one
        let stalled = jumps.iter().any(|(a, b)| *b >= s.t_submit && *a <= t_done);
        let want_pdu = pdu::encode_req(&s.req);
        let sent: Vec<&WireFrame> = wire.iter().filter(|f| f.pdu == want_pdu && f.unit == s.unit).collect();
        if sent.len() > 1 {
            out.violate("C11", "racy/request_transmitted_twice", format!("request {} appears {} times on the wire", id, sent.len()));
            out.violate("C10", "racy/request_transmitted_twice", format!("request {} appears {} times on the wire", id, sent.len()));
            return;
        }
        match &outcome {
            Outcome::Ok(_) | Outcome::Exception(_) | Outcome::BadResponse => {
                let f = match sent.first() {
                    Some(f) => f,
                    None => {
                        out.violate("C10", "racy/result_without_transmission", format!("request {} completed with {:?} but was never transmitted", id, outcome));
                        return;
                    }
                };
                // (requests are unique per run, so "the peer's answer to this request" is well defined
                // even if the library were to reuse a transaction id)
                let justified = replies.iter().any(|r| {
                    r.conn == f.conn
                        && r.tx == f.tx
                        && r.answers.0 == s.unit
                        && r.answers.1 == want_pdu
                        && r.ready_at <= t_done
                        && match pdu::decode_reply(&s.req, &r.pdu) {
                            pdu::ReplyClass::Ok(d) => outcome == Outcome::Ok(d),
                            pdu::ReplyClass::Exception(e) => outcome == Outcome::Exception(e),
                            pdu::ReplyClass::Bad => outcome == Outcome::BadResponse,
                        }
                });
                if !justified {
                    let d = format!("request {} completed with {:?} at {} but no reply to it carrying its transaction id {} with that content had been delivered on its connection", id, outcome, t_done, f.tx);
                    out.violate("C11", "racy/unjustified_result", d.clone());
                    out.violate("C10", "racy/unjustified_result", d.clone());
                    out.violate("C04", "racy/unjustified_result", d);
                    return;
                }
                if !stalled && t_done > served_at(f.t + s.timeout) {
                    let d = format!("request {} succeeded at {} although its deadline was {}", id, t_done, f.t + s.timeout);
                    out.violate("C12", "racy/success_after_deadline", d);
                    return;
                }
            }
            Outcome::Timeout => {
                let f = match sent.first() {
                    Some(f) => f,
                    None => {
                        out.violate("C10", "racy/timeout_without_transmission", format!("request {} timed out but was never transmitted", id));
                        return;
                    }
                };
                if (stalled && t_done < f.t + s.timeout) || (!stalled && t_done != f.t + s.timeout) {
                    let d = format!("request {} transmitted at {} with timeout {} completed with a timeout at {} (expected {})", id, f.t, s.timeout, t_done, served_at(f.t + s.timeout));
                    out.violate("C12", "racy/timeout_instant", d.clone());
                    out.violate("C10", "racy/timeout_instant", d);
                    return;
                }
                // no valid matching reply was readable strictly before the deadline
                let early = replies.iter().find(|r| r.conn == f.conn && r.tx == f.tx && r.answers.0 == s.unit && r.answers.1 == want_pdu && served_at(r.ready_at) < t_done && !matches!(pdu::decode_reply(&s.req, &r.pdu), pdu::ReplyClass::Bad));
                if let Some(r) = early {
                    // unless the connection died before it could be read
                    let died = faults.iter().any(|x| x.conn == f.conn && x.t <= t_done);
                    if !died && !stalled {
                        let d = format!("request {} timed out at {} although a valid reply was readable at {}", id, t_done, r.ready_at);
                        out.violate("C12", "racy/timeout_despite_reply", d.clone());
                        out.violate("C10", "racy/timeout_despite_reply", d);
                        return;
                    }
                }
                out.probe("racy_timeouts");
            }
            Outcome::NoConnection => {
                if !sent.is_empty() {
                    out.violate("C10", "racy/no_connection_but_transmitted", format!("request {} reported NoConnection but was transmitted", id));
                    return;
                }
                let st = state_at(&states, t_done);
                if !stalled && !st.is_empty() && st.iter().all(|s| *s == MState::Connected) {
                    let d = format!("request {} failed with NoConnection at {} while the listener-observed state was Connected throughout that instant", id, t_done);
                    out.violate("C10", "racy/no_connection_while_connected", d.clone());
                    out.violate("C13", "racy/no_connection_while_connected", d);
                    return;
                }
                out.probe("racy_no_connection");
            }
            Outcome::Io(_) | Outcome::BadFrame => {
                let f = sent.first();
                let ok = match f {
                    Some(f) => faults.iter().any(|x| x.conn == f.conn && x.t <= t_done) || conns[f.conn].peer.remote_dropped(),
                    // write error path: never fully transmitted
                    None => !faults.is_empty(),
                };
                if !ok {
                    let d = format!("request {} failed with {:?} at {} but no fault had been injected on its connection", id, outcome, t_done);
                    out.violate("C10", "racy/unjustified_io_error", d);
                    return;
                }
                out.probe("racy_io_errors");
            }
            Outcome::Shutdown => {
                let d = format!("request {} completed with Shutdown at {} although the task had not been shut down", id, t_done);
                out.violate("C10", "racy/shutdown_while_task_alive", d.clone());
                // the task can only be gone because it panicked: what the peer sent brought it down (C04: never a panic)
                if let Some(p) = kernel::with(|w| w.panics.first().cloned()) {
                    out.violate("C04", "racy/client_task_panicked", format!("{}; the client task panicked: {}", d, p));
                }
                return;
            }
            Outcome::Rejected => {
                // the library reports some malformed echoes as BadRequest/Internal (C04 only demands a
                // non-exception error): justified if a bad reply was delivered for this request
                let justified = sent.first().map(|f| replies.iter().any(|r| r.conn == f.conn && r.tx == f.tx && r.ready_at <= t_done && matches!(pdu::decode_reply(&s.req, &r.pdu), pdu::ReplyClass::Bad))).unwrap_or(false);
                if !justified {
                    out.violate("C03", "racy/valid_request_rejected", format!("request {} ({:?}) was rejected", id, s.req));
                    return;
                }
            }
        }
        out.ops_checked += 1;
    }
    // 3. wire discipline: consecutive tx ids in transmission order; one outstanding at a time
    let mut prev: Option<&WireFrame> = None;
    for f in &wire {
        if let Some(p) = prev {
            if f.tx != p.tx.wrapping_add(1) && f.t != p.t {
                // gaps are legal only for ids consumed by requests that never reached the wire (none here: all valid)
                let d = format!("transaction ids on the wire are not consecutive: {} then {} (t={} conn {})", p.tx, f.tx, f.t, f.conn);
                out.violate("C11", "racy/tx_id_sequence", d);
                return;
            }
            // the previous frame's request must have completed before this one was written
            let prev_req = subs.iter().find(|(_, s)| pdu::encode_req(&s.req) == p.pdu && s.unit == p.unit).map(|(id, _)| *id);
            if let Some(pid) = prev_req {
                let done = by_id[&pid][0].0;
                // (the caller may observe the completion late if a process stall intervened)
                let lagged = jumps.iter().any(|(a, b)| *b >= subs[&pid].t_submit && *a <= done);
                if done > f.t && !lagged {
                    let d = format!("frame for tx {} was written at {} while request {} (tx {}) was still outstanding until {}", f.tx, f.t, pid, p.tx, done);
                    out.violate("C11", "racy/two_outstanding", d);
                    return;
                }
            }
        }
        prev = Some(f);
    }
    // 4. listener grammar and retry timing
    let attempts = net::attempts();
    let mut last: Option<(u64, MState)> = None;
    for (t, s) in &states {
        let legal = match (last.map(|x| x.1), s) {
            (None, MState::Disabled) => true,
            (None, _) => false,
            (Some(MState::Disabled), MState::Connecting) => enables.iter().any(|e| *e <= *t),
            (Some(MState::Disabled), MState::Shutdown) => true,
            (Some(MState::Connecting), MState::Connected | MState::WaitAfterFailedConnect(_) | MState::Disabled | MState::Shutdown) => true,
            (Some(MState::Connected), MState::WaitAfterDisconnect(_) | MState::Disabled | MState::Shutdown) => true,
            (Some(MState::WaitAfterFailedConnect(_) | MState::WaitAfterDisconnect(_)), MState::Connecting | MState::Disabled | MState::Shutdown) => true,
            _ => false,
        };
        if !legal {
            out.violate("C13", "racy/illegal_state_transition", format!("listener saw {:?} -> {:?} at {}; full sequence {:?}", last.map(|x| x.1), s, t, states));
            return;
        }
        if let (Some((t0, MState::WaitAfterFailedConnect(d) | MState::WaitAfterDisconnect(d))), MState::Connecting) = (last, s) {
            // (a slow listener delays the start of the wait: then the attempt may only be later)
            if (slow_listener == 0 && *t != served_at(t0 + d)) || *t < t0 + d {
                let msg = format!("announced a wait of {} ns at {} but the next attempt started at {}", d, t0, t);
                out.violate("C14", "racy/wait_not_honoured", msg.clone());
                out.violate("C13", "racy/wait_not_honoured", msg);
                return;
            }
            out.probe("racy_retry_waits");
        }
        if let MState::WaitAfterDisconnect(d) = s {
            if *d != retry_min {
                out.violate("C14", "racy/disconnect_delay", format!("WaitAfterDisconnect({}) but min is {}", d, retry_min));
                return;
            }
        }
        last = Some((*t, *s));
    }
    // retry delays: k-th consecutive failed connect since the last success waits min*2^(k-1), capped
    {
        let mut cur = retry_min;
        for (t, s) in &states {
            match s {
                MState::Connected => cur = retry_min,
                MState::WaitAfterFailedConnect(d) => {
                    if *d != cur {
                        out.violate("C14", "racy/failed_connect_delay", format!("WaitAfterFailedConnect({}) at {} but the doubling strategy (min {} max {}) is at {}", d, t, retry_min, retry_max, cur));
                        return;
                    }
                    cur = cur.saturating_mul(2).min(retry_max);
                }
                _ => {}
            }
        }
    }
    // a connection is given up only for a reason: a fault on it, or exactly N timeouts in a row
    {
        let mut conn_idx = 0usize; // connections are opened in order
        let mut opened = 0usize;
        for (t, s) in &states {
            match s {
                MState::Connected => {
                    conn_idx = opened;
                    opened += 1;
                }
                MState::WaitAfterDisconnect(_) => {
                    let faulted = faults.iter().any(|f| f.conn == conn_idx && f.t <= *t);
                    if !faulted {
                        // outcomes of the requests transmitted on this connection, in order
                        let outs: Vec<Outcome> = wire
                            .iter()
                            .filter(|f| f.conn == conn_idx && f.t <= *t)
                            .filter_map(|f| subs.iter().find(|(_, s)| pdu::encode_req(&s.req) == f.pdu && s.unit == f.unit).map(|(id, _)| by_id[id][0].1.clone()))
                            .collect();
                        let trailing = outs.iter().rev().take_while(|o| **o == Outcome::Timeout).count();
                        let ok = match max_timeouts {
                            Some(n) => trailing == n,
                            None => false,
                        };
                        if !ok {
                            let d = format!("connection {} was dropped at {} without a fault: outcomes on it {:?}, max_response_timeouts={:?}", conn_idx, t, outs, max_timeouts);
                            out.violate("C12", "racy/unjustified_disconnect", d.clone());
                            out.violate("C13", "racy/unjustified_disconnect", d);
                            return;
                        }
                        out.probe("racy_max_timeouts_disconnect");
                    }
                }
                _ => {}
            }
        }
    }
    // no command is lost: after the drain the channel is in the state the last enable/disable asked for
    if let Some((_, last_state)) = states.last() {
        match last_ctrl {
            Some(false) | None => {
                if *last_state != MState::Disabled {
                    out.violate("C13", "racy/disable_lost", format!("the last control command was disable (or none), yet long after it the listener state is {:?}: {:?}", last_state, &states[states.len().saturating_sub(5)..]));
                    return;
                }
            }
            Some(true) => {
                if *last_state == MState::Disabled {
                    out.violate("C13", "racy/enable_lost", format!("the last control command was enable, yet long after it the listener state is Disabled: {:?}", &states[states.len().saturating_sub(5)..]));
                    return;
                }
            }
        }
    }
    // connect attempts happen only in the Connecting state
    for a in &attempts {
        let st = state_at(&states, a.at);
        if !st.contains(&MState::Connecting) {
            out.violate("C13", "racy/attempt_outside_connecting", format!("a connect attempt was made at {} while the listener state was {:?}", a.at, st));
            return;
        }
    }
    // 5. shutdown ends the task from whatever state it is in
    let _ = kernel::block_on(ch.shutdown());
    kernel::advance(2_000 * MS);
    if !rig.task.is_finished() {
        out.violate("C13", "racy/shutdown_not_honoured", format!("task still running 2 s after shutdown; states {:?}", &rig.states.lock().unwrap()[states.len().saturating_sub(3)..]));
        out.violate("C07", "racy/shutdown_not_honoured", "client task did not end after shutdown".into());
        return;
    }
    let fin = rig.states.lock().unwrap().clone();
    if fin.last().map(|x| x.1) != Some(MState::Shutdown) || fin.iter().filter(|x| x.1 == MState::Shutdown).count() != 1 {
        out.violate("C13", "racy/shutdown_state", format!("Shutdown must be reported exactly once and last: {:?}", &fin[fin.len().saturating_sub(4)..]));
        return;
    }
    out.probe_n("racy_frames_on_wire", wire.len() as u64);
    out.probe_n("racy_connections", conns.len() as u64);
    let _ = conns.iter().map(|c| c.opened_at).max();
    out.nontrivial = if out.ops_checked > 0 { Some(wl ^ (next_id as u64) << 40) } else { None };
    out.sample = Some(json!({"scenario": "tcp client racy", "requests": next_id, "frames_on_wire": wire.len(), "connections": conns.len(), "faults": faults.iter().map(|f| f.kind).collect::<Vec<_>>(),
        "max_timeouts": max_timeouts, "queue_capacity": qcap, "latency_ns": lat, "trace": trace.iter().take(25).collect::<Vec<_>>()}));
}
