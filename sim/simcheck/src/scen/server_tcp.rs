//! TCP server workloads: real `create_tcp_server_task` + sessions against
//! director-driven peers; oracle = `model::server` (C01, C02, C17 TCP half) and
//! a metamorphic chunking comparison (C05 server role).

use super::common::*;
use crate::driver::{Mode, RunOut, ScenCfg};
use crate::model::frame::{mbap_frame, mbap_frame_raw, MbapDeframer};
use crate::model::pdu;
use crate::model::server::{Call, Framing, RefServer, UnitMem};
use rodbus::server::*;
use rodbus::*;
use serde_json::json;
use simtokio::kernel::{self, chance, choose, weighted};
use simtokio::net::{self, PeerEnd, TcpListener};
use std::collections::BTreeMap;
use std::net::SocketAddr;
use std::sync::{Arc, Mutex};

pub struct ServerRig {
    pub handle: ServerHandle,
    pub handlers: BTreeMap<u8, Arc<Mutex<Box<MemHandler>>>>,
    pub journal: Journal,
    pub addr: SocketAddr,
    pub task: simtokio::task::JoinHandle<()>,
}

pub fn start_tcp_server(
    addr: SocketAddr,
    units: &BTreeMap<u8, UnitMem>,
    max_sessions: usize,
    filter: AddressFilter,
    decode: DecodeLevel,
) -> ServerRig {
    let journal: Journal = Arc::new(Mutex::new(Vec::new()));
    let mut map = ServerHandlerMap::new();
    let mut handlers = BTreeMap::new();
    for (u, mem) in units {
        let h = MemHandler {
            unit: *u,
            mem: mem.clone(),
            journal: journal.clone(),
        }
        .wrap();
        map.add(UnitId::new(*u), h.clone());
        handlers.insert(*u, h);
    }
    let listener = TcpListener::bind_now(addr).expect("bind");
    let (handle, task) = create_tcp_server_task(max_sessions, listener, map, filter, decode);
    let task = simtokio::task::spawn_named("tcp-server", task.run());
    ServerRig {
        handle,
        handlers,
        journal,
        addr,
        task,
    }
}

pub fn gen_units() -> BTreeMap<u8, UnitMem> {
    let n = weighted(&[4, 3, 2, 1, 1]);
    let n = match n {
        0 => 1,
        1 => 2,
        2 => 3,
        3 => 4,
        _ => 0,
    };
    let mut units = BTreeMap::new();
    let mut tries = 0;
    while units.len() < n && tries < 20 {
        tries += 1;
        let u = if chance(4, 5) {
            UNIT_POOL[choose(UNIT_POOL.len() as u32) as usize]
        } else {
            choose(256) as u8
        };
        if !units.contains_key(&u) {
            let seed = 0x5eed_0000 + u as u64 * 977 + choose(1000) as u64;
            units.insert(u, gen_unit_mem(seed));
        }
    }
    units
}

pub fn pick_dest(units: &BTreeMap<u8, UnitMem>) -> u8 {
    let keys: Vec<u8> = units.keys().copied().collect();
    if !keys.is_empty() && chance(7, 10) {
        keys[choose(keys.len() as u32) as usize]
    } else if chance(2, 3) {
        UNIT_POOL[choose(UNIT_POOL.len() as u32) as usize]
    } else {
        choose(256) as u8
    }
}

/// Check the journal segment produced while serving `frames` against the
/// model's expectations. Returns Err(description) on the first deviation.
pub fn check_journal(
    actual: &[(u8, Call)],
    expected: &[crate::model::server::Expected],
    out: &mut RunOut,
) -> Result<(), String> {
    let mut i = 0usize;
    for ex in expected {
        if ex.class == "broadcast" {
            // order across units is not part of the statement: compare as a multiset
            let n = ex.calls.len();
            if i + n > actual.len() {
                return Err(format!(
                    "broadcast: expected {} handler calls, journal has only {} more",
                    n,
                    actual.len() - i
                ));
            }
            let mut got: Vec<&(u8, Call)> = actual[i..i + n].iter().collect();
            for want in &ex.calls {
                match got.iter().position(|g| *g == want) {
                    Some(p) => {
                        got.remove(p);
                    }
                    None => return Err(format!("broadcast: missing handler call {:?}", want)),
                }
            }
            i += n;
            continue;
        }
        for want in &ex.calls {
            match actual.get(i) {
                Some(got) if got == want => i += 1,
                Some(got) => return Err(format!("expected call {:?}, got {:?}", want, got)),
                None => return Err(format!("expected call {:?}, got none", want)),
            }
        }
        if let Some((unit, ty, start, count)) = ex.reads_within {
            let mut n = 0;
            while let Some((u, c)) = actual.get(i) {
                let addr = match (ty, c) {
                    (1, Call::ReadCoil(a)) => *a,
                    (2, Call::ReadDiscrete(a)) => *a,
                    (3, Call::ReadHolding(a)) => *a,
                    (4, Call::ReadInput(a)) => *a,
                    _ => break,
                };
                // a call that this request does not justify is left for the next
                // request; whatever remains unclaimed at the end is the violation
                let off = addr.wrapping_sub(start);
                if *u != unit || addr < start || off >= count {
                    break;
                }
                i += 1;
                n += 1;
            }
            out.probe_n("read_callbacks", n);
        }
    }
    if i < actual.len() {
        return Err(format!(
            "unexpected handler/authorization call {:?} (journal has {} entries beyond what the requests justify)",
            actual[i],
            actual.len() - i
        ));
    }
    Ok(())
}

struct Sess {
    peer: PeerEnd,
    deframer: MbapDeframer,
    expected: Vec<u8>,
    got: Vec<u8>,
    expect_closed: bool,
    stream: Vec<u8>,
    cuts: Vec<usize>,
    pos: usize,
}

pub fn cut_plan(len: usize, frame_ends: &[usize]) -> Vec<usize> {
    // returns ascending cut offsets ending with len
    let mut cuts = Vec::new();
    match weighted(&[3, 3, 3, 1, 1]) {
        0 => cuts.extend_from_slice(frame_ends), // frame by frame
        1 => {}                                   // everything at once (pipelined)
        2 => {
            // random cuts
            let n = 1 + choose(6) as usize;
            for _ in 0..n {
                if len > 1 {
                    cuts.push(1 + choose(len as u32 - 1) as usize);
                }
            }
        }
        3 => {
            // byte at a time (bounded)
            if len <= 64 {
                cuts.extend(1..len);
            } else {
                cuts.extend(1..32);
            }
        }
        _ => {
            // first read fills the 260-byte buffer exactly, then the rest in pieces
            if len > 260 {
                cuts.push(260);
                if len > 300 {
                    cuts.push(260 + 1 + choose((len - 261) as u32) as usize);
                }
            }
        }
    }
    cuts.push(len);
    cuts.sort();
    cuts.dedup();
    cuts.retain(|c| *c > 0 && *c <= len);
    cuts
}

fn gen_frames(units: &BTreeMap<u8, UnitMem>, n: usize, allow_bad_header: bool) -> (Vec<u8>, Vec<usize>, u64) {
    let mut stream = Vec::new();
    let mut ends = Vec::new();
    let mut h = 0u64;
    let bad_at = if allow_bad_header && chance(1, 6) {
        Some(choose(n as u32 + 1) as usize)
    } else {
        None
    };
    for i in 0..n {
        if bad_at == Some(i) {
            let f = match choose(5) {
                0 => mbap_frame_raw(choose(65536) as u16, 1 + choose(65535) as u16, 6, 1, &[3, 0, 0, 0, 1]),
                1 => mbap_frame_raw(choose(65536) as u16, 0, 0, 1, &[]),
                2 => mbap_frame_raw(choose(65536) as u16, 0, 255, 1, &vec![3u8; 254]),
                3 => mbap_frame_raw(choose(65536) as u16, 0, 255 + choose(65281) as u16, 1, &[3, 0, 0, 0, 1]),
                _ => mbap_frame_raw(choose(65536) as u16, 0x0100, 6, 1, &[3, 0, 0, 0, 1]),
            };
            stream.extend(f);
            ends.push(stream.len());
        }
        let pdu = gen_request_pdu();
        let dest = pick_dest(units);
        let tx = choose(65536) as u16;
        hash_bytes(&mut h, &pdu);
        hash_bytes(&mut h, &[dest]);
        stream.extend(mbap_frame(tx, dest, &pdu));
        ends.push(stream.len());
    }
    (stream, ends, h)
}

fn setup_kernel_cfg(cfg: &ScenCfg) {
    let sched = chance(1, 2);
    let sel = chance(1, 2);
    let chunk = chance(1, 2);
    let short = chance(1, 3);
    let lat = if cfg.faults && chance(1, 2) { 1_000_000 } else { 0 };
    kernel::with(|w| {
        w.cfg.sched_random = sched;
        w.cfg.select_random = sel;
        w.cfg.chunk_reads = chunk;
        w.cfg.short_writes = short;
        w.cfg.max_latency_ns = lat;
    });
}

/// C01 / C02 / C17 (TCP): model-based, lock-step
pub fn run_model(cfg: &ScenCfg, out: &mut RunOut) {
    setup_kernel_cfg(cfg);
    let (dec_idx, decode) = pick_decode(&cfg.decode);
    let units = gen_units();
    let addr: SocketAddr = "10.0.0.1:502".parse().unwrap();
    let mut rig = start_tcp_server(addr, &units, 8, AddressFilter::Any, decode);
    let mut model = RefServer {
        framing: Framing::Mbap,
        units: units.clone(),
        auth: None,
    };
    kernel::settle();
    let nsess = 1 + weighted(&[5, 2, 1]) as usize;
    let mut sessions: Vec<Sess> = Vec::new();
    let mut wl_hash = dec_idx as u64;
    let mut total_frames = 0usize;
    for s in 0..nsess {
        let from: SocketAddr = format!("10.0.1.{}:{}", s + 1, 5000 + s).parse().unwrap();
        let peer = net::connect_from(addr, from).expect("server must be listening");
        let n = 1 + choose(if nsess == 1 { 12 } else { 6 }) as usize;
        total_frames += n;
        let (stream, ends, h) = gen_frames(&units, n, true);
        wl_hash ^= h.rotate_left(s as u32 * 7);
        let cuts = cut_plan(stream.len(), &ends);
        sessions.push(Sess {
            peer,
            deframer: MbapDeframer::default(),
            expected: Vec::new(),
            got: Vec::new(),
            expect_closed: false,
            stream,
            cuts,
            pos: 0,
        });
    }
    kernel::settle();
    let mut journal_pos = 0usize;
    let mut action = 0u32;
    let mut frames_checked = 0u64;
    let mut sample_frames: Vec<serde_json::Value> = Vec::new();
    loop {
        let live: Vec<usize> = (0..sessions.len()).filter(|i| !sessions[*i].cuts.is_empty()).collect();
        if live.is_empty() {
            break;
        }
        // decode-level changes: by the workload (tape) and, for paired replays, by the plan
        if chance(1, 12) {
            let lvl = decode_level(choose(36) as u8);
            let mut fut = Box::pin(rig.handle.set_decode_level(lvl));
            let _ = kernel::block_on(fut.as_mut());
            out.probe("decode_change_midstream");
        }
        if let Some((k, lvl)) = cfg.decode.change_at {
            if k == action {
                let mut fut = Box::pin(rig.handle.set_decode_level(decode_level(lvl)));
                let _ = kernel::block_on(fut.as_mut());
                out.probe("decode_change_injected");
            }
        }
        action += 1;
        let si = live[choose(live.len() as u32) as usize];
        let s = &mut sessions[si];
        let cut = s.cuts.remove(0);
        let chunk = s.stream[s.pos..cut].to_vec();
        s.pos = cut;
        if s.deframer.pending() > 0 && s.deframer.pending() < 7 {
            out.probe("cut_in_header");
        } else if s.deframer.pending() >= 7 {
            out.probe("cut_in_body");
        }
        if chance(1, 8) {
            // the link is idle for a long time (also in the middle of a frame): nothing may depend on it
            kernel::advance([1_000_000_000u64, 2_000_000_000, 2_000_000_001, 4_000_000_000, 30_000_000_000, 3_600_000_000_000][choose(6) as usize]);
            out.probe(if s.deframer.pending() > 0 { "long_idle_mid_frame" } else { "long_idle_between_frames" });
        }
        s.peer.write(&chunk);
        kernel::settle();
        // model
        let was_dead = s.deframer.dead;
        let frames = s.deframer.feed(&chunk);
        let mut exps = Vec::new();
        for f in &frames {
            let ex = model.serve(f.unit, &f.pdu);
            if let Some(r) = &ex.reply {
                s.expected.extend(mbap_frame(f.tx, f.unit, r));
            }
            if sample_frames.len() < 6 {
                sample_frames.push(json!({"unit": f.unit, "tx": f.tx, "pdu": hex(&f.pdu), "class": ex.class,
                    "expected_reply": ex.reply.as_ref().map(|r| hex(r))}));
            }
            exps.push((f.clone(), ex));
        }
        if s.deframer.dead && !was_dead {
            s.expect_closed = true;
            out.probe("invalid_header_delivered");
        }
        s.got.extend(s.peer.take_received());
        frames_checked += frames.len() as u64;
        // --- replies: align the new reply frames with the requests of this action
        let dev = reply_deviation(&exps, &s.got, s.expected.len() - exps.iter().filter_map(|(f, ex)| ex.reply.as_ref().map(|r| mbap_frame(f.tx, f.unit, r).len())).sum::<usize>());
        if let Some((rule, frame_idx)) = dev {
            let mut props: Vec<&'static str> = vec!["C01"];
            let cls = frame_idx.and_then(|i| exps.get(i)).map(|(_, ex)| ex.class).unwrap_or("");
            // on TCP unit id 0 is an ordinary address: answered iff a handler is configured for it
            let to_unit0 = frame_idx.and_then(|i| exps.get(i)).map(|(f, _)| f.unit == 0).unwrap_or(false);
            if cls.contains("unconfigured") || cls == "empty" || to_unit0 {
                props.push("C17");
            }
            if s.expect_closed {
                props.push("C05");
            }
            // known finding: write-multiple quantity above the write limit accepted
            let is_known = frame_idx
                .and_then(|i| exps.get(i))
                .map(|(f, ex)| ex.class == "malformed" && pdu::over_write_limit_only(&f.pdu))
                .unwrap_or(false)
                && out.known("C01", "server_accepts_write_multiple_above_limit");
            let is_known = is_known
                || (cls.ends_with("_unconfigured") && rule.starts_with("unexpected_reply") && out.known("C01", "server_answers_error_for_unconfigured_unit"));
            if !is_known {
                let panicked = kernel::with(|w| !w.panics.is_empty());
                let rule = format!("{}{}", rule, if panicked { "/task_panicked" } else { "" });
                let detail = format!(
                    "session {} after action {}: {} . expected stream tail={} got tail={} frames={:?}",
                    si,
                    action,
                    rule,
                    hex(&s.expected[s.expected.len().saturating_sub(24)..]),
                    hex(&s.got[s.got.len().saturating_sub(24)..]),
                    exps.iter().map(|(f, ex)| format!("unit={} tx={} {} pdu={}", f.unit, f.tx, ex.class, hex(&f.pdu[..f.pdu.len().min(12)]))).collect::<Vec<_>>()
                );
                for p in props {
                    out.violate(p, &rule, detail.clone());
                }
                // the same deviation may also show in what the handlers were asked to do
                let j: Vec<(u8, Call)> = rig.journal.lock().unwrap()[journal_pos..].to_vec();
                let expected_calls: Vec<crate::model::server::Expected> = exps.iter().map(|(_, e)| e.clone()).collect();
                if let Err(e) = check_journal(&j, &expected_calls, out) {
                    out.violate("C02", "handler_journal", format!("session {} action {}: {} (journal segment: {:?})", si, action, e, &j[..j.len().min(6)]));
                }
                break;
            } else {
                // stay aligned with what the implementation did: resynchronise the model
                resync_after_known(&mut model, &rig, s);
            }
        }
        // --- handler journal
        let j: Vec<(u8, Call)> = rig.journal.lock().unwrap()[journal_pos..].to_vec();
        journal_pos += j.len();
        let any_unit0 = exps.iter().any(|(f, _)| f.unit == 0);
        let expected_calls: Vec<crate::model::server::Expected> = exps.into_iter().map(|(_, e)| e).collect();
        if let Err(e) = check_journal(&j, &expected_calls, out) {
            let known = j.iter().any(|(_, c)| matches!(c, Call::WriteCoils(_, n, _) if *n > pdu::MAX_WRITE_COILS) || matches!(c, Call::WriteRegs(_, n, _) if *n > pdu::MAX_WRITE_REGS))
                && out.known("C02", "handler_called_for_write_multiple_above_limit");
            if !known {
                let d = format!("session {} action {}: {} (journal segment: {:?})", si, action, e, &j[..j.len().min(6)]);
                out.violate("C02", "handler_journal", d.clone());
                if any_unit0 {
                    out.violate("C17", "handler_journal", d);
                }
                break;
            } else {
                resync_after_known(&mut model, &rig, &mut sessions[si]);
            }
        }
        let s = &mut sessions[si];
        // --- closure after an invalid header
        if s.expect_closed {
            if !s.peer.remote_closed() {
                out.violate(
                    "C05",
                    "invalid_header_not_fatal",
                    format!("session {}: invalid MBAP header delivered but the server did not end the session", si),
                );
                break;
            }
            // nothing after it is interpreted: drop the rest of this session's script
            s.cuts.clear();
        } else if s.peer.remote_closed() {
            out.violate(
                "C01",
                "session_closed_unexpectedly",
                format!("session {} was closed by the server after well-framed input (action {})", si, action),
            );
            break;
        }
        out.state((s.deframer.pending() as u64) << 8 | (s.expect_closed as u64) | ((frames.len() as u64) << 20));
    }
    // final: application state equals the model's
    if out.violations.is_empty() {
        for (u, h) in &rig.handlers {
            let g = h.lock().unwrap();
            let m = &model.units[u];
            if g.mem.coils != m.coils || g.mem.holding != m.holding {
                out.violate(
                    "C02",
                    "application_state",
                    format!("unit {}: point memory differs from the reference model after the run", u),
                );
            }
        }
    }
    if kernel::with(|w| w.net.zero_capacity_reads) > 0 {
        out.violate("C05", "zero_capacity_read", "the library issued a read with a zero-length buffer".into());
    }
    out.ops_checked = frames_checked;
    if frames_checked > 0 {
        out.nontrivial = Some(wl_hash);
    }
    out.sample = Some(json!({"scenario": "tcp server vs reference model", "units": units.keys().collect::<Vec<_>>(),
        "sessions": nsess, "frames": total_frames, "decode_level_index": dec_idx, "first_frames": sample_frames}));
    // observable digest for paired runs (C20)
    for s in &sessions {
        out.observable.extend_from_slice(&(s.got.len() as u32).to_le_bytes());
        out.observable.extend_from_slice(&s.got);
    }
    out.observable.extend(format!("{:?}", rig.journal.lock().unwrap()).into_bytes());
    // orderly end
    {
        let mut fut = Box::pin(rig.handle.shutdown());
        let _ = kernel::block_on(fut.as_mut());
    }
    kernel::settle();
}

/// Compare the reply frames produced in one action with the expectations.
/// `base` = length of the expected stream before this action. Returns the rule
/// id of the first deviation and the index of the request frame it belongs to.
fn reply_deviation(
    exps: &[(crate::model::frame::MbapFrame, crate::model::server::Expected)],
    got: &[u8],
    base: usize,
) -> Option<(String, Option<usize>)> {
    if got.len() < base {
        return Some(("reply_stream_shrank".into(), None));
    }
    let mut d = MbapDeframer::default();
    let got_frames = d.feed(&got[base..]);
    let garbage = d.dead || d.pending() > 0;
    let mut gi = 0usize;
    for (i, (f, ex)) in exps.iter().enumerate() {
        match &ex.reply {
            Some(r) => match got_frames.get(gi) {
                Some(g) if g.tx == f.tx && g.unit == f.unit && g.pdu == *r => gi += 1,
                Some(g) if g.tx == f.tx && g.unit == f.unit => return Some((format!("wrong_reply/{}", ex.class), Some(i))),
                Some(_) => return Some((format!("misaddressed_or_reordered_reply/{}", ex.class), Some(i))),
                None => return Some((format!("missing_reply/{}", ex.class), Some(i))),
            },
            None => {
                if let Some(g) = got_frames.get(gi) {
                    // is this frame an answer to the request that must stay unanswered?
                    let next_expected = exps[i + 1..].iter().find(|(_, e)| e.reply.is_some());
                    let is_next = next_expected
                        .map(|(nf, ne)| nf.tx == g.tx && nf.unit == g.unit && Some(&g.pdu) == ne.reply.as_ref())
                        .unwrap_or(false);
                    if g.tx == f.tx && g.unit == f.unit && !is_next {
                        return Some((format!("unexpected_reply/{}", ex.class), Some(i)));
                    }
                }
            }
        }
    }
    if gi < got_frames.len() {
        return Some(("extra_reply".into(), None));
    }
    if garbage {
        return Some(("reply_stream_not_mbap".into(), None));
    }
    None
}

/// after a known-finding deviation: adopt the implementation's state so that
/// later steps are still compared exactly
fn resync_after_known(model: &mut RefServer, rig: &ServerRig, s: &mut Sess) {
    for (u, h) in &rig.handlers {
        let g = h.lock().unwrap();
        if let Some(m) = model.units.get_mut(u) {
            m.coils = g.mem.coils.clone();
            m.holding = g.mem.holding.clone();
        }
    }
    s.expected = s.got.clone();
}

/// C05 (server role): the same stream delivered frame-by-frame to server A and
/// under an arbitrary chunking (plus mid-frame commands) to server B must give
/// identical replies, handler calls and closure.
pub fn run_chunking(cfg: &ScenCfg, out: &mut RunOut) {
    setup_kernel_cfg(cfg);
    let (dec_idx, decode) = pick_decode(&cfg.decode);
    let units = gen_units();
    let a_addr: SocketAddr = "10.0.0.1:502".parse().unwrap();
    let b_addr: SocketAddr = "10.0.0.2:502".parse().unwrap();
    let mut rig_a = start_tcp_server(a_addr, &units, 4, AddressFilter::Any, decode);
    let mut rig_b = start_tcp_server(b_addr, &units, 4, AddressFilter::Any, decode);
    kernel::settle();
    let n = 1 + choose(12) as usize;
    let (stream, ends, h) = gen_frames(&units, n, true);
    let pa = net::connect_from(a_addr, "10.0.1.1:4000".parse().unwrap()).unwrap();
    let pb = net::connect_from(b_addr, "10.0.1.1:4001".parse().unwrap()).unwrap();
    kernel::settle();
    // A: canonical
    let mut pos = 0;
    for e in &ends {
        pa.write(&stream[pos..*e]);
        pos = *e;
        kernel::settle();
    }
    let got_a = pa.take_received();
    let closed_a = pa.remote_closed();
    // B: arbitrary cuts, optional delays between chunks, commands in between
    let mut cuts = cut_plan(stream.len(), &ends);
    // bias: a cut right inside a header and inside a body of some frame
    if stream.len() > 10 && chance(1, 2) {
        let f = choose(ends.len() as u32) as usize;
        let start = if f == 0 { 0 } else { ends[f - 1] };
        let c = start + 1 + choose(6) as usize;
        if c < stream.len() {
            cuts.push(c);
        }
        if ends[f] - start > 8 {
            cuts.push(start + 7 + choose((ends[f] - start - 7) as u32) as usize);
        }
        cuts.sort();
        cuts.dedup();
    }
    // fault: one read of server B fails in the middle of the stream, with a transient kind (the stream
    // is intact afterwards) or a fatal one. A third server C receives only the bytes before that point.
    // B must then behave like A (it carried on, correctly) or like C and close (it gave up there) -
    // nothing in between
    let read_fault: Option<(usize, std::io::ErrorKind)> = if cfg.faults && stream.len() > 2 && chance(1, 3) {
        let f = 1 + choose(stream.len() as u32 - 1) as usize;
        let kind = [std::io::ErrorKind::Interrupted, std::io::ErrorKind::WouldBlock, std::io::ErrorKind::TimedOut, std::io::ErrorKind::ConnectionReset][choose(4) as usize];
        Some((f, kind))
    } else {
        None
    };
    let mut got_c: Option<(Vec<u8>, String)> = None;
    if let Some((f, _)) = read_fault {
        let c_addr: SocketAddr = "10.0.0.3:502".parse().unwrap();
        let mut rig_c = start_tcp_server(c_addr, &units, 4, AddressFilter::Any, decode);
        kernel::settle();
        let pc = net::connect_from(c_addr, "10.0.1.1:4002".parse().unwrap()).unwrap();
        kernel::settle();
        let mut pos = 0;
        for e in ends.iter().copied().chain(std::iter::once(f)) {
            let e = e.min(f);
            if e > pos {
                pc.write(&stream[pos..e]);
                pos = e;
                kernel::settle();
            }
        }
        got_c = Some((pc.take_received(), format!("{:?}", rig_c.journal.lock().unwrap())));
        let mut fut = Box::pin(rig_c.handle.shutdown());
        let _ = kernel::block_on(fut.as_mut());
        drop(fut);
        kernel::count("fault_read_err_mid_stream");
        out.probe("read_error_mid_stream");
    }
    let mut fault_armed = false;
    let mut pos = 0;
    let mut deframer = MbapDeframer::default();
    for c in &cuts {
        if *c <= pos {
            continue;
        }
        if let Some((f, kind)) = read_fault {
            if !fault_armed && *c > f {
                pb.inject_read_error((f - pos) as u64, kind);
                fault_armed = true;
            }
        }
        if deframer.pending() > 0 {
            if deframer.pending() < 7 {
                out.probe("cut_in_header");
            } else {
                out.probe("cut_in_body");
            }
            if chance(1, 3) {
                // a server command processed while a frame is partially received
                let mut fut = Box::pin(rig_b.handle.set_decode_level(decode));
                let _ = kernel::block_on(fut.as_mut());
                out.probe("command_mid_frame");
            }
        }
        let chunk = &stream[pos..*c];
        if chance(1, 8) {
            // a long pause before this chunk, possibly in the middle of a frame
            kernel::advance([1_000_000_000u64, 2_000_000_000, 2_000_000_001, 4_000_000_000, 30_000_000_000, 3_600_000_000_000][choose(6) as usize]);
            out.probe(if deframer.pending() > 0 { "long_idle_mid_frame" } else { "long_idle_between_frames" });
        }
        if cfg.faults && chance(1, 4) {
            pb.write_delayed(chunk, 1 + choose(5_000_000) as u64);
            kernel::advance(6_000_000);
        } else {
            pb.write(chunk);
            kernel::settle();
        }
        deframer.feed(chunk);
        if chunk.len() >= 260 {
            out.probe("chunk_fills_buffer");
        }
        pos = *c;
    }
    let got_b = pb.take_received();
    let closed_b = pb.remote_closed();
    let ja = format!("{:?}", rig_a.journal.lock().unwrap());
    let jb = format!("{:?}", rig_b.journal.lock().unwrap());
    if let (Some((f, kind)), Some((rc, jc))) = (read_fault, &got_c) {
        let carried_on = got_b == got_a && jb == ja && closed_a == closed_b;
        let gave_up = &got_b == rc && &jb == jc && closed_b;
        let transient = matches!(kind, std::io::ErrorKind::Interrupted | std::io::ErrorKind::WouldBlock);
        if !(gave_up || (transient && carried_on)) {
            let d = format!(
                "a read of the server failed with {:?} at byte {} of a {}-byte stream ({} frames, chunking {:?}): {} reply bytes (closed={}); carrying on correctly would give {}, giving up there {} and a closed session",
                kind, f, stream.len(), n, &cuts[..cuts.len().min(12)], got_b.len(), closed_b, got_a.len(), rc.len()
            );
            out.violate("C05", "read_error_mid_stream", d.clone());
            out.violate("C01", "read_error_mid_stream", d.clone());
            out.violate("C07", "read_error_mid_stream", d);
        }
    } else if got_a != got_b {
        out.violate(
            "C05",
            "chunking_changes_replies",
            format!(
                "same {}-byte stream ({} frames): frame-by-frame delivery gave {} reply bytes, chunking {:?} gave {} (first difference at {})",
                stream.len(),
                n,
                got_a.len(),
                &cuts[..cuts.len().min(12)],
                got_b.len(),
                got_a.iter().zip(got_b.iter()).position(|(x, y)| x != y).unwrap_or(got_a.len().min(got_b.len()))
            ),
        );
    } else if ja != jb {
        out.violate("C05", "chunking_changes_handler_calls", format!("handler journals differ under chunking {:?}", &cuts[..cuts.len().min(12)]));
    } else if closed_a != closed_b {
        out.violate("C05", "chunking_changes_closure", format!("session closed: canonical={} chunked={}", closed_a, closed_b));
    }
    if deframer.dead {
        out.probe("invalid_header_delivered");
        if !closed_a || (!closed_b && read_fault.is_none()) {
            out.violate("C05", "invalid_header_not_fatal", "invalid MBAP header did not end the session".into());
        }
    } else if closed_a || (closed_b && read_fault.is_none()) {
        out.violate("C05", "valid_stream_closed", "a stream of valid headers ended the session".into());
    }
    // absolute: number of reply frames never exceeds number of request frames before the bad header
    if kernel::with(|w| w.net.zero_capacity_reads) > 0 {
        out.violate("C05", "zero_capacity_read", "the library issued a read with a zero-length buffer".into());
    }
    out.ops_checked = n as u64;
    out.nontrivial = Some(h ^ (cuts.len() as u64) << 40 ^ dec_idx as u64);
    out.sample = Some(json!({"scenario": "mbap chunking metamorphic (server)", "stream_len": stream.len(), "frames": n,
        "cuts": cuts, "invalid_header": deframer.dead, "reply_bytes": got_a.len()}));
    out.observable.extend_from_slice(&got_b);
    out.observable.extend(jb.into_bytes());
    for rig in [&mut rig_a, &mut rig_b] {
        let mut fut = Box::pin(rig.handle.shutdown());
        let _ = kernel::block_on(fut.as_mut());
    }
    kernel::settle();
    let _ = cfg.mode == Mode::LockStep;
}

/// Racy server mode: several sessions receive their streams concurrently (chunks of
/// different sessions interleaved without settling, random task schedule, chunked reads,
/// short writes, latency). Sessions address disjoint unit ids, so each session's reply
/// stream and handler calls must equal the model run on that session's frames alone.
pub fn run_racy(cfg: &ScenCfg, out: &mut RunOut) {
    let lat = if chance(1, 2) { 500_000 } else { 0 };
    kernel::with(|w| {
        w.cfg.sched_random = true;
        w.cfg.select_random = true;
        w.cfg.chunk_reads = true;
        w.cfg.short_writes = true;
        w.cfg.max_latency_ns = lat;
    });
    let (dec_idx, decode) = pick_decode(&cfg.decode);
    let nsess = 2 + choose(3) as usize;
    // unit k belongs to session k
    let mut units = BTreeMap::new();
    for k in 0..nsess {
        units.insert(10 + k as u8, gen_unit_mem(0xACE0 + k as u64 * 31 + choose(100) as u64));
    }
    let addr: SocketAddr = "10.0.0.1:502".parse().unwrap();
    let mut rig = start_tcp_server(addr, &units, 8, AddressFilter::Any, decode);
    kernel::settle();
    struct S {
        peer: PeerEnd,
        stream: Vec<u8>,
        cuts: Vec<usize>,
        pos: usize,
        expected: Vec<u8>,
        calls: Vec<crate::model::server::Expected>,
        unit: u8,
    }
    let mut sess: Vec<S> = Vec::new();
    let mut wl = dec_idx as u64;
    for k in 0..nsess {
        let unit = 10 + k as u8;
        let mut only = BTreeMap::new();
        only.insert(unit, units[&unit].clone());
        let n = 1 + choose(8) as usize;
        // frames addressed to this session's unit (or to unconfigured ones)
        let mut stream = Vec::new();
        let mut ends = Vec::new();
        let mut model = RefServer { framing: Framing::Mbap, units: only.clone(), auth: None };
        let mut expected = Vec::new();
        let mut calls = Vec::new();
        for _ in 0..n {
            let pdu = gen_request_pdu();
            let dest = if chance(5, 6) { unit } else { 200 + choose(40) as u8 };
            let tx = choose(65536) as u16;
            hash_bytes(&mut wl, &pdu[..pdu.len().min(6)]);
            stream.extend(mbap_frame(tx, dest, &pdu));
            ends.push(stream.len());
            let ex = model.serve(dest, &pdu);
            if let Some(r) = &ex.reply {
                expected.extend(mbap_frame(tx, dest, r));
            }
            calls.push(ex);
        }
        let cuts = cut_plan(stream.len(), &ends);
        let peer = net::connect_from(addr, format!("10.0.4.{}:{}", k + 1, 7000 + k).parse().unwrap()).unwrap();
        sess.push(S { peer, stream, cuts, pos: 0, expected, calls, unit });
    }
    // fault: one peer stops reading (tiny window) until the end of the run; the others are unaffected
    let stalled: Option<usize> = if cfg.faults && chance(1, 3) { Some(choose(nsess as u32) as usize) } else { None };
    if let Some(i) = stalled {
        sess[i].peer.set_capacity(1 + choose(12) as usize);
        kernel::count("fault_peer_stall");
        out.probe("racy_session_peer_stalled");
    }
    // interleave deliveries and execution freely
    let mut guard = 0;
    loop {
        guard += 1;
        let live: Vec<usize> = (0..sess.len()).filter(|i| !sess[*i].cuts.is_empty()).collect();
        if live.is_empty() || guard > 400 {
            break;
        }
        match weighted(&[3, 2, 1]) {
            0 => {
                let i = live[choose(live.len() as u32) as usize];
                let c = sess[i].cuts.remove(0);
                let chunk = sess[i].stream[sess[i].pos..c].to_vec();
                sess[i].pos = c;
                if chance(1, 3) {
                    sess[i].peer.write_delayed(&chunk, choose(2_000_000) as u64);
                } else {
                    sess[i].peer.write(&chunk);
                }
            }
            1 => {
                for _ in 0..1 + choose(6) {
                    if !kernel::step() {
                        break;
                    }
                }
            }
            _ => {
                if chance(1, 2) {
                    let mut fut = Box::pin(rig.handle.set_decode_level(decode_level(choose(36) as u8)));
                    let _ = kernel::block_on(fut.as_mut());
                } else {
                    kernel::advance(choose(1_000_000) as u64);
                }
            }
        }
    }
    // the turn budget may run out before every chunk was handed over (byte-at-a-time plans over several
    // sessions): the rest of each stream is delivered now, in one piece
    for s in sess.iter_mut() {
        if !s.cuts.is_empty() {
            let rest = s.stream[s.pos..].to_vec();
            s.pos = s.stream.len();
            s.cuts.clear();
            s.peer.write(&rest);
        }
    }
    // faults stop: deliver what is in flight
    kernel::advance(50 * 1_000_000);
    let journal = rig.journal.lock().unwrap().clone();
    // the sessions whose peers kept reading are judged first, while the stalled one is still stalled
    let mut order: Vec<usize> = (0..sess.len()).filter(|i| stalled != Some(*i)).collect();
    order.extend(stalled);
    for i in order {
        let s = &sess[i];
        let mut got = s.peer.take_received();
        if stalled == Some(i) {
            // the stalled peer reads again: everything it is owed arrives, in order
            s.peer.set_capacity(usize::MAX / 2);
            for _ in 0..4000 {
                kernel::settle();
                let part = s.peer.take_received();
                if part.is_empty() {
                    break;
                }
                got.extend(part);
            }
        }
        if got != s.expected {
            out.violate(
                "C01",
                "racy/session_reply_stream",
                format!("session {} (unit {}): concurrent sessions changed its reply stream: got {} bytes, expected {} (first difference at {})", i, s.unit, got.len(), s.expected.len(), got.iter().zip(s.expected.iter()).position(|(a, b)| a != b).unwrap_or(got.len().min(s.expected.len()))),
            );
            out.violate("C15", "racy/session_isolation", format!("session {} reply stream disturbed by other sessions", i));
            return;
        }
        // handler calls of this session's unit, in order
        let journal = if stalled == Some(i) { rig.journal.lock().unwrap().clone() } else { journal.clone() };
        let mine: Vec<(u8, Call)> = journal.iter().filter(|(u, _)| *u == s.unit).cloned().collect();
        if let Err(e) = check_journal(&mine, &s.calls, out) {
            out.violate("C02", "racy/session_journal", format!("session {} (unit {}): {}", i, s.unit, e));
            return;
        }
        if s.peer.remote_closed() {
            out.violate("C15", "racy/session_closed", format!("session {} was closed", i));
            return;
        }
        out.ops_checked += s.calls.len() as u64;
    }
    out.nontrivial = Some(wl ^ (nsess as u64) << 56);
    out.sample = Some(json!({"scenario": "tcp server racy (concurrent sessions, disjoint units)", "sessions": nsess, "latency_ns": lat, "decode_level_index": dec_idx}));
    {
        let mut fut = Box::pin(rig.handle.shutdown());
        let _ = kernel::block_on(fut.as_mut());
    }
    kernel::settle();
}

/// A session stuck inside one transaction (its peer has stopped reading, so the reply
/// cannot be written) while the application changes the decode level 1-20 times. The
/// level changes must not end, skip or reorder that transaction (C20), must not disturb
/// other sessions, the acceptor or shutdown (C15, C07).
pub fn run_level_storm(cfg: &ScenCfg, out: &mut RunOut) {
    setup_kernel_cfg(cfg);
    let (dec_idx, decode) = pick_decode(&cfg.decode);
    let mut units = BTreeMap::new();
    units.insert(1u8, UnitMem::new(0x5707 + choose(50) as u64));
    let addr: SocketAddr = "10.0.0.1:502".parse().unwrap();
    let journal: Journal = Arc::new(Mutex::new(Vec::new()));
    let map = ServerHandlerMap::single(UnitId::new(1), MemHandler { unit: 1, mem: units[&1].clone(), journal: journal.clone() }.wrap());
    let listener = TcpListener::bind_now(addr).expect("bind");
    let (handle, task) = create_tcp_server_task(2 + choose(3) as usize, listener, map, AddressFilter::Any, decode);
    let task = simtokio::task::spawn_named("tcp-server", task.run());
    kernel::settle();
    let mut model = RefServer { framing: Framing::Mbap, units: units.clone(), auth: None };
    let a = net::connect_from(addr, "10.0.3.1:4000".parse().unwrap()).expect("listening");
    kernel::settle();
    // the reply does not fit the peer's window: the session blocks writing it
    let window = 1 + choose(64) as usize;
    a.set_capacity(window);
    let count = 60 + choose(66) as u16;
    let pdu = vec![3, 0, 0, (count >> 8) as u8, count as u8];
    let want_a = mbap_frame(7, 1, model.serve(1, &pdu).reply.as_ref().unwrap());
    a.write(&mbap_frame(7, 1, &pdu));
    // a second request is already waiting behind it
    let pipelined = chance(1, 2);
    let pdu2 = vec![4, 0, 5, 0, 2];
    let want_a2 = mbap_frame(8, 1, model.serve(1, &pdu2).reply.as_ref().unwrap());
    if pipelined {
        a.write(&mbap_frame(8, 1, &pdu2));
    }
    kernel::settle();
    let k = [1usize, 7, 8, 9, 10, 17, 20][choose(7) as usize];
    let levels: Vec<u8> = (0..k).map(|_| choose(36) as u8).collect();
    // submitted from a task (the application's own), which hands the handle back when it is done
    let slot: Arc<Mutex<Option<ServerHandle>>> = Arc::new(Mutex::new(None));
    {
        let slot = slot.clone();
        let levels = levels.clone();
        simtokio::task::spawn_named("level-storm", async move {
            let mut h = handle;
            for l in levels {
                let _ = h.set_decode_level(decode_level(l)).await;
            }
            *slot.lock().unwrap() = Some(h);
        });
    }
    kernel::settle();
    if cfg.faults && chance(1, 2) {
        kernel::advance(1 + choose(5_000_000) as u64);
    }
    out.probe(if k > 8 { "storm_exceeds_session_queue" } else { "storm_within_session_queue" });
    let desc = format!("a session blocked writing a {}-byte reply into a {}-byte window, {} decode-level changes meanwhile{}", want_a.len(), window, k, if pipelined { ", one more request pipelined" } else { "" });
    // another peer is served meanwhile
    let b = net::connect_from(addr, "10.0.3.2:4001".parse().unwrap());
    kernel::settle();
    let pdu_b = vec![3, 0, 9, 0, 1];
    let want_b = mbap_frame(1, 1, model.serve(1, &pdu_b).reply.as_ref().unwrap());
    match &b {
        Some(b) => {
            b.write(&mbap_frame(1, 1, &pdu_b));
            kernel::settle();
            let got = b.take_received();
            if got != want_b {
                let d = format!("{}: a second session received {} (closed={}), expected {}", desc, hex(&got), b.remote_closed(), hex(&want_b));
                out.violate("C15", "stalled_session_blocks_others", d.clone());
                out.violate("C20", "level_change_blocks_server", d);
                return;
            }
        }
        None => {
            out.violate("C15", "not_listening", format!("{}: the server no longer accepts connections", desc));
            return;
        }
    }
    // the stalled peer reads again
    let mut got_a = Vec::new();
    for _ in 0..600 {
        kernel::settle();
        let part = a.take_received();
        if part.is_empty() {
            break;
        }
        got_a.extend(part);
    }
    let mut want = want_a.clone();
    if pipelined {
        want.extend(&want_a2);
    }
    if got_a != want || a.remote_closed() {
        let d = format!("{}: once the peer read again it received {} bytes (closed={}), expected {} (first difference at {})", desc, got_a.len(), a.remote_closed(), want.len(), got_a.iter().zip(want.iter()).position(|(x, y)| x != y).unwrap_or(got_a.len().min(want.len())));
        out.violate("C20", "level_change_interrupts_transaction", d.clone());
        out.violate("C15", "session_closed_by_level_change", d);
        return;
    }
    // and the session goes on
    a.set_capacity(usize::MAX / 2);
    let pdu3 = vec![1, 0, 0, 0, 9];
    let want3 = mbap_frame(9, 1, model.serve(1, &pdu3).reply.as_ref().unwrap());
    a.write(&mbap_frame(9, 1, &pdu3));
    kernel::settle();
    let got3 = a.take_received();
    if got3 != want3 {
        let d = format!("{}: the next request on that session received {} (closed={}), expected {}", desc, hex(&got3), a.remote_closed(), hex(&want3));
        out.violate("C20", "level_change_interrupts_transaction", d.clone());
        out.violate("C15", "session_closed_by_level_change", d);
        return;
    }
    out.ops_checked = 3 + pipelined as u64;
    out.nontrivial = Some((dec_idx as u64) | (k as u64) << 8 | (window as u64) << 16 | (count as u64) << 24 | (pipelined as u64) << 40);
    out.sample = Some(json!({"scenario": "decode-level storm against a stalled session", "changes": k, "window": window, "reply_len": want_a.len(), "pipelined": pipelined}));
    out.observable.extend_from_slice(&got_a);
    let handle = match slot.lock().unwrap().take() {
        Some(h) => h,
        None => {
            let d = format!("{}: set_decode_level had still not returned after the stalled peer was served", desc);
            out.violate("C20", "level_change_blocks_server", d.clone());
            out.violate("C15", "stalled_session_blocks_others", d);
            return;
        }
    };
    {
        let mut fut = Box::pin(handle.shutdown());
        let _ = kernel::block_on(fut.as_mut());
    }
    kernel::settle();
    if !task.is_finished() {
        let d = format!("{}: the server task did not end after shutdown", desc);
        out.violate("C15", "server_task_survives_shutdown", d.clone());
        out.violate("C07", "shutdown_not_honoured", d);
    }
}
