//! Client workloads: the real TCP client task (`create_tcp_client_task_with_options`)
//! against a director-driven peer, compared event for event with
//! `model::client` in lock-step (C03 C04 C10 C11 C12 C13 C14, client half of C05).

use super::common::*;
use crate::driver::{RunOut, ScenCfg};
use crate::model::client::{ClientModel, Cmd, Effect, MState, Outcome, Plan, ReqSpec, Retry, Transport};
use crate::model::frame::{mbap_frame, mbap_frame_raw};
use crate::model::pdu::{self, ReplyData, Req};
use rodbus::client::*;
use rodbus::*;
use serde_json::json;
use simtokio::kernel::{self, chance, choose, weighted};
use simtokio::net::{self, PeerEnd};
use std::collections::BTreeSet;
use std::net::SocketAddr;
use std::sync::{Arc, Mutex};
use std::time::Duration;

pub type Completions = Arc<Mutex<Vec<(usize, u64, Outcome)>>>;
pub type StateLog = Arc<Mutex<Vec<(u64, MState)>>>;

pub fn err_outcome(e: RequestError) -> Outcome {
    match e {
        RequestError::Io(k) => Outcome::Io(format!("{:?}", k)),
        RequestError::Exception(x) => Outcome::Exception(u8::from(x)),
        RequestError::BadRequest(_) => Outcome::Rejected,
        RequestError::Internal(_) => Outcome::Rejected,
        RequestError::BadFrame(_) => Outcome::BadFrame,
        RequestError::BadResponse(_) => Outcome::BadResponse,
        RequestError::ResponseTimeout => Outcome::Timeout,
        RequestError::NoConnection => Outcome::NoConnection,
        RequestError::Shutdown => Outcome::Shutdown,
    }
}

fn bits_outcome(r: Result<Vec<Indexed<bool>>, RequestError>) -> Outcome {
    match r {
        Ok(v) => Outcome::Ok(ReplyData::Bits(v.into_iter().map(|x| (x.index, x.value)).collect())),
        Err(e) => err_outcome(e),
    }
}
fn regs_outcome(r: Result<Vec<Indexed<u16>>, RequestError>) -> Outcome {
    match r {
        Ok(v) => Outcome::Ok(ReplyData::Regs(v.into_iter().map(|x| (x.index, x.value)).collect())),
        Err(e) => err_outcome(e),
    }
}

pub struct Listen {
    pub log: StateLog,
    /// the user's listener future takes this long to resolve (it is awaited inline by the task)
    pub delay_ns: u64,
}

impl Listener<ClientState> for Listen {
    fn update(&mut self, value: ClientState) -> MaybeAsync<()> {
        let s = match value {
            ClientState::Disabled => MState::Disabled,
            ClientState::Connecting => MState::Connecting,
            ClientState::Connected => MState::Connected,
            ClientState::WaitAfterFailedConnect(d) => MState::WaitAfterFailedConnect(d.as_nanos() as u64),
            ClientState::WaitAfterDisconnect(d) => MState::WaitAfterDisconnect(d.as_nanos() as u64),
            ClientState::Shutdown => MState::Shutdown,
        };
        self.log.lock().unwrap().push((kernel::now_ns(), s));
        if self.delay_ns > 0 {
            kernel::count("fault_slow_listener");
            let d = self.delay_ns;
            MaybeAsync::asynchronous(async move { simtokio::time::sleep(Duration::from_nanos(d)).await })
        } else {
            MaybeAsync::ready(())
        }
    }
}

#[derive(Clone, Copy, PartialEq, Eq, Debug)]
pub enum Style {
    Future,
    Callback,
}

fn record(c: &Completions, id: usize, o: Outcome) {
    c.lock().unwrap().push((id, kernel::now_ns(), o));
}

/// Submit `req` through the public API on a spawned task (so the director never blocks).
pub fn submit(channel: &Channel, style: Style, id: usize, req: &Req, unit: u8, timeout: u64, comp: &Completions) {
    // u64::MAX stands for "no time-out": the largest Duration
    let param = RequestParam::new(UnitId::new(unit), if timeout == u64::MAX { Duration::MAX } else { Duration::from_nanos(timeout) });
    let ch = channel.clone();
    let comp = comp.clone();
    let req = req.clone();
    match style {
        Style::Future => {
            simtokio::task::spawn_named("submit-future", async move {
                let o = match req {
                    Req::ReadCoils { start, count } => bits_outcome(ch.read_coils(param, AddressRange { start, count }).await),
                    Req::ReadDiscrete { start, count } => {
                        bits_outcome(ch.read_discrete_inputs(param, AddressRange { start, count }).await)
                    }
                    Req::ReadHolding { start, count } => {
                        regs_outcome(ch.read_holding_registers(param, AddressRange { start, count }).await)
                    }
                    Req::ReadInput { start, count } => {
                        regs_outcome(ch.read_input_registers(param, AddressRange { start, count }).await)
                    }
                    Req::WriteCoil { addr, value } => match ch.write_single_coil(param, Indexed::new(addr, value)).await {
                        Ok(x) => Outcome::Ok(ReplyData::EchoCoil(x.index, x.value)),
                        Err(e) => err_outcome(e),
                    },
                    Req::WriteReg { addr, value } => match ch.write_single_register(param, Indexed::new(addr, value)).await {
                        Ok(x) => Outcome::Ok(ReplyData::EchoReg(x.index, x.value)),
                        Err(e) => err_outcome(e),
                    },
                    Req::WriteCoils { start, values } => match WriteMultiple::from(start, values) {
                        Err(_) => Outcome::Rejected,
                        Ok(w) => match ch.write_multiple_coils(param, w).await {
                            Ok(r) => Outcome::Ok(ReplyData::EchoRange(r.start, r.count)),
                            Err(e) => err_outcome(e),
                        },
                    },
                    Req::WriteRegs { start, values } => match WriteMultiple::from(start, values) {
                        Err(_) => Outcome::Rejected,
                        Ok(w) => match ch.write_multiple_registers(param, w).await {
                            Ok(r) => Outcome::Ok(ReplyData::EchoRange(r.start, r.count)),
                            Err(e) => err_outcome(e),
                        },
                    },
                };
                record(&comp, id, o);
            });
        }
        Style::Callback => {
            #[allow(deprecated)]
            simtokio::task::spawn_named("submit-callback", async move {
                #[allow(deprecated)]
                let mut s = CallbackSession::new(ch, param);
                let c2 = comp.clone();
                match req {
                    Req::ReadCoils { start, count } => {
                        s.read_coils(AddressRange { start, count }, move |r| {
                            record(&c2, id, bits_outcome(r.map(|it| it.collect())))
                        })
                        .await
                    }
                    Req::ReadDiscrete { start, count } => {
                        s.read_discrete_inputs(AddressRange { start, count }, move |r| {
                            record(&c2, id, bits_outcome(r.map(|it| it.collect())))
                        })
                        .await
                    }
                    Req::ReadHolding { start, count } => {
                        s.read_holding_registers(AddressRange { start, count }, move |r| {
                            record(&c2, id, regs_outcome(r.map(|it| it.collect())))
                        })
                        .await
                    }
                    Req::ReadInput { start, count } => {
                        s.read_input_registers(AddressRange { start, count }, move |r| {
                            record(&c2, id, regs_outcome(r.map(|it| it.collect())))
                        })
                        .await
                    }
                    Req::WriteCoil { addr, value } => {
                        s.write_single_coil(Indexed::new(addr, value), move |r| {
                            record(
                                &c2,
                                id,
                                match r {
                                    Ok(x) => Outcome::Ok(ReplyData::EchoCoil(x.index, x.value)),
                                    Err(e) => err_outcome(e),
                                },
                            )
                        })
                        .await
                    }
                    Req::WriteReg { addr, value } => {
                        s.write_single_register(Indexed::new(addr, value), move |r| {
                            record(
                                &c2,
                                id,
                                match r {
                                    Ok(x) => Outcome::Ok(ReplyData::EchoReg(x.index, x.value)),
                                    Err(e) => err_outcome(e),
                                },
                            )
                        })
                        .await
                    }
                    Req::WriteCoils { start, values } => match WriteMultiple::from(start, values) {
                        Err(_) => record(&c2, id, Outcome::Rejected),
                        Ok(w) => {
                            s.write_multiple_coils(w, move |r| {
                                record(
                                    &c2,
                                    id,
                                    match r {
                                        Ok(x) => Outcome::Ok(ReplyData::EchoRange(x.start, x.count)),
                                        Err(e) => err_outcome(e),
                                    },
                                )
                            })
                            .await
                        }
                    },
                    Req::WriteRegs { start, values } => match WriteMultiple::from(start, values) {
                        Err(_) => record(&c2, id, Outcome::Rejected),
                        Ok(w) => {
                            s.write_multiple_registers(w, move |r| {
                                record(
                                    &c2,
                                    id,
                                    match r {
                                        Ok(x) => Outcome::Ok(ReplyData::EchoRange(x.start, x.count)),
                                        Err(e) => err_outcome(e),
                                    },
                                )
                            })
                            .await
                        }
                    },
                }
            });
        }
    }
}

/// A correct reply PDU for `req` with arbitrary data
pub fn correct_reply(req: &Req) -> Vec<u8> {
    let (_, count) = req.range();
    let bits: Vec<bool> = (0..count).map(|_| choose(2) == 1).collect();
    let regs: Vec<u16> = (0..count).map(|i| if i < 3 { pick_u16_boundary() } else { choose(65536) as u16 }).collect();
    pdu::encode_ok_reply(req, &bits, &regs)
}

/// A reply PDU from the mutation grammar of C04 (may also be correct)
pub fn gen_reply_pdu(req: &Req) -> Vec<u8> {
    let good = correct_reply(req);
    match weighted(&[3, 2, 2, 2, 2, 1, 1, 1]) {
        0 => good,
        1 => {
            // exception forms
            let fcb = match weighted(&[4, 1, 1]) {
                0 => req.fc() | 0x80,
                1 => (choose(128) as u8) | 0x80,
                _ => choose(256) as u8,
            };
            let mut v = vec![fcb, pick_exc_code()];
            match weighted(&[5, 1, 1]) {
                0 => {}
                1 => v.truncate(1),
                _ => {
                    for _ in 0..1 + choose(2) {
                        v.push(choose(256) as u8);
                    }
                }
            }
            v
        }
        2 => {
            // length -3..+3
            let mut v = good;
            if chance(1, 2) {
                let k = 1 + choose(3) as usize;
                let n = v.len().saturating_sub(k);
                v.truncate(n);
            } else {
                for _ in 0..1 + choose(3) {
                    v.push(choose(256) as u8);
                }
            }
            v.truncate(253);
            v
        }
        3 => {
            // byte-count / echo fields off by one or bit-flipped
            let mut v = good;
            if v.len() > 1 {
                let i = 1 + choose((v.len() as u32 - 1).min(4)) as usize;
                match choose(3) {
                    0 => v[i] = v[i].wrapping_add(1),
                    1 => v[i] = v[i].wrapping_sub(1),
                    _ => v[i] ^= 1 << choose(8),
                }
            }
            v
        }
        4 => {
            // wrong function byte
            let mut v = good;
            v[0] = match weighted(&[2, 1, 1]) {
                0 => [1u8, 2, 3, 4, 5, 6, 15, 16][choose(8) as usize],
                1 => v[0] ^ (1 << choose(8)),
                _ => choose(256) as u8,
            };
            v
        }
        5 => Vec::new(),
        6 => {
            // undefined coil value / self-consistent but wrong quantity
            match req {
                Req::WriteCoil { addr, .. } => {
                    let x = [0x00FFu16, 0xFF01, 0x0001, 0x1234, 0xFFFF][choose(5) as usize];
                    vec![5, (*addr >> 8) as u8, *addr as u8, (x >> 8) as u8, x as u8]
                }
                Req::ReadHolding { .. } | Req::ReadInput { .. } => {
                    let n = choose(8) as usize;
                    let mut v = vec![req.fc(), (2 * n) as u8];
                    for _ in 0..2 * n {
                        v.push(choose(256) as u8);
                    }
                    v
                }
                Req::ReadCoils { .. } | Req::ReadDiscrete { .. } => {
                    let n = choose(5) as usize;
                    let mut v = vec![req.fc(), n as u8];
                    for _ in 0..n {
                        v.push(choose(256) as u8);
                    }
                    v
                }
                _ => good,
            }
        }
        _ => {
            let n = choose(254) as usize;
            (0..n).map(|_| choose(256) as u8).collect()
        }
    }
}

pub struct ClientRig {
    pub channel: Option<Channel>,
    pub task: simtokio::task::JoinHandle<()>,
    pub states: StateLog,
    pub comps: Completions,
    pub addr: SocketAddr,
}

pub fn start_tcp_client(addr: SocketAddr, retry: (u64, u64), opts: ClientOptions) -> ClientRig {
    start_tcp_client_slow(addr, retry, opts, 0)
}

pub fn start_tcp_client_slow(addr: SocketAddr, retry: (u64, u64), opts: ClientOptions, listener_delay_ns: u64) -> ClientRig {
    start_tcp_client_host(HostAddr::ip(addr.ip(), addr.port()), addr, retry, opts, listener_delay_ns)
}

pub fn start_tcp_client_host(host: HostAddr, addr: SocketAddr, retry: (u64, u64), opts: ClientOptions, listener_delay_ns: u64) -> ClientRig {
    let states: StateLog = Arc::new(Mutex::new(Vec::new()));
    let comps: Completions = Arc::new(Mutex::new(Vec::new()));
    let (channel, task) = create_tcp_client_task_with_options(
        host,
        doubling_retry_strategy(Duration::from_nanos(retry.0), Duration::from_nanos(retry.1)),
        Some(Box::new(Listen { log: states.clone(), delay_ns: listener_delay_ns })),
        opts,
    );
    let task = simtokio::task::spawn_named("tcp-client", task.run());
    ClientRig {
        channel: Some(channel),
        task,
        states,
        comps,
        addr,
    }
}

pub(crate) fn spawn_cmd(ch: &Channel, what: u8, lvl: u8) {
    let ch = ch.clone();
    simtokio::task::spawn_named("cmd", async move {
        let _ = match what {
            0 => ch.enable().await,
            1 => ch.disable().await,
            2 => ch.set_decode_level(decode_level(lvl)).await,
            _ => ch.shutdown().await,
        };
    });
}

pub(crate) const MS: u64 = 1_000_000;

fn pick_timeout() -> u64 {
    // the last one: Duration::MAX, i.e. the caller does not want a time-out at all
    [1 * MS, 10 * MS, 100 * MS, 250 * MS, 1000 * MS, 5000 * MS, 60_000 * MS, 1 * MS, 10 * MS, 100 * MS, 1000 * MS, u64::MAX, 0, 1][choose(14) as usize]
}

pub const RTU_PATH: &str = "/dev/ttySIM1";
const DNS_NAME: &str = "plc.example";

enum Link {
    Tcp { addr: SocketAddr, peer: Option<PeerEnd> },
    Rtu { open: bool, opens_seen: usize, closes_seen: usize },
}

struct Lock {
    rig: ClientRig,
    model: ClientModel,
    link: Link,
    expected_wire: Vec<u8>,
    got_wire: Vec<u8>,
    seen_states: usize,
    seen_comps: usize,
    seen_attempts: usize,
    eff_pos: usize,
    last_peer_action: &'static str,
    ever_submitted: BTreeSet<usize>,
    completed: BTreeSet<usize>,
    frames_tx: u64,
    wire_log: Vec<u8>,
    writes_seen: usize,
}

impl Lock {
    /// the model, after it has been told about the write calls the implementation has made meanwhile
    fn m(&mut self) -> &mut ClientModel {
        if self.model.observed_writes.is_some() {
            let w = simtokio::serial::writes(RTU_PATH);
            if let Some(obs) = self.model.observed_writes.as_mut() {
                obs.extend(w[self.writes_seen.min(w.len())..].iter().copied());
            }
            self.writes_seen = w.len();
        }
        &mut self.model
    }
    fn is_rtu(&self) -> bool {
        matches!(self.link, Link::Rtu { .. })
    }
    fn send(&self, data: &[u8]) {
        match &self.link {
            Link::Tcp { peer, .. } => peer.as_ref().expect("model connected => peer").write(data),
            Link::Rtu { .. } => simtokio::serial::line_write(RTU_PATH, data),
        }
    }
    fn mk_frame(&self, tx: u16, unit: u8, pdu: &[u8]) -> Vec<u8> {
        if self.is_rtu() {
            crate::model::frame::rtu_frame(unit, pdu)
        } else {
            mbap_frame(tx, unit, pdu)
        }
    }
    fn take_wire(&self) -> Vec<u8> {
        match &self.link {
            Link::Tcp { peer, .. } => peer.as_ref().map(|p| p.take_received()).unwrap_or_default(),
            Link::Rtu { .. } => simtokio::serial::line_take(RTU_PATH),
        }
    }
    fn attempt_times(&self) -> Vec<u64> {
        match &self.link {
            Link::Tcp { .. } => net::attempts().iter().map(|a| a.at).collect(),
            Link::Rtu { .. } => simtokio::serial::opens(RTU_PATH).iter().map(|a| a.at).collect(),
        }
    }
    /// the model says a connection was established: adopt it. false = there is none
    fn conn_open(&mut self) -> bool {
        match &mut self.link {
            Link::Tcp { addr, peer } => match net::stub_accept(*addr) {
                Some(p) => {
                    *peer = Some(p);
                    true
                }
                None => false,
            },
            Link::Rtu { open, opens_seen, .. } => {
                *open = true;
                let ok = simtokio::serial::opens(RTU_PATH).iter().filter(|o| o.ok).count();
                if ok > *opens_seen {
                    *opens_seen += 1;
                    true
                } else {
                    false
                }
            }
        }
    }
    /// the model says the connection was closed by the client: true if it really is
    fn conn_closed_ok(&mut self) -> bool {
        match &mut self.link {
            Link::Tcp { peer, .. } => match peer.take() {
                Some(p) => p.remote_closed(),
                None => true,
            },
            Link::Rtu { open, closes_seen, .. } => {
                *open = false;
                if simtokio::serial::closes(RTU_PATH).len() > *closes_seen {
                    *closes_seen += 1;
                    true
                } else {
                    false
                }
            }
        }
    }
    fn unexpectedly_closed(&self) -> bool {
        match &self.link {
            Link::Tcp { peer, .. } => peer.as_ref().map(|p| p.remote_closed()).unwrap_or(false),
            Link::Rtu { closes_seen, .. } => simtokio::serial::closes(RTU_PATH).len() > *closes_seen,
        }
    }
    fn extra_connection(&self) -> bool {
        match &self.link {
            Link::Tcp { addr, .. } => net::stub_accept(*addr).is_some(),
            Link::Rtu { opens_seen, .. } => simtokio::serial::opens(RTU_PATH).iter().filter(|o| o.ok).count() > *opens_seen,
        }
    }

    /// compare everything observable since the last action; returns false on violation
    fn compare(&mut self, out: &mut RunOut, action: &str) -> bool {
        // whatever is due at this very instant (zero time-outs, zero delays) has happened in the implementation
        self.m().advance(0);
        if self.model.order_dependent.is_some() {
            // two things were ready at once in the idle loop and no property says which goes first:
            // nothing after this point can be predicted, the run ends without a verdict on the rest
            out.probe("order_dependent_tie_run_ended");
            return false;
        }
        let effects: Vec<Effect> = self.model.effects[self.eff_pos..].to_vec();
        self.eff_pos = self.model.effects.len();
        let mut exp_states = Vec::new();
        let mut exp_comps: Vec<(usize, u64, Outcome)> = Vec::new();
        let mut exp_attempts = Vec::new();
        let mut exp_done = false;
        let now = kernel::now_ns();
        for e in &effects {
            match e {
                Effect::State(t, s) => exp_states.push((*t, *s)),
                Effect::Complete { id, at, outcome } => exp_comps.push((*id, *at, outcome.clone())),
                Effect::ConnectAttempt(t) => exp_attempts.push(*t),
                Effect::TaskDone(_) => exp_done = true,
                Effect::Wire(_, bytes) => {
                    self.expected_wire.extend_from_slice(bytes);
                    self.frames_tx += 1;
                }
                Effect::ConnOpened(_) => {
                    // (on the serial line all bytes share one pipe: compared cumulatively)
                    if !self.is_rtu() && !self.check_wire(out, action) {
                        return false;
                    }
                    if self.conn_open() {
                        if !self.is_rtu() {
                            self.expected_wire.clear();
                            self.got_wire.clear();
                        }
                    } else {
                        out.violate("C13", "no_connection_established", format!("after `{}` the model expects an established connection, none was made", action));
                        return false;
                    }
                }
                Effect::ConnClosed(_) => {
                    if !self.is_rtu() && !self.check_wire(out, action) {
                        return false;
                    }
                    if !self.conn_closed_ok() {
                        let d = format!("after `{}` the connection must be closed by the client but is still open", action);
                        out.violate("C13", "connection_not_closed", d.clone());
                        if self.is_rtu() && matches!(self.last_peer_action, "bad_header" | "variant" | "split") {
                            // on a serial line: a frame that does not verify / cannot be framed was not treated as one
                            out.violate("C06", "connection_not_closed", d);
                        }
                        return false;
                    }
                    if !self.is_rtu() {
                        self.expected_wire.clear();
                        self.got_wire.clear();
                    }
                }
            }
        }
        if !self.check_wire(out, action) {
            return false;
        }
        if self.unexpectedly_closed() {
            out.violate("C13", "connection_closed_unexpectedly", format!("after `{}` the client closed the connection; the model keeps it open", action));
            return false;
        }
        if self.extra_connection() {
            out.violate("C13", "unexpected_connection", format!("after `{}` the client opened a connection the model does not expect", action));
            return false;
        }
        // listener
        let got_states: Vec<(u64, MState)> = self.rig.states.lock().unwrap()[self.seen_states..].to_vec();
        self.seen_states += got_states.len();
        if self.is_rtu() {
            // PortState has a single Wait(d) state
            for (_, s) in exp_states.iter_mut() {
                if let MState::WaitAfterFailedConnect(d) = s {
                    *s = MState::WaitAfterDisconnect(*d);
                }
            }
        }
        if got_states != exp_states {
            let mut props = vec!["C13"];
            let wait = |v: &Vec<(u64, MState)>| -> Vec<(u64, MState)> {
                v.iter().filter(|(_, s)| matches!(s, MState::WaitAfterDisconnect(_) | MState::WaitAfterFailedConnect(_))).cloned().collect()
            };
            if wait(&got_states) != wait(&exp_states) {
                props.push("C14");
                if self.model.max_timeouts.is_some() || exp_comps.iter().any(|c| c.2 == Outcome::Timeout) {
                    props.push("C12");
                }
            }
            if self.is_rtu() && !self.last_peer_action.is_empty() {
                // on a serial line a wrong reaction to received bytes is a framing matter too
                props.push("C06");
            }
            let detail = format!("after `{}` (t={}): listener saw {:?}, model expects {:?}", action, now, got_states, exp_states);
            for p in props {
                out.violate(p, "listener_sequence", detail.clone());
            }
            // the run ends here; before it does, see what the deviation means for a request (C10): while the
            // channel is not connected - by the model - a request fails with no-connection at once
            if !self.model.is_connected() && !self.model.is_done() {
                if let Some(ch) = &self.rig.channel {
                    const PROBE: usize = usize::MAX - 7;
                    submit(ch, Style::Future, PROBE, &Req::ReadCoils { start: 0, count: 1 }, 1, 1000 * MS, &self.rig.comps);
                    kernel::settle();
                    let got = self.rig.comps.lock().unwrap().iter().find(|c| c.0 == PROBE).map(|c| c.2.clone());
                    if got != Some(Outcome::NoConnection) {
                        out.violate(
                            "C10",
                            "request_while_not_connected",
                            format!("{}; a request submitted at this point (the channel is not connected by the model) {}", detail, match got {
                                None => "stays pending instead of failing with no-connection".to_string(),
                                Some(o) => format!("completed with {:?}", o),
                            }),
                        );
                    }
                }
            }
            return false;
        }
        // completions (multiset per action)
        let mut got_comps: Vec<(usize, u64, Outcome)> = self.rig.comps.lock().unwrap()[self.seen_comps..].to_vec();
        self.seen_comps += got_comps.len();
        for c in &got_comps {
            if !self.completed.insert(c.0) {
                out.violate("C10", "completed_twice", format!("request {} completed twice (second time after `{}`: {:?})", c.0, action, c.2));
                return false;
            }
        }
        got_comps.sort_by_key(|c| c.0);
        exp_comps.sort_by_key(|c| c.0);
        // C04 only demands "an error that is not an exception" for a bad reply: the
        // library reports some malformed echoes as BadRequest/Internal; accept that class
        for (g, e) in got_comps.iter_mut().zip(exp_comps.iter()) {
            if g.0 == e.0 && e.2 == Outcome::BadResponse && g.2 == Outcome::Rejected {
                g.2 = Outcome::BadResponse;
            }
        }
        if got_comps != exp_comps {
            let mut props = vec!["C10"];
            let involves = |f: &dyn Fn(&Outcome) -> bool| got_comps.iter().chain(exp_comps.iter()).any(|c| f(&c.2));
            if involves(&|o| *o == Outcome::Timeout) || got_comps.iter().map(|c| (c.0, c.1)).collect::<Vec<_>>() != exp_comps.iter().map(|c| (c.0, c.1)).collect::<Vec<_>>() {
                props.push("C12");
            }
            if involves(&|o| matches!(o, Outcome::Ok(_) | Outcome::Exception(_) | Outcome::BadResponse)) {
                props.push("C04");
            }
            if matches!(self.last_peer_action, "stale" | "future" | "duplicate" | "unsolicited" | "split") {
                props.push("C11");
                props.push("C05");
            }
            if involves(&|o| *o == Outcome::NoConnection) {
                props.push("C13");
            }
            if involves(&|o| *o == Outcome::Rejected) {
                props.push("C03");
            }
            if self.is_rtu() && !self.last_peer_action.is_empty() {
                props.push("C06");
            }
            let rule = format!(
                "completion/{}",
                match (got_comps.len(), exp_comps.len()) {
                    (a, b) if a < b => "missing",
                    (a, b) if a > b => "unexpected",
                    _ => "different",
                }
            );
            let detail = format!("after `{}` (t={}): completions {:?}, model expects {:?}", action, now, got_comps, exp_comps);
            for p in props {
                out.violate(p, &rule, detail.clone());
            }
            return false;
        }
        out.ops_checked += exp_comps.len() as u64;
        // connect attempts
        let all = self.attempt_times();
        let got_att: Vec<u64> = all[self.seen_attempts..].to_vec();
        self.seen_attempts = all.len();
        if got_att != exp_attempts {
            let detail = format!("after `{}` (t={}): connect attempts at {:?}, model expects {:?}", action, now, got_att, exp_attempts);
            out.violate("C13", "connect_attempts", detail.clone());
            out.violate("C14", "connect_attempts", detail);
            return false;
        }
        // task end
        let done = self.rig.task.is_finished();
        if done != (self.model.is_done()) {
            let detail = format!("after `{}`: task finished={} model done={}", action, done, self.model.is_done());
            out.violate("C13", "task_end", detail.clone());
            out.violate("C10", "task_end", detail);
            return false;
        }
        let _ = exp_done;
        true
    }

    fn check_wire(&mut self, out: &mut RunOut, action: &str) -> bool {
        let w = self.take_wire();
        if !w.is_empty() {
            self.wire_log.extend_from_slice(&w);
            self.wire_log.extend_from_slice(&kernel::now_ns().to_le_bytes());
        }
        self.got_wire.extend(w);
        if self.got_wire.len() > if self.is_rtu() { 256 } else { 260 } && self.got_wire.len() <= 300 && self.frames_tx <= 1 {
            out.probe("long_frame_seen");
        }
        if self.is_rtu() && self.got_wire == self.expected_wire {
            self.got_wire.clear();
            self.expected_wire.clear();
        }
        if self.got_wire != self.expected_wire {
            let detail = format!(
                "after `{}`: bytes on the wire {} (len {}), model expects {} (len {})",
                action,
                hex(&self.got_wire[self.got_wire.len().saturating_sub(40)..]),
                self.got_wire.len(),
                hex(&self.expected_wire[self.expected_wire.len().saturating_sub(40)..]),
                self.expected_wire.len()
            );
            out.violate("C03", "wire_bytes", detail.clone());
            out.violate("C11", "wire_bytes", detail.clone());
            out.violate("C10", "wire_bytes", detail);
            return false;
        }
        true
    }
}

fn lockstep_kernel_cfg() {
    // canonical schedule: the exact model is defined for it (DESIGN.md A.3);
    // read chunking and short writes do not change anything observable
    let chunk = chance(1, 2);
    let short = chance(1, 2);
    kernel::with(|w| {
        w.cfg.sched_random = false;
        w.cfg.select_random = false;
        w.cfg.chunk_reads = chunk;
        w.cfg.short_writes = short;
    });
}

/// Lock-step client scenario. variant 0: general; 1: transaction-id wrap (66 000 requests);
/// 2: reply-grammar focus (C04); 3: life-cycle focus (C13/C14)
pub fn run_lockstep(cfg: &ScenCfg, out: &mut RunOut) {
    run_lockstep_impl(cfg, out, false)
}

/// the same workload over the serial (RTU) channel
pub fn run_lockstep_rtu(cfg: &ScenCfg, out: &mut RunOut) {
    run_lockstep_impl(cfg, out, true)
}

pub fn start_rtu_client(baud: u32, retry: (u64, u64), decode: DecodeLevel, qcap: usize) -> ClientRig {
    let states: StateLog = Arc::new(Mutex::new(Vec::new()));
    let comps: Completions = Arc::new(Mutex::new(Vec::new()));
    struct PortListen {
        log: StateLog,
    }
    impl Listener<PortState> for PortListen {
        fn update(&mut self, value: PortState) -> MaybeAsync<()> {
            let s = match value {
                PortState::Disabled => MState::Disabled,
                PortState::Wait(d) => MState::WaitAfterDisconnect(d.as_nanos() as u64),
                PortState::Open => MState::Connected,
                PortState::Shutdown => MState::Shutdown,
            };
            self.log.lock().unwrap().push((kernel::now_ns(), s));
            MaybeAsync::ready(())
        }
    }
    let settings = SerialSettings {
        baud_rate: baud,
        ..SerialSettings::default()
    };
    let (channel, task) = create_rtu_client_task(
        RTU_PATH,
        settings,
        qcap,
        doubling_retry_strategy(Duration::from_nanos(retry.0), Duration::from_nanos(retry.1)),
        decode,
        Some(Box::new(PortListen { log: states.clone() })),
    );
    let task = simtokio::task::spawn_named("rtu-client", task.run());
    ClientRig {
        channel: Some(channel),
        task,
        states,
        comps,
        addr: "0.0.0.0:0".parse().unwrap(),
    }
}

pub fn t35_ns(baud: u32) -> u64 {
    // a port that reports 0 baud (opened with B0, or a driver without a notion of speed) has no character
    // time: the fixed delay applies
    if baud == 0 {
        return 1_750_000;
    }
    if baud <= 19200 {
        (11_000_000_000u64 / baud as u64) * 35 / 10
    } else {
        1_750_000
    }
}

fn run_lockstep_impl(cfg: &ScenCfg, out: &mut RunOut, rtu: bool) {
    run_lockstep_inner(cfg, out, rtu);
    // a panic inside the channel task is more than a robustness matter: every request and the whole
    // life cycle of the channel end with it
    let panics: Vec<String> = kernel::with(|w| w.panics.clone());
    if let Some(p) = panics.first() {
        let d = format!("the client task panicked: {}", p);
        // (C04: no reply - nothing the peer sends - may end in a panic)
        for prop in ["C10", "C12", "C13", "C04"] {
            out.violate(prop, "client_task_panicked", d.clone());
        }
    }
}

fn run_lockstep_inner(cfg: &ScenCfg, out: &mut RunOut, rtu: bool) {
    lockstep_kernel_cfg();
    let (dec_idx, decode) = pick_decode(&cfg.decode);
    let addr: SocketAddr = "10.0.0.9:502".parse().unwrap();
    let retry_min = [1 * MS, 50 * MS, 1000 * MS][choose(3) as usize];
    let retry_max = retry_min * [1u64, 2, 8, 60][choose(4) as usize];
    let max_timeouts = match weighted(&[3, 1, 1, 1, 1]) {
        0 => None,
        1 => Some(1usize),
        2 => Some(2),
        3 => Some(3),
        _ => Some(5),
    };
    // serial channels have no consecutive-timeout limit
    let max_timeouts = if rtu { None } else { max_timeouts };
    let baud = [9600u32, 19200, 115200, 1200, 9600, 19200, 115200, 1200, 0, 300][choose(10) as usize];
    let qcap = [1usize, 2, 4, 16][choose(4) as usize];
    let opts = ClientOptions::default()
        .decode_level(decode)
        .max_queued_requests(qcap)
        .max_response_timeouts(max_timeouts.and_then(std::num::NonZeroUsize::new));
    // a quarter of the TCP runs address the server by name: resolution failures are failed connects
    let use_dns = !rtu && cfg.variant != 1 && chance(1, 4);
    let mut dns_down = false;
    let (rig, mut model, link) = if rtu {
        simtokio::serial::add_line(RTU_PATH, simtokio::serial::OpenOutcome::Ok, true);
        let rig = start_rtu_client(baud, (retry_min, retry_max), decode, qcap);
        let mut m = ClientModel::new(Transport::Rtu, Retry::new(retry_min, retry_max), None);
        m.observed_writes = Some(std::collections::VecDeque::new());
        m.t35 = t35_ns(baud);
        (rig, m, Link::Rtu { open: false, opens_seen: 0, closes_seen: 0 })
    } else {
        net::stub_listen(addr);
        let rig = if use_dns {
            net::set_dns(DNS_NAME, Some(addr.ip()));
            start_tcp_client_host(HostAddr::dns(DNS_NAME.to_string(), addr.port()), addr, (retry_min, retry_max), opts, 0)
        } else {
            start_tcp_client(addr, (retry_min, retry_max), opts)
        };
        let m = ClientModel::new(Transport::Tcp, Retry::new(retry_min, retry_max), max_timeouts);
        (rig, m, Link::Tcp { addr, peer: None })
    };
    let _ = &mut model;
    let mut l = Lock {
        rig,
        model,
        link,
        expected_wire: Vec::new(),
        got_wire: Vec::new(),
        seen_states: 0,
        seen_comps: 0,
        seen_attempts: 0,
        eff_pos: 0,
        last_peer_action: "",
        ever_submitted: BTreeSet::new(),
        completed: BTreeSet::new(),
        frames_tx: 0,
        wire_log: Vec::new(),
        writes_seen: 0,
    };
    kernel::settle();
    let mut wl_hash = dec_idx as u64 ^ (qcap as u64) << 8 ^ (retry_min) << 16;
    let mut trace: Vec<String> = Vec::new();
    if !l.compare(out, "start") {
        return;
    }
    let nactions = match cfg.variant {
        1 => 66_000 * 2 + 10,
        _ => 5 + choose(36) as usize,
    };
    let mut next_id = 0usize;
    let mut prev_reply: Option<Vec<u8>> = None;
    let mut action_idx = 0u32;
    // variant 1 begins enabled and connected
    if cfg.variant == 1 || chance(2, 3) {
        spawn_cmd(l.rig.channel.as_ref().unwrap(), 0, 0);
        kernel::settle();
        l.m().submit(Cmd::Enable);
        if !l.compare(out, "enable") {
            return;
        }
    }
    for _ in 0..nactions {
        if l.model.is_done() && chance(3, 4) {
            break;
        }
        if let Some((k, lvl)) = cfg.decode.change_at {
            if k == action_idx && l.rig.channel.is_some() && !l.model.is_done() {
                spawn_cmd(l.rig.channel.as_ref().unwrap(), 2, lvl);
                kernel::settle();
                l.m().submit(Cmd::SetDecode);
                out.probe("decode_change_injected");
                if !l.compare(out, "set_decode(plan)") {
                    return;
                }
            }
        }
        action_idx += 1;
        let connected = l.model.is_connected();
        let outstanding = l.model.has_outstanding();
        // weights: submit, peer, time, control, env
        let w_submit = if l.rig.channel.is_some() { 6 } else { 0 };
        let w_peer = if connected { 8 } else { 0 };
        let w_time = 5;
        let w_ctrl = if l.rig.channel.is_some() && cfg.variant != 1 { 2 } else { 0 };
        let w_env = if cfg.variant == 1 { 0 } else { 1 };
        let kind = if cfg.variant == 1 {
            if outstanding {
                1
            } else {
                0
            }
        } else {
            weighted(&[w_submit, w_peer, w_time, w_ctrl, w_env])
        };
        let desc: String;
        match kind {
            0 => {
                // submit a valid request
                let req = if cfg.variant == 1 {
                    Req::ReadHolding { start: 0, count: 1 }
                } else {
                    gen_valid_req(cfg.variant != 2)
                };
                let unit = UNIT_POOL[choose(4) as usize];
                let timeout = if cfg.variant == 1 { 1000 * MS } else { pick_timeout() };
                let style = if chance(1, 3) { Style::Callback } else { Style::Future };
                let id = next_id;
                next_id += 1;
                hash_bytes(&mut wl_hash, &pdu::encode_req(&req)[..5.min(pdu::encode_req(&req).len())]);
                desc = format!("submit#{} {:?} fc={} range={:?} unit={} timeout={}ms", id, style, req.fc(), req.range(), unit, timeout / MS);
                l.ever_submitted.insert(id);
                submit(l.rig.channel.as_ref().unwrap(), style, id, &req, unit, timeout, &l.rig.comps);
                kernel::settle();
                l.m().submit(Cmd::Request(ReqSpec { id, req, unit, timeout }));
                // a time-out of zero is due at the instant of transmission
                l.m().advance(0);
                if outstanding {
                    out.probe("submit_behind_outstanding");
                }
            }
            1 => {
                // peer action
                let tx = l.model.outstanding_tx();
                let spec = l.model.outstanding_spec().cloned();
                let choice = if cfg.variant == 1 {
                    0
                } else if outstanding {
                    weighted(&[8, 6, 3, 2, 2, 1, 1, 1, 1])
                } else {
                    // (4: on a serial line noise - a frame with a bad CRC, an unknown function - also arrives while idle)
                    [5u32, 6, 7, 8, 2, 4][choose(if l.is_rtu() { 6 } else { 5 }) as usize]
                };
                match choice {
                    0 => {
                        // the correct reply
                        let spec = spec.unwrap();
                        let p = correct_reply(&spec.req);
                        let f = l.mk_frame(tx.unwrap(), spec.unit, &p);
                        if cfg.variant != 1 && chance(1, 4) && f.len() > 8 {
                            // split: first part now, the rest after a pause chosen around the deadline
                            let cut = 1 + choose(f.len() as u32 - 1) as usize;
                            l.send(&f[..cut]);
                            kernel::settle();
                            l.m().peer_bytes(&f[..cut]);
                            let dl = l.model.outstanding_deadline().unwrap();
                            let now = l.model.now;
                            // (no time-out: pretend the deadline is ten seconds away)
                            let rem = dl.saturating_sub(now).min(10_000 * MS);
                            let dt = match choose(4) {
                                0 => rem / 2,
                                1 => rem.saturating_sub(1),
                                2 => rem + 1,
                                _ => 0,
                            };
                            kernel::advance(dt);
                            l.m().advance(dt);
                            let conn_changed = l.model.effects[l.eff_pos..].iter().any(|e| matches!(e, Effect::ConnClosed(_) | Effect::ConnOpened(_)));
                            if conn_changed || !l.model.is_connected() {
                                desc = format!("split reply cut={} then +{}ns (connection gone)", cut, dt);
                                l.last_peer_action = "split";
                            } else {
                                l.send(&f[cut..]);
                                kernel::settle();
                                l.m().peer_bytes(&f[cut..]);
                                desc = format!("split reply cut={}/{} pause={}ns (deadline was +{}ns)", cut, f.len(), dt, rem);
                                l.last_peer_action = "split";
                                if dt > rem {
                                    out.probe("reply_split_across_deadline");
                                }
                            }
                        } else {
                            l.send(&f);
                            kernel::settle();
                            l.m().peer_bytes(&f);
                            desc = format!("reply correct tx={}", tx.unwrap());
                            l.last_peer_action = "reply";
                        }
                        prev_reply = Some(f);
                    }
                    1 => {
                        let spec = spec.unwrap();
                        let p = gen_reply_pdu(&spec.req);
                        let f = if l.is_rtu() {
                            // on a serial line the reply must be frameable: known function or exception
                            let p2 = if crate::model::frame::rtu_body_len(crate::model::frame::RtuDir::Response, &p).ok().flatten() == Some(p.len().saturating_sub(1)) { p.clone() } else { correct_reply(&spec.req) };
                            l.mk_frame(0, if chance(1, 6) { choose(256) as u8 } else { spec.unit }, &p2)
                        } else {
                            l.mk_frame(tx.unwrap(), spec.unit, &p)
                        };
                        l.send(&f);
                        kernel::settle();
                        l.m().peer_bytes(&f);
                        desc = format!("reply variant pdu={}", hex(&p[..p.len().min(16)]));
                        l.last_peer_action = "variant";
                        hash_bytes(&mut wl_hash, &p[..p.len().min(6)]);
                        prev_reply = Some(f);
                    }
                    2 => {
                        // stale reply: tx - k
                        let k = match weighted(&[3, 1, 1, 2]) {
                            0 => 1 + choose(3) as u16,
                            1 => 65535,
                            2 => 1 + choose(65535) as u16,
                            // distances at which byte-wise or wrap-aware comparisons could go wrong
                            _ => [255u16, 256, 257, 32767, 32768, 32769, 65280, 65534][choose(8) as usize],
                        };
                        let base = tx.unwrap_or(l.model.tx_id);
                        let p = spec.as_ref().map(|s| correct_reply(&s.req)).unwrap_or(vec![3, 2, 0, 1]);
                        let f = l.mk_frame(base.wrapping_sub(k), spec.as_ref().map(|s| s.unit).unwrap_or(1), &p);
                        l.send(&f);
                        kernel::settle();
                        l.m().peer_bytes(&f);
                        desc = format!("stale frame tx-{}", k);
                        l.last_peer_action = "stale";
                        out.probe("stale_frame");
                    }
                    3 => {
                        // duplicate of the previous reply
                        let f = prev_reply.clone().unwrap_or_else(|| l.mk_frame(l.model.tx_id.wrapping_sub(1), 1, &[3, 2, 0, 0]));
                        l.send(&f);
                        kernel::settle();
                        l.m().peer_bytes(&f);
                        desc = "duplicate of previous reply".to_string();
                        l.last_peer_action = "duplicate";
                        out.probe("duplicate_frame");
                    }
                    4 => {
                        // invalid MBAP header
                        let f = if l.is_rtu() {
                            match choose(3) {
                                0 => {
                                    // CRC error
                                    let mut f = crate::model::frame::rtu_frame(1, &[3, 2, 0, 7]);
                                    let n = f.len();
                                    f[n - 1 - choose(2) as usize] ^= 1 << choose(8);
                                    f
                                }
                                1 => crate::model::frame::rtu_frame(1, &[[0u8, 7, 20, 43][choose(4) as usize], 0, 0]),
                                _ => {
                                    let mut f = crate::model::frame::rtu_frame(1, &[3, 2, 0, 7]);
                                    f[3] ^= 0x10;
                                    f
                                }
                            }
                        } else {
                            match choose(3) {
                                0 => mbap_frame_raw(tx.unwrap_or(0), 7, 3, 1, &[3, 0]),
                                1 => mbap_frame_raw(tx.unwrap_or(0), 0, 0, 1, &[]),
                                _ => mbap_frame_raw(tx.unwrap_or(0), 0, 255 + choose(1000) as u16, 1, &[3, 0]),
                            }
                        };
                        l.send(&f);
                        kernel::settle();
                        l.m().peer_bytes(&f);
                        desc = "invalid MBAP header".to_string();
                        l.last_peer_action = "bad_header";
                        out.probe("invalid_header");
                    }
                    5 => {
                        // peer closes
                        if let Link::Tcp { peer, .. } = &l.link {
                            peer.as_ref().unwrap().shutdown_write();
                            kernel::settle();
                            l.m().peer_eof(None);
                            desc = "peer closes (EOF)".to_string();
                        } else {
                            simtokio::serial::inject_port_lost(RTU_PATH, std::io::ErrorKind::BrokenPipe);
                            kernel::settle();
                            l.m().peer_eof(Some("BrokenPipe".into()));
                            desc = "port lost (BrokenPipe)".to_string();
                        }
                        l.last_peer_action = "eof";
                        kernel::count("fault_eof");
                    }
                    6 => {
                        let kind = [std::io::ErrorKind::ConnectionReset, std::io::ErrorKind::ConnectionAborted, std::io::ErrorKind::TimedOut, std::io::ErrorKind::Other][choose(4) as usize];
                        match &l.link {
                            Link::Tcp { peer, .. } => peer.as_ref().unwrap().inject_read_error(0, kind),
                            Link::Rtu { .. } => simtokio::serial::inject_port_lost(RTU_PATH, kind),
                        }
                        kernel::settle();
                        l.m().peer_eof(Some(format!("{:?}", kind)));
                        desc = format!("read error {:?}", kind);
                        l.last_peer_action = "read_error";
                    }
                    7 => {
                        // unsolicited frame while idle / future tx while outstanding
                        let base = tx.unwrap_or(l.model.tx_id);
                        let k = if outstanding { 1 + choose(100) as u16 } else { choose(3) as u16 };
                        let use_tx = if outstanding || l.model.queued() > 0 { base.wrapping_add(k) } else { base.wrapping_add(k) };
                        let f = l.mk_frame(use_tx, 1, &[3, 2, 0xAB, 0xCD]);
                        // a frame carrying the *next* id while idle would race with the next submit only
                        // if a command were queued; in lock-step the queue is empty at this point
                        l.send(&f);
                        kernel::settle();
                        l.m().peer_bytes(&f);
                        desc = format!("unsolicited/future frame tx={}", use_tx);
                        l.last_peer_action = if outstanding { "future" } else { "unsolicited" };
                        out.probe("unsolicited_frame");
                    }
                    _ => {
                        // the next write by the client fails
                        let kind = [std::io::ErrorKind::BrokenPipe, std::io::ErrorKind::ConnectionReset][choose(2) as usize];
                        if let Link::Tcp { peer, .. } = &l.link {
                            peer.as_ref().unwrap().inject_write_error(0, kind);
                            l.model.set_write_error(format!("{:?}", kind));
                            desc = format!("arm write error {:?}", kind);
                        } else {
                            desc = "noop".into();
                        }
                        l.last_peer_action = "write_error";
                    }
                }
            }
            2 => {
                // time
                let now = l.model.now;
                let dt = match l.model.next_event() {
                    Some(t) if t > now => match weighted(&[2, 2, 3, 2, 1]) {
                        0 => (t - now) / 2,
                        1 => t - now - 1,
                        2 => t - now,
                        3 => t - now + 1,
                        _ => (t - now).saturating_mul(3),
                    },
                    _ => [1 * MS, 30 * MS, 2000 * MS][choose(3) as usize],
                };
                if cfg.faults && chance(1, 6) {
                    // process stall: the clock jumps, several deadlines may expire together
                    kernel::jump(dt);
                    l.m().jump(dt);
                    desc = format!("clock jump +{}ns", dt);
                } else {
                    kernel::advance(dt);
                    l.m().advance(dt);
                    desc = format!("advance +{}ns", dt);
                }
            }
            3 => {
                let ch = l.rig.channel.as_ref().unwrap();
                match weighted(&[3, 3, 2, 1, 1, 1]) {
                    0 => {
                        spawn_cmd(ch, 0, 0);
                        kernel::settle();
                        l.m().submit(Cmd::Enable);
                        desc = "enable".into();
                    }
                    1 => {
                        spawn_cmd(ch, 1, 0);
                        kernel::settle();
                        l.m().submit(Cmd::Disable);
                        desc = "disable".into();
                        if outstanding {
                            out.probe("disable_behind_outstanding");
                        }
                    }
                    2 => {
                        spawn_cmd(ch, 2, choose(36) as u8);
                        kernel::settle();
                        l.m().submit(Cmd::SetDecode);
                        desc = "set_decode".into();
                    }
                    3 => {
                        spawn_cmd(ch, 3, 0);
                        kernel::settle();
                        l.m().submit(Cmd::Shutdown);
                        desc = "shutdown".into();
                        if outstanding {
                            out.probe("shutdown_behind_outstanding");
                        }
                    }
                    4 => {
                        l.rig.channel = None;
                        kernel::settle();
                        l.m().drop_handles();
                        desc = "drop all handles".into();
                    }
                    _ => {
                        l.rig.task.abort();
                        kernel::settle();
                        l.m().abort();
                        desc = "abort task".into();
                        out.probe("task_aborted");
                        kernel::count("fault_cancel_task");
                    }
                }
            }
            _ => {
                // environment
                match choose(3) {
                    0 => {
                        if rtu {
                            simtokio::serial::set_default_outcome(
                                RTU_PATH,
                                if l.model.server_up { simtokio::serial::OpenOutcome::NoDevice } else { simtokio::serial::OpenOutcome::Ok },
                            );
                        } else if use_dns && chance(1, 2) {
                            // resolution of the host name starts / stops failing (an attempt already
                            // past its resolution is not affected)
                            dns_down = !dns_down;
                            net::set_dns(DNS_NAME, if dns_down { None } else { Some(addr.ip()) });
                            l.model.name_unresolvable = dns_down;
                            l.model.server_up = !l.model.server_up; // undone below: the listener is untouched
                            out.probe("dns_resolution_toggled");
                        } else if l.model.server_up {
                            net::stub_unlisten(addr);
                        } else {
                            net::stub_listen(addr);
                        }
                        l.model.server_up = !l.model.server_up;
                        desc = format!("server_up={} name_resolves={}", l.model.server_up, !dns_down);
                    }
                    1 if !rtu => {
                        let d = [1 * MS, 20 * MS, 3000 * MS][choose(3) as usize];
                        let accept = chance(1, 2);
                        net::plan_connect(
                            addr,
                            net::ConnectOutcome::Slow(
                                d,
                                Box::new(if accept { net::ConnectOutcome::Accept } else { net::ConnectOutcome::Refused }),
                            ),
                        );
                        l.model.plans.push_back(Plan::Slow(d, accept));
                        desc = format!("plan slow connect {}ms accept={}", d / MS, accept);
                    }
                    _ => {
                        if rtu {
                            simtokio::serial::plan_open(RTU_PATH, simtokio::serial::OpenOutcome::NoDevice);
                        } else {
                            net::plan_connect(addr, net::ConnectOutcome::Refused);
                        }
                        l.model.plans.push_back(Plan::Refuse);
                        desc = "plan refused connect".into();
                    }
                }
            }
        }
        if trace.len() < 60 {
            trace.push(format!("t={} {}", l.model.now, desc));
        }
        kernel::note(|| format!("ACTION {}", desc));
        out.state(
            (l.model.queued() as u64).min(7)
                | (l.model.has_outstanding() as u64) << 3
                | match l.model.phase_name() {
                    "idle" => 0,
                    "connecting" => 1,
                    "connected" => 2,
                    "wait_fail" => 3,
                    "wait_disc" => 4,
                    _ => 5,
                } << 4
                | (l.model.enabled as u64) << 8,
        );
        if !l.compare(out, &desc) {
            out.sample = Some(json!({"scenario": "tcp client lock-step", "actions": trace}));
            return;
        }
    }
    // drain: stop acting, let every obligation be discharged
    if l.rig.channel.is_some() && !l.model.is_done() {
        spawn_cmd(l.rig.channel.as_ref().unwrap(), 3, 0);
        kernel::settle();
        l.m().submit(Cmd::Shutdown);
        if !l.compare(out, "final shutdown") {
            return;
        }
    }
    // past the largest timeout
    kernel::advance(61_000 * MS);
    l.m().advance(61_000 * MS);
    if !l.compare(out, "final drain") {
        return;
    }
    // after Shutdown every handle reports shutdown
    if l.model.is_done() {
        if let Some(ch) = &l.rig.channel {
            let r = kernel::block_on(ch.enable());
            if r.is_ok() {
                out.violate("C13", "handle_usable_after_shutdown", "enable() succeeded after the task ended".into());
            }
        }
    }
    // exactly-once, nothing pending
    let pending: Vec<usize> = l.ever_submitted.difference(&l.completed).copied().collect();
    if l.model.is_done() && !pending.is_empty() {
        out.violate("C10", "never_completed", format!("requests {:?} never completed although the task has ended", pending));
    }
    if l.frames_tx > 65_536 {
        out.probe("txid_wrap");
    }
    if l.model.bad_crc_frames_skipped > 0 {
        out.probe_n("rtu_bad_crc_frame_skipped_by_impl", l.model.bad_crc_frames_skipped);
    }
    out.nontrivial = if out.ops_checked > 0 { Some(wl_hash ^ (trace.len() as u64) << 50) } else { None };
    out.sample = Some(json!({"scenario": if rtu { "rtu client lock-step" } else { "tcp client lock-step" }, "variant": cfg.variant, "decode_level_index": dec_idx,
        "max_timeouts": max_timeouts, "queue_capacity": qcap, "retry_min_ms": retry_min / MS, "retry_max_ms": retry_max / MS,
        "actions": trace.iter().take(40).collect::<Vec<_>>()}));
    let mut comps = l.rig.comps.lock().unwrap().clone();
    comps.sort_by_key(|c| (c.1, c.0));
    out.observable.extend(format!("{:?}{:?}", comps, l.rig.states.lock().unwrap()).into_bytes());
    out.observable.extend_from_slice(&l.wire_log);
}

// ---------------------------------------------------------------------------
// C03: encoding / rejection over the boundary lattice

fn lattice_u16() -> u16 {
    const L: [u16; 30] = [
        0, 1, 2, 7, 8, 9, 15, 16, 17, 122, 123, 124, 125, 126, 127, 1967, 1968, 1969, 1976, 1977, 1999, 2000, 2001, 2008, 2009, 2040, 2041, 65534,
        65535, 300,
    ];
    match weighted(&[5, 1]) {
        0 => L[choose(L.len() as u32) as usize],
        _ => choose(65536) as u16,
    }
}

/// (kind 0..8, start, count) possibly outside every limit
fn gen_lattice_request() -> (u8, u16, usize) {
    let kind = choose(8) as u8;
    let count: usize = match kind {
        4 | 5 => 1,
        6 | 7 => match weighted(&[12, 1, 1]) {
            0 => lattice_u16() as usize,
            1 => 65536,
            _ => 65537,
        },
        _ => lattice_u16() as usize,
    };
    let start = match weighted(&[3, 3, 1]) {
        0 => lattice_u16(),
        1 => {
            let end: i64 = 65534 + choose(3) as i64;
            (end - (count.max(1) as i64 - 1)).clamp(0, 65535) as u16
        }
        _ => choose(65536) as u16,
    };
    (kind, start, count)
}

/// C03: every request is either transmitted as exactly its protocol encoding in one
/// frame, or rejected with a non-I/O error with nothing transmitted.
pub fn run_encoding(cfg: &ScenCfg, out: &mut RunOut) {
    run_encoding_impl(cfg, out, false)
}

/// the same lattice over the serial channel: RTU frames, at most 256 bytes, correct CRC
pub fn run_encoding_rtu(cfg: &ScenCfg, out: &mut RunOut) {
    run_encoding_impl(cfg, out, true)
}

/// C14 (a): the public strategy object against model::retry (a pure state machine; included
/// because the same model is used by the task-level checks)
pub fn run_retry_object(_cfg: &ScenCfg, out: &mut RunOut) {
    let secs = |s: u64| Duration::from_secs(s);
    let lattice: [Duration; 10] = [
        Duration::from_nanos(1),
        Duration::from_millis(1),
        Duration::from_millis(999),
        secs(1),
        secs(60),
        secs(3600),
        secs(1 << 40),
        secs(u64::MAX / 2),
        secs(u64::MAX / 2 + 1),
        Duration::MAX,
    ];
    let a = lattice[choose(10) as usize];
    let b = lattice[choose(10) as usize];
    let (min, max) = if a <= b { (a, b) } else { (b, a) };
    let n = 1 + choose(80) as usize;
    let mut wl = 0u64;
    hash_bytes(&mut wl, &min.as_nanos().to_le_bytes());
    hash_bytes(&mut wl, &max.as_nanos().to_le_bytes());
    let mut ops = Vec::new();
    for _ in 0..n {
        ops.push(weighted(&[6, 2, 2]) as u8);
    }
    hash_bytes(&mut wl, &ops);
    let res = std::panic::catch_unwind(move || {
        let mut real = doubling_retry_strategy(min, max);
        let mut cur = min; // model: saturating doubling, capped
        for (i, op) in ops.iter().enumerate() {
            match op {
                0 => {
                    let got = real.after_failed_connect();
                    if got != cur {
                        return Err(format!("min={:?} max={:?}: call {} after_failed_connect returned {:?}, expected {:?}", min, max, i, got, cur));
                    }
                    cur = cur.checked_mul(2).unwrap_or(Duration::MAX).min(max);
                }
                1 => {
                    let got = real.after_disconnect();
                    if got != min {
                        return Err(format!("min={:?} max={:?}: after_disconnect returned {:?}", min, max, got));
                    }
                }
                _ => {
                    real.reset();
                    cur = min;
                }
            }
        }
        Ok(())
    });
    match res {
        Ok(Ok(())) => {}
        Ok(Err(e)) => out.violate("C14", "retry_object_sequence", e),
        Err(p) => {
            if !out.known("C14", "doubling_overflows_for_huge_max") {
                out.violate("C14", "retry_object_panics", format!("min={:?} max={:?}: the strategy object panicked: {}", min, max, kernel::panic_message(&p)));
            }
        }
    }
    // the same (min, max) in a real client whose connects are refused: the wait is announced, the task stays
    // alive (however absurd the delay), requests fail fast meanwhile, and shutdown ends it
    if out.violations.is_empty() && chance(1, 2) {
        let addr: SocketAddr = "10.0.0.9:502".parse().unwrap();
        let states: StateLog = Arc::new(Mutex::new(Vec::new()));
        let comps: Completions = Arc::new(Mutex::new(Vec::new()));
        let (channel, task) = create_tcp_client_task_with_options(
            HostAddr::ip(addr.ip(), addr.port()),
            doubling_retry_strategy(min, max),
            Some(Box::new(Listen { log: states.clone(), delay_ns: 0 })),
            ClientOptions::default(),
        );
        let task = simtokio::task::spawn_named("tcp-client", task.run());
        spawn_cmd(&channel, 0, 0);
        kernel::settle();
        // (a few waits at most: with a delay of 1 ns three seconds would be billions of attempts)
        kernel::advance(((min.as_nanos().min(3_000_000_000) as u64).saturating_mul(20)).min(3_000 * MS));
        submit(&channel, Style::Future, 0, &Req::ReadCoils { start: 0, count: 1 }, 1, 100 * MS, &comps);
        kernel::settle();
        let panics: Vec<String> = kernel::with(|w| w.panics.clone());
        let st = states.lock().unwrap().clone();
        let desc = format!("client with doubling_retry_strategy({:?}, {:?}) against a refusing peer", min, max);
        if let Some(p) = panics.first() {
            out.violate("C14", "retry_wait_panics", format!("{}: the task panicked: {}", desc, p));
        } else if !st.iter().any(|(_, s)| matches!(s, MState::WaitAfterFailedConnect(_))) {
            out.violate("C14", "retry_wait_not_announced", format!("{}: listener saw {:?}", desc, st));
        } else {
            let c = comps.lock().unwrap().clone();
            if min >= Duration::from_secs(4) && (c.len() != 1 || c[0].2 != Outcome::NoConnection) {
                out.violate("C13", "request_not_failed_fast_during_wait", format!("{}: completion {:?}", desc, c));
            }
        }
        spawn_cmd(&channel, 3, 0);
        kernel::settle();
        if panics.is_empty() && !task.is_finished() {
            out.violate("C13", "shutdown_not_honoured_during_wait", format!("{}: shutdown did not end the task", desc));
        }
        out.probe("retry_pair_in_real_client");
    }
    out.ops_checked = n as u64;
    out.nontrivial = Some(wl);
    out.sample = Some(json!({"scenario": "retry strategy object", "min_ns": min.as_nanos().to_string(), "max_ns": max.as_nanos().to_string(), "calls": n}));
}

fn run_encoding_impl(cfg: &ScenCfg, out: &mut RunOut, rtu: bool) {
    lockstep_kernel_cfg();
    let (dec_idx, decode) = pick_decode(&cfg.decode);
    let addr: SocketAddr = "10.0.0.9:502".parse().unwrap();
    let rig = if rtu {
        simtokio::serial::add_line(RTU_PATH, simtokio::serial::OpenOutcome::Ok, true);
        start_rtu_client(115200, (1000 * MS, 1000 * MS), decode, 4)
    } else {
        net::stub_listen(addr);
        let opts = ClientOptions::default().decode_level(decode).max_queued_requests(4);
        start_tcp_client(addr, (1000 * MS, 1000 * MS), opts)
    };
    kernel::settle();
    spawn_cmd(rig.channel.as_ref().unwrap(), 0, 0);
    kernel::settle();
    let peer: Option<PeerEnd> = if rtu {
        if !simtokio::serial::is_open(RTU_PATH) {
            out.violate("C13", "no_connection_established", "enabled serial channel did not open the port".into());
            return;
        }
        None
    } else {
        match net::stub_accept(addr) {
            Some(p) => Some(p),
            None => {
                out.violate("C13", "no_connection_established", "enabled channel did not connect".into());
                return;
            }
        }
    };
    let mut window = usize::MAX;
    if cfg.faults {
        if let Some(p) = &peer {
            // flow control: the peer's window is small, writes complete in pieces
            window = if chance(1, 3) { 5 + choose(20) as usize } else { 64 + choose(300) as usize };
            p.set_capacity(window);
        }
    }
    let max_frame = if rtu { 256 } else { 260 };
    let n = 4 + choose(20) as usize;
    let mut last_tx: Option<u16> = None;
    let mut consumed_since: u16 = 0;
    let mut wl = dec_idx as u64;
    let mut samples = Vec::new();
    for id in 0..n {
        let (kind, start, count) = gen_lattice_request();
        let unit = if chance(1, 2) { UNIT_POOL[choose(8) as usize] } else { choose(256) as u8 };
        // pure sub-claim: the range constructor
        if count <= 65535 {
            let ok = AddressRange::try_from(start, count as u16).is_ok();
            let want = count >= 1 && start as u32 + count as u32 - 1 <= 65535;
            if ok != want {
                out.violate("C03", "address_range_constructor", format!("AddressRange::try_from({}, {}) ok={} expected {}", start, count, ok, want));
                return;
            }
        }
        let c16 = (count & 0xFFFF) as u16;
        let req = match kind {
            0 => Req::ReadCoils { start, count: c16 },
            1 => Req::ReadDiscrete { start, count: c16 },
            2 => Req::ReadHolding { start, count: c16 },
            3 => Req::ReadInput { start, count: c16 },
            4 => Req::WriteCoil { addr: start, value: choose(2) == 1 },
            5 => Req::WriteReg { addr: start, value: lattice_u16() },
            6 => Req::WriteCoils { start, values: (0..count).map(|i| (i * 7 + id) % 3 == 0).collect() },
            _ => Req::WriteRegs { start, values: (0..count).map(|i| (i as u16).wrapping_mul(257).wrapping_add(id as u16)).collect() },
        };
        let legal = count <= 65535 && pdu::within_limits(&req);
        hash_bytes(&mut wl, &[kind, (start >> 8) as u8, start as u8, (count >> 8) as u8, count as u8, legal as u8]);
        let style = if chance(1, 3) { Style::Callback } else { Style::Future };
        let before = rig.comps.lock().unwrap().len();
        submit(rig.channel.as_ref().unwrap(), style, id, &req, unit, 1000 * MS, &rig.comps);
        // with a small window the frame leaves in pieces: keep draining
        let mut got = Vec::new();
        let blocks = count <= 65535 && pdu::within_limits(&req) && pdu::encode_req(&req).len() + 7 > window;
        if cfg.faults && peer.is_some() && blocks && chance(1, 3) {
            // the peer stops reading for longer than the response time-out while the write is blocked
            // half-way: the request fails with an I/O time-out at that instant, the connection is
            // closed, and what was transmitted is a prefix of the frame with nothing behind it
            let t0 = kernel::now_ns();
            kernel::settle();
            kernel::advance(1500 * MS);
            kernel::count("fault_peer_stall");
            out.probe("peer_stalled_past_timeout");
            let p = peer.as_ref().unwrap();
            let mut got = Vec::new();
            for _ in 0..400 {
                kernel::settle();
                let part = p.take_received();
                if part.is_empty() {
                    break;
                }
                got.extend(part);
            }
            let comps = rig.comps.lock().unwrap()[before..].to_vec();
            let body = pdu::encode_req(&req);
            let want = mbap_frame(if got.len() >= 2 { ((got[0] as u16) << 8) | got[1] as u16 } else { 0 }, unit, &body);
            let d = format!(
                "kind={} start={} count={} unit={}: the peer (window {} bytes) stopped reading for 1.5 s with the {}-byte frame half written (time-out 1 s): completions {:?}, {} bytes transmitted {}, connection closed by the client: {}",
                kind, start, count, unit, window, want.len(), comps, got.len(), hex(&got[..got.len().min(24)]), p.remote_closed()
            );
            if comps.len() != 1 || comps[0].2 != Outcome::Io("TimedOut".into()) || comps[0].1 != t0 + 1000 * MS {
                out.violate("C10", "blocked_write_outcome", d.clone());
                out.violate("C03", "blocked_write_outcome", d);
            } else if !p.remote_closed() || got.len() >= want.len() || got[..] != want[..got.len()] {
                out.violate("C03", "blocked_write_leaves_broken_stream", d);
            }
            break;
        }
        for _ in 0..400 {
            kernel::settle();
            if rtu {
                // inter-character silence between consecutive frames
                kernel::advance(2 * MS);
            }
            let part = match &peer {
                Some(p) => p.take_received(),
                None => simtokio::serial::line_take(RTU_PATH),
            };
            if part.is_empty() {
                break;
            }
            got.extend(part);
        }
        if samples.len() < 5 {
            samples.push(json!({"kind": kind, "start": start, "count": count, "unit": unit, "legal": legal, "wire_len": got.len()}));
        }
        if got.len() > max_frame {
            out.violate("C03", "frame_too_long", format!("kind={} start={} count={}: {} bytes were transmitted (maximum {})", kind, start, count, got.len(), max_frame));
            if rtu {
                out.violate("C06", "frame_too_long", format!("RTU frame of {} bytes emitted", got.len()));
            }
            return;
        }
        if legal {
            let p = pdu::encode_req(&req);
            // tx id: one per request taken from the queue
            let tx_ok = |tx: u16| match last_tx {
                None => tx <= consumed_since,
                Some(l) => {
                    let d = tx.wrapping_sub(l);
                    d >= 1 && d <= 1 + consumed_since
                }
            };
            let tx = if rtu { last_tx.map(|x| x.wrapping_add(1)).unwrap_or(0) } else if got.len() >= 2 { ((got[0] as u16) << 8) | got[1] as u16 } else { 0 };
            let want = if rtu { crate::model::frame::rtu_frame(unit, &p) } else { mbap_frame(tx, unit, &p) };
            if got != want {
                out.violate(
                    "C03",
                    "wrong_encoding",
                    format!("kind={} start={} count={} unit={}: transmitted {} (len {}), protocol encoding is {} (len {})", kind, start, count, unit, hex(&got[..got.len().min(32)]), got.len(), hex(&want[..want.len().min(32)]), want.len()),
                );
                return;
            }
            if !rtu && !tx_ok(tx) {
                let d = format!("transaction id {} after {:?} ({} ids consumed by rejected requests)", tx, last_tx, consumed_since);
                out.violate("C11", "tx_id_sequence", d.clone());
                out.violate("C03", "tx_id_sequence", d);
                return;
            }
            last_tx = Some(tx);
            consumed_since = 0;
            // answer correctly; the request must succeed
            let r = correct_reply(&req);
            match &peer {
                Some(p) => p.write(&mbap_frame(tx, unit, &r)),
                None => simtokio::serial::line_write(RTU_PATH, &crate::model::frame::rtu_frame(unit, &r)),
            }
            kernel::settle();
            let comps = rig.comps.lock().unwrap()[before..].to_vec();
            let want_out = match pdu::decode_reply(&req, &r) {
                pdu::ReplyClass::Ok(d) => Outcome::Ok(d),
                _ => unreachable!(),
            };
            if comps.len() != 1 || comps[0].2 != want_out {
                let d = format!("kind={} start={} count={}: correct reply gave {:?}", kind, start, count, comps);
                out.violate("C04", "correct_reply_not_accepted", d.clone());
                out.violate("C03", "correct_reply_not_accepted", d);
                return;
            }
            out.ops_checked += 1;
        } else {
            consumed_since = consumed_since.saturating_add(1);
            let comps = rig.comps.lock().unwrap()[before..].to_vec();
            if !got.is_empty() {
                let key = match kind {
                    6 if count > 1968 && count <= 65535 && start as u32 + count as u32 - 1 <= 65535 => "client_transmits_write_coils_above_limit",
                    7 if count > 123 && count <= 65535 && start as u32 + count as u32 - 1 <= 65535 => "client_transmits_write_registers_above_limit",
                    _ => "",
                };
                if !(key != "" && out.known("C03", key)) {
                    out.violate(
                        "C03",
                        "illegal_request_transmitted",
                        format!("kind={} start={} count={} is outside the protocol limits but {} bytes were transmitted: {}", kind, start, count, got.len(), hex(&got[..got.len().min(16)])),
                    );
                    return;
                }
                // known finding: answer so that the request completes, then carry on
                let tx = ((got[0] as u16) << 8) | got[1] as u16;
                last_tx = Some(tx);
                consumed_since = 0;
                match &peer {
                    Some(p) => p.write(&mbap_frame(tx, unit, &[req.fc() | 0x80, 3])),
                    None => simtokio::serial::line_write(RTU_PATH, &crate::model::frame::rtu_frame(unit, &[req.fc() | 0x80, 3])),
                }
                kernel::settle();
                continue;
            }
            if comps.len() != 1 || comps[0].2 != Outcome::Rejected {
                out.violate(
                    "C03",
                    "illegal_request_not_rejected",
                    format!("kind={} start={} count={}: expected rejection with a request error, got {:?}", kind, start, count, comps),
                );
                return;
            }
            out.ops_checked += 1;
            out.probe("rejected_requests");
        }
    }
    out.nontrivial = Some(wl);
    out.sample = Some(json!({"scenario": if rtu { "client encoding lattice (rtu)" } else { "client encoding lattice (tcp)" }, "requests": samples, "decode_level_index": dec_idx}));
    out.observable.extend(format!("{:?}", rig.comps.lock().unwrap()).into_bytes());
}

// ---------------------------------------------------------------------------
// C13 / C10 / C07: a retry delay of zero and a connect (or port open) that fails at once. The task then goes
// round Connecting -> Wait(0) -> Connecting without any virtual time passing; it must nevertheless keep
// serving its queue: requests fail with no-connection, a disable stops the attempts, shutdown ends the task.
// The director steps the executor a bounded number of polls instead of settling (no instant ever becomes quiet).
pub fn run_zero_retry(cfg: &ScenCfg, out: &mut RunOut) {
    kernel::with(|w| {
        w.cfg.sched_random = true;
        w.cfg.select_random = true;
    });
    let rtu = cfg.variant == 1;
    let (_, decode) = pick_decode(&cfg.decode);
    let addr: SocketAddr = "10.0.0.7:502".parse().unwrap();
    let rig = if rtu {
        simtokio::serial::add_line(RTU_PATH, simtokio::serial::OpenOutcome::NoDevice, true);
        start_rtu_client(9600, (0, 0), decode, 8)
    } else {
        // nobody listens: refused at the first poll of the connect
        start_tcp_client(addr, (0, 0), ClientOptions::default().decode_level(decode).max_queued_requests(8))
    };
    let ch = rig.channel.as_ref().unwrap().clone();
    let now = kernel::now_ns();
    let spin = |polls: u64| {
        kernel::run_until(|| false, now, polls);
    };
    let attempts = |rtu: bool| if rtu { simtokio::serial::opens(RTU_PATH).len() } else { net::attempt_count() };
    spawn_cmd(&ch, 0, 0);
    spin(50 + choose(400) as u64);
    if attempts(rtu) == 0 {
        out.violate("C13", "zero_retry/no_attempt", "enabled, but no connection attempt was made".into());
        return;
    }
    let budget = 20_000u64;
    // requests fail fast
    let nreq = 1 + choose(3) as usize;
    for id in 0..nreq {
        submit(&ch, Style::Future, id, &Req::ReadCoils { start: 0, count: 1 }, 1, 1000 * MS, &rig.comps);
    }
    let comps = rig.comps.clone();
    if !kernel::run_until(|| comps.lock().unwrap().len() == nreq, now, budget) {
        let d = format!(
            "retry delay 0 and {} failing at once: {} request(s) submitted while not connected, {} completed within {} polls of the executor (no virtual time can pass: the task never goes idle)",
            if rtu { "the port open" } else { "the connect" },
            nreq,
            comps.lock().unwrap().len(),
            budget
        );
        out.violate("C13", "zero_retry/requests_queue_up", d.clone());
        out.violate("C10", "zero_retry/requests_queue_up", d.clone());
        out.violate("C07", "zero_retry/requests_queue_up", d);
        return;
    }
    if let Some(c) = comps.lock().unwrap().iter().find(|c| c.2 != Outcome::NoConnection) {
        out.violate("C13", "zero_retry/request_outcome", format!("request {} completed with {:?} while not connected", c.0, c.2));
        return;
    }
    out.ops_checked += nreq as u64;
    // disable: reported, and the attempts stop
    let seen = rig.states.lock().unwrap().len();
    spawn_cmd(&ch, 1, 0);
    let states = rig.states.clone();
    if !kernel::run_until(|| states.lock().unwrap()[seen..].iter().any(|s| s.1 == MState::Disabled), now, budget) {
        let d = format!("retry delay 0: disable() not honoured within {} polls (listener tail {:?})", budget, states.lock().unwrap().iter().rev().take(3).collect::<Vec<_>>());
        out.violate("C13", "zero_retry/disable_ignored", d.clone());
        out.violate("C07", "zero_retry/disable_ignored", d);
        return;
    }
    spin(200);
    let a0 = attempts(rtu);
    spin(500);
    if attempts(rtu) != a0 {
        out.violate("C13", "zero_retry/attempt_while_disabled", format!("{} connection attempts after Disabled was reported", attempts(rtu) - a0));
        return;
    }
    out.ops_checked += 1;
    // enable again, then shutdown (or all handles dropped) ends the task
    spawn_cmd(&ch, 0, 0);
    spin(100 + choose(300) as u64);
    let by_drop = chance(1, 2);
    let mut rig = rig;
    if by_drop {
        drop(ch);
        rig.channel = None;
    } else {
        spawn_cmd(&ch, 3, 0);
    }
    let task = &rig.task;
    if !kernel::run_until(|| task.is_finished(), now, budget) {
        let d = format!("retry delay 0: the task did not end within {} polls after {}", budget, if by_drop { "all handles were dropped" } else { "shutdown()" });
        out.violate("C13", "zero_retry/shutdown_ignored", d.clone());
        out.violate("C10", "zero_retry/shutdown_ignored", d.clone());
        out.violate("C07", "zero_retry/shutdown_ignored", d);
        return;
    }
    if rig.states.lock().unwrap().last().map(|s| s.1) != Some(MState::Shutdown) {
        out.violate("C13", "zero_retry/no_shutdown_state", format!("task ended, listener tail {:?}", rig.states.lock().unwrap().iter().rev().take(2).collect::<Vec<_>>()));
        return;
    }
    if kernel::now_ns() != now {
        out.probe("zero_retry_time_passed");
    }
    out.ops_checked += 1;
    out.probe(if rtu { "zero_retry_rtu" } else { "zero_retry_tcp" });
    out.nontrivial = Some((attempts(rtu) as u64) << 8 | nreq as u64 | (rtu as u64) << 60 | (by_drop as u64) << 61);
    out.sample = Some(json!({"scenario": "client with retry delay 0 and an immediately failing connect", "rtu": rtu, "attempts": attempts(rtu), "ended_by": if by_drop { "handles dropped" } else { "shutdown" }}));
}
