//! RTU workloads: the real `create_rtu_server_task` over the simulated serial
//! line against `model::server` + `model::frame::rtu_deframe` (C06, C17, RTU
//! halves of C01/C02/C14).

use super::common::*;
use super::server_tcp::{check_journal, gen_units, pick_dest};
use crate::driver::{RunOut, ScenCfg};
use crate::model::client::Retry;
use crate::model::frame::{crc16, rtu_deframe, rtu_frame, RtuDir, RtuItem};
use crate::model::pdu::{self, Req};
use crate::model::server::{Call, Expected, Framing, RefServer, UnitMem};
use rodbus::server::*;
use rodbus::*;
use serde_json::json;
use simtokio::kernel::{self, chance, choose, weighted};
use simtokio::serial::{self, OpenOutcome};
use std::collections::BTreeMap;
use std::sync::{Arc, Mutex};
use std::time::Duration;

const MS: u64 = 1_000_000;
pub const PATH: &str = "/dev/ttySIM0";

pub struct RtuServerRig {
    pub handle: ServerHandle,
    pub handlers: BTreeMap<u8, Arc<Mutex<Box<MemHandler>>>>,
    pub journal: Journal,
    pub task: simtokio::task::JoinHandle<()>,
}

pub fn start_rtu_server(units: &BTreeMap<u8, UnitMem>, retry: (u64, u64), decode: DecodeLevel) -> RtuServerRig {
    let journal: Journal = Arc::new(Mutex::new(Vec::new()));
    let mut map = ServerHandlerMap::new();
    let mut handlers = BTreeMap::new();
    for (u, mem) in units {
        let h = MemHandler {
            unit: *u,
            mem: mem.clone(),
            journal: journal.clone(),
        }
        .wrap();
        map.add(UnitId::new(*u), h.clone());
        handlers.insert(*u, h);
    }
    let (handle, task) = create_rtu_server_task(
        PATH,
        SerialSettings::default(),
        doubling_retry_strategy(Duration::from_nanos(retry.0), Duration::from_nanos(retry.1)),
        map,
        decode,
    );
    let task = simtokio::task::spawn_named("rtu-server", task.run());
    RtuServerRig {
        handle,
        handlers,
        journal,
        task,
    }
}

/// A request PDU that the RTU length rules can frame: known function code and a
/// body whose length follows from the function code / byte-count byte.
pub fn gen_rtu_request_pdu() -> Vec<u8> {
    match weighted(&[5, 4, 2]) {
        0 => pdu::encode_req(&gen_valid_req(false)),
        1 => {
            let fc = [1u8, 2, 3, 4, 5, 6, 15, 16][choose(8) as usize];
            match fc {
                1..=4 => {
                    let lim = if fc <= 2 { pdu::MAX_READ_BITS } else { pdu::MAX_READ_REGS };
                    let count = pick_count(lim);
                    let start = pick_start_for(count);
                    vec![fc, (start >> 8) as u8, start as u8, (count >> 8) as u8, count as u8]
                }
                5 => {
                    let a = pick_u16_boundary();
                    let v = [0xFF00u16, 0x0000, 0x00FF, 0xFF01, 0x0001, 0xFFFF][choose(6) as usize];
                    vec![5, (a >> 8) as u8, a as u8, (v >> 8) as u8, v as u8]
                }
                6 => {
                    let a = pick_u16_boundary();
                    let v = pick_u16_boundary();
                    vec![6, (a >> 8) as u8, a as u8, (v >> 8) as u8, v as u8]
                }
                _ => {
                    // write multiple: quantity and byte count chosen independently
                    let (count, right) = if fc == 15 {
                        let c = match weighted(&[3, 3]) {
                            0 => 1 + choose(24) as u16,
                            _ => [0u16, 1, 8, 9, 1967, 1968, 1969, 1976, 1977, 65535][choose(10) as usize],
                        };
                        (c, (c as usize).div_ceil(8))
                    } else {
                        let c = match weighted(&[3, 3]) {
                            0 => 1 + choose(8) as u16,
                            _ => [0u16, 1, 122, 123, 124, 125, 65535][choose(7) as usize],
                        };
                        (c, 2 * c as usize)
                    };
                    let start = pick_start_for(count);
                    let b = match weighted(&[5, 1, 1, 1]) {
                        0 => right.min(247),
                        1 => right.saturating_sub(1).min(247),
                        2 => (right + 1).min(247),
                        _ => choose(248) as usize,
                    };
                    let mut v = vec![fc, (start >> 8) as u8, start as u8, (count >> 8) as u8, count as u8, b as u8];
                    for _ in 0..b {
                        v.push(choose(256) as u8);
                    }
                    v
                }
            }
        }
        _ => {
            // small valid
            pdu::encode_req(&gen_valid_req(true))
        }
    }
}

/// corrupt a frame: returns the description
fn corrupt(frame: &mut Vec<u8>) -> &'static str {
    let nbits = frame.len() * 8;
    match weighted(&[4, 2, 3, 1, 1, 1]) {
        0 => {
            let b = choose(nbits as u32) as usize;
            frame[b / 8] ^= 1 << (b % 8);
            kernel::count("fault_bitflip");
            "bitflip1"
        }
        1 => {
            let b1 = choose(nbits as u32) as usize;
            let mut b2 = choose(nbits as u32) as usize;
            if b2 == b1 {
                b2 = (b1 + 1) % nbits;
            }
            frame[b1 / 8] ^= 1 << (b1 % 8);
            frame[b2 / 8] ^= 1 << (b2 % 8);
            kernel::count("fault_bitflip");
            "bitflip2"
        }
        2 => {
            // burst of up to 16 bits: first and last bit flipped, the ones between at random
            let len = 2 + choose(15) as usize;
            let start = choose((nbits - len.min(nbits) + 1) as u32) as usize;
            for i in 0..len.min(nbits) {
                let flip = i == 0 || i == len - 1 || choose(2) == 1;
                if flip {
                    let b = start + i;
                    frame[b / 8] ^= 1 << (b % 8);
                }
            }
            kernel::count("fault_burst");
            "burst"
        }
        3 => {
            let n = frame.len();
            frame.swap(n - 1, n - 2);
            kernel::count("fault_crc_swap");
            "crc_swapped"
        }
        4 => {
            let n = frame.len();
            frame[n - 1 - choose(2) as usize] ^= 0xFF;
            kernel::count("fault_crc_byte");
            "crc_byte_wrong"
        }
        _ => {
            // big-endian CRC
            let n = frame.len();
            let c = crc16(&frame[..n - 2]);
            frame[n - 2] = (c >> 8) as u8;
            frame[n - 1] = c as u8;
            kernel::count("fault_crc_be");
            "crc_big_endian"
        }
    }
}

fn cuts_for(len: usize) -> Vec<usize> {
    let mut cuts = Vec::new();
    match weighted(&[4, 3, 1]) {
        0 => {}
        1 => {
            for _ in 0..1 + choose(4) {
                if len > 1 {
                    cuts.push(1 + choose(len as u32 - 1) as usize);
                }
            }
        }
        _ => {
            if len <= 48 {
                cuts.extend(1..len);
            } else {
                cuts.extend(1..24);
            }
        }
    }
    cuts.push(len);
    cuts.sort();
    cuts.dedup();
    cuts
}

/// C06 / C17 / C01 / C02 (RTU): lock-step, exact
pub fn run_server_model(cfg: &ScenCfg, out: &mut RunOut) {
    let sched = chance(1, 2);
    let sel = chance(1, 2);
    let chunk = chance(1, 2);
    let short = chance(1, 3);
    kernel::with(|w| {
        w.cfg.sched_random = sched;
        w.cfg.select_random = sel;
        w.cfg.chunk_reads = chunk;
        w.cfg.short_writes = short;
    });
    let (dec_idx, decode) = pick_decode(&cfg.decode);
    let units = gen_units();
    let retry_min = [20 * MS, 100 * MS, 500 * MS][choose(3) as usize];
    let retry_max = retry_min * [1u64, 2, 8][choose(3) as usize];
    let mut retry = Retry::new(retry_min, retry_max);
    serial::add_line(PATH, OpenOutcome::Ok, true);
    // optionally the port is not there at first
    let initial_failures = if cfg.faults { weighted(&[3, 1, 1, 1]) } else { 0 };
    for _ in 0..initial_failures {
        serial::plan_open(PATH, OpenOutcome::NoDevice);
    }
    let mut rig = start_rtu_server(&units, (retry_min, retry_max), decode);
    let mut model = RefServer {
        framing: Framing::Rtu,
        units: units.clone(),
        auth: None,
    };
    kernel::settle();
    // expected open attempts so far
    let mut expected_opens: Vec<(u64, bool)> = Vec::new();
    let mut t = 0u64;
    for _ in 0..initial_failures {
        expected_opens.push((t, false));
        let d = retry.failed();
        t += d;
        kernel::advance(d);
    }
    expected_opens.push((t, true));
    retry.reset();
    let check_opens = |expected: &Vec<(u64, bool)>, out: &mut RunOut, ctx: &str| -> bool {
        let got: Vec<(u64, bool)> = serial::opens(PATH).iter().map(|o| (o.at, o.ok)).collect();
        if &got != expected {
            let d = format!("{}: port open attempts (instant, ok) {:?}, expected {:?}", ctx, got, expected);
            out.violate("C14", "rtu_server_open_schedule", d.clone());
            out.violate("C06", "rtu_server_open_schedule", d);
            return false;
        }
        true
    };
    if !check_opens(&expected_opens, out, "start") {
        return;
    }
    // A frame whose CRC does not verify ends the session (the port is re-opened after the retry delay): rodbus has
    // no silence-based resynchronisation, discarding the receive buffer with the session is what keeps the rest
    // of a damaged frame from being parsed as new frames (C06). An implementation that merely drops the bad
    // frame and stays on the port is *not* equivalent (seeded change C06-r5-m2), so the model does not allow it.
    let skip_bad_crc = false;
    let nbursts = 1 + choose(10) as usize;
    let mut wl = dec_idx as u64;
    let lenient_mode = skip_bad_crc;
    let mut journal_pos = 0usize;
    let mut pending: Vec<u8> = Vec::new(); // bytes delivered but not yet framed by the model
    let mut samples = Vec::new();
    let mut frames_checked = 0u64;
    let mut action = 0u32;
    #[allow(unused_assignments)]
    let mut journal_deviated = false;
    let mut kept_after_bad_crc = false;
    let _ = kept_after_bad_crc;
    'outer: for _ in 0..nbursts {
        // decode-level changes (also mid-frame, between chunks)
        let nframes = 1 + weighted(&[5, 2, 1]) as usize;
        let mut burst = Vec::new();
        let mut descs = Vec::new();
        for fi in 0..nframes {
            let p = gen_rtu_request_pdu();
            let dest = if chance(1, 5) { 0 } else { pick_dest(&units) };
            let mut f = rtu_frame(dest, &p);
            hash_bytes(&mut wl, &f[..f.len().min(8)]);
            let mut what = "valid_crc";
            // a corrupted or unknown-function frame ends the burst
            let last = fi == nframes - 1;
            if last && chance(1, 3) {
                what = corrupt(&mut f);
            } else if last && chance(1, 12) {
                let fc = [0u8, 7, 8, 20, 43, 0x81, 0x90][choose(7) as usize];
                f = rtu_frame(dest, &[fc, 0, 0, 0, 1]);
                what = "unknown_function";
            }
            descs.push(what);
            burst.extend(f);
        }
        let mut cuts = cuts_for(burst.len());
        // fault: a read of the port fails after all but the last chunk of the burst (transient kinds leave the
        // line intact, the others are a lost device); the rest of the burst is never sent. The session ends
        // there like after a framing error: what was complete before is served, the port is re-opened after
        // the retry delay
        let read_fault: Option<std::io::ErrorKind> = if cfg.faults && cuts.len() >= 2 && chance(1, 8) {
            Some([std::io::ErrorKind::Interrupted, std::io::ErrorKind::WouldBlock, std::io::ErrorKind::TimedOut, std::io::ErrorKind::BrokenPipe][choose(4) as usize])
        } else {
            None
        };
        if read_fault.is_some() {
            cuts.pop();
            let keep = *cuts.last().unwrap();
            burst.truncate(keep);
        }
        let deliver_at = kernel::now_ns();
        let mut pos = 0;
        for c in &cuts {
            if pos > 0 && chance(1, 6) {
                // (sent without waiting: the RTU server does not read its queue while it is in a transaction, and
                // waiting for room in a full queue would let virtual time pass in this run only)
                if kernel::try_now(rig.handle.set_decode_level(decode_level(choose(36) as u8))).is_some() {
                    out.probe("command_mid_frame");
                }
            }
            if let Some((k, lvl)) = cfg.decode.change_at {
                if k == action {
                    if kernel::try_now(rig.handle.set_decode_level(decode_level(lvl))).is_some() {
                        out.probe("decode_change_injected");
                    }
                }
            }
            action += 1;
            serial::line_write(PATH, &burst[pos..*c]);
            kernel::settle();
            pos = *c;
        }
        if let Some(kind) = read_fault {
            // reported by the read that follows the bytes delivered so far
            serial::inject_port_lost(PATH, kind);
            out.probe("rtu_read_error_mid_burst");
            descs.push("read_error");
        }
        // replies respect the inter-character silence (t3.5 = 4.01 ms at 9600 baud): give them time
        kernel::advance(6 * MS * nframes as u64);
        pending.extend_from_slice(&burst);
        // model: frame the accumulated stream
        let (items, used) = {
            // (an implementation that drops frames with a bad CRC goes on with what follows them)
            let mut items = Vec::new();
            let mut used = 0usize;
            loop {
                let (it, u) = rtu_deframe(RtuDir::Request, &pending[used..]);
                used += u;
                let skip = match it.last() {
                    Some(RtuItem::BadCrc { total }) if skip_bad_crc => Some(*total),
                    _ => None,
                };
                items.extend(it);
                match skip {
                    Some(total) => {
                        items.pop();
                        used += total;
                        out.probe("rtu_bad_crc_frame_skipped_by_model");
                    }
                    None => break,
                }
            }
            (items, used)
        };
        let mut expected_bytes = Vec::new();
        let mut exps: Vec<Expected> = Vec::new();
        let mut error = false;
        // the burst ends with a complete frame whose CRC does not verify (and with nothing else wrong)
        let mut bad_crc = false;
        let mut bad_total = 0usize;
        let mut classes = Vec::new();
        for it in &items {
            match it {
                RtuItem::Frame { addr, pdu } => {
                    let ex = model.serve(*addr, pdu);
                    if let Some(r) = &ex.reply {
                        expected_bytes.extend(rtu_frame(*addr, r));
                    }
                    classes.push(format!("addr={} {} pdu={}", addr, ex.class, hex(&pdu[..pdu.len().min(8)])));
                    if samples.len() < 5 {
                        samples.push(json!({"addr": addr, "pdu": hex(pdu), "class": ex.class, "reply": ex.reply.as_ref().map(|r| hex(r))}));
                    }
                    exps.push(ex);
                    frames_checked += 1;
                }
                RtuItem::Error => {
                    error = true;
                    classes.push("framing_error".into());
                }
                RtuItem::BadCrc { total } => {
                    error = true;
                    bad_crc = true;
                    bad_total = *total;
                    classes.push("bad_crc".into());
                }
            }
        }
        pending.drain(..used);
        if read_fault.is_some() {
            error = true;
        }
        let got = serial::line_take(PATH);
        if got != expected_bytes {
            let broadcast = exps.iter().any(|e| e.class == "broadcast");
            let unconf = exps.iter().any(|e| e.class.contains("unconfigured"));
            let corrupted = descs.iter().any(|d| *d != "valid_crc");
            let mut props = vec!["C01"];
            if broadcast || unconf {
                props.push("C17");
            }
            if corrupted || error {
                props.push("C06");
            }
            // is every reply frame at least correctly CRC'd and <= 256 bytes?
            let rule = format!(
                "rtu_reply_stream/{}{}{}",
                if got.len() > expected_bytes.len() { "unexpected_bytes" } else if got.len() < expected_bytes.len() { "missing_bytes" } else { "wrong_bytes" },
                if broadcast { "/broadcast" } else if unconf { "/unconfigured" } else { "" },
                if corrupted { "/corrupted_input" } else { "" }
            );
            let d = format!(
                "burst {:?} chunks {:?}: line carries {} (len {}), expected {} (len {}); frames: {:?}",
                descs,
                &cuts[..cuts.len().min(8)],
                hex(&got[..got.len().min(24)]),
                got.len(),
                hex(&expected_bytes[..expected_bytes.len().min(24)]),
                expected_bytes.len(),
                classes
            );
            for p in props {
                out.violate(p, &rule, d.clone());
            }
            // the same deviation may also show in what the handlers were asked to do
            let j: Vec<(u8, Call)> = rig.journal.lock().unwrap()[journal_pos..].to_vec();
            if let Err(e) = check_journal(&j, &exps, out) {
                out.violate("C02", "rtu_handler_journal", format!("burst {:?}: {} (journal {:?}; frames {:?})", descs, e, &j[..j.len().min(6)], classes));
            }
            break 'outer;
        }
        // every emitted frame: <= 256 bytes, CRC low byte first (implied by equality with the model, probe the sizes)
        if got.len() > 200 {
            out.probe("large_reply_frame");
        }
        let j: Vec<(u8, Call)> = rig.journal.lock().unwrap()[journal_pos..].to_vec();
        journal_pos += j.len();
        if let Err(e) = check_journal(&j, &exps, out) {
            let broadcast = exps.iter().any(|e| e.class == "broadcast");
            let corrupted = descs.iter().any(|d| *d != "valid_crc");
            let d = format!("burst {:?}: {} (journal {:?}; frames {:?})", descs, e, &j[..j.len().min(6)], classes);
            let rule = format!("rtu_handler_journal{}{}", if broadcast { "/broadcast" } else { "" }, if corrupted { "/corrupted_input" } else { "" });
            out.violate("C02", &rule, d.clone());
            if broadcast {
                out.violate("C17", &rule, d.clone());
            }
            if corrupted || error {
                out.violate("C06", &rule, d);
            }
            // recorded; the run goes on (without adopting the implementation's state), so that what a
            // missed or spurious handler call does to later replies is judged as well (C01)
            journal_deviated = true;
        }
        if exps.iter().any(|e| e.class == "broadcast" && !e.calls.is_empty()) {
            out.probe("broadcast_write_applied");
        }
        if error {
            out.probe("framing_error_injected");
            // the session ends; the port is reopened after the retry delay (the
            // implementation keeps the descriptor until then, which the property allows)
            let after_bad_frame: Vec<u8> = if bad_crc { pending[bad_total.min(pending.len())..].to_vec() } else { Vec::new() };
            pending.clear();
            // the bad frame is examined once the replies to the frames before it are written
            let last_write = serial::writes(PATH).last().map(|w| w.0).unwrap_or(0);
            let err_at = deliver_at.max(last_write);
            let mut t = err_at + retry.disconnected();
            // optionally the device is gone for a few attempts
            let fails = if cfg.faults { weighted(&[4, 1, 1]) } else { 0 };
            for _ in 0..fails {
                serial::plan_open(PATH, OpenOutcome::NoDevice);
            }
            for _ in 0..fails {
                expected_opens.push((t, false));
                t += retry.failed();
            }
            expected_opens.push((t, true));
            retry.reset();
            // commands arriving during the wait must not cut it short
            if chance(1, 2) {
                let now = kernel::now_ns();
                let mut at: Vec<u64> = (0..1 + choose(3)).map(|_| now + choose64(t.saturating_sub(now).max(1))).collect();
                at.sort();
                for a in at {
                    if a > kernel::now_ns() {
                        kernel::advance_to(a);
                    }
                    if kernel::try_now(rig.handle.set_decode_level(decode_level(choose(36) as u8))).is_some() {
                        out.probe("command_during_reopen_wait");
                    }
                }
            }
            // the planned level change of the paired runs (C20) may fall into the wait as well
            if let Some((k, lvl)) = cfg.decode.change_at {
                if k == action {
                    let now = kernel::now_ns();
                    if t > now + 1 {
                        kernel::advance_to(now + (t - now) / 2);
                    }
                    if kernel::try_now(rig.handle.set_decode_level(decode_level(lvl))).is_some() {
                        out.probe("decode_change_injected");
                        out.probe("decode_change_during_reopen_wait");
                    }
                }
            }
            action += 1;
            // bytes sent while the port is closed are lost on a UART: probe liveness afterwards
            kernel::advance_to(t);
            // A frame with a bad CRC is never acted on (checked above); that the session ends over it is what the
            // library does, not something a property demands. If the implementation made no attempt to re-open
            // the port and is still on it, it has dropped the frame and carries on: so does the model
            let _ = (&after_bad_frame, bad_crc, &mut kept_after_bad_crc);
            if !check_opens(&expected_opens, out, "after framing error") {
                // recorded (C14, C06); carry on from what the implementation did, so that what it does
                // to the frames that follow is judged as well
                expected_opens = serial::opens(PATH).iter().map(|o| (o.at, o.ok)).collect();
                if !serial::is_open(PATH) {
                    break 'outer;
                }
                continue;
            }
            if !serial::is_open(PATH) {
                out.violate("C06", "port_not_reopened", "after a bad frame the port was not reopened after the retry delay".into());
                break 'outer;
            }
        } else if serial::opens(PATH).len() != expected_opens.len() || !serial::is_open(PATH) {
            let d = format!("burst {:?}: the port was closed/reopened although every frame was valid (frames {:?})", descs, classes);
            out.violate("C06", "valid_frame_fatal", d.clone());
            if kept_after_bad_crc || lenient_mode {
                // (or it is the late end of a session over an earlier bad frame: then the re-open delay was not the announced one)
                out.violate("C14", "valid_frame_fatal", d.clone());
            }
            out.violate("C01", "valid_frame_fatal", d);
            break 'outer;
        }
        out.state((pending.len() as u64).min(15) | (error as u64) << 4 | (exps.len() as u64) << 5);
    }
    if out.violations.is_empty() {
        for (u, h) in &rig.handlers {
            let g = h.lock().unwrap();
            let m = &model.units[u];
            if g.mem.coils != m.coils || g.mem.holding != m.holding {
                out.violate("C02", "application_state", format!("unit {}: point memory differs from the reference model", u));
                out.violate("C17", "application_state", format!("unit {}: point memory differs from the reference model", u));
            }
        }
    }
    out.ops_checked = frames_checked;
    if frames_checked > 0 {
        out.nontrivial = Some(wl);
    }
    out.sample = Some(json!({"scenario": "rtu server vs reference model", "units": units.keys().collect::<Vec<_>>(), "decode_level_index": dec_idx,
        "retry_min_ms": retry_min / MS, "frames": samples}));
    out.observable.extend(format!("{:?}", rig.journal.lock().unwrap()).into_bytes());
    out.observable.extend(format!("{:?}", serial::opens(PATH).iter().map(|o| (o.at, o.ok)).collect::<Vec<_>>()).into_bytes());
    out.observable.extend(format!("{:?}", serial::writes(PATH)).into_bytes());
    {
        let mut fut = Box::pin(rig.handle.shutdown());
        let _ = kernel::block_on(fut.as_mut());
    }
    kernel::settle();
    if out.violations.is_empty() && !rig.task.is_finished() {
        out.violate("C07", "rtu_server_ignores_shutdown", "the RTU server task did not end after shutdown".into());
    }
    let _ = &mut rig;
    let _ = Req::ReadCoils { start: 0, count: 1 };
}

fn choose64(n: u64) -> u64 {
    // uniform enough for instants: two 32-bit draws
    let hi = choose(1 << 20) as u64;
    let lo = choose(1 << 20) as u64;
    ((hi << 20) | lo) % n
}

// ---------------------------------------------------------------------------
// C17 / C07 / C02: edge configurations of the RTU server
//  * one handler object mapped to several unit ids (the map allows it): a broadcast write is applied once per
//    configured unit id, i.e. that handler is invoked once for each of its ids, and the task stays alive;
//  * a reply whose write fails: the session ends, the port is re-opened after the retry delay - and whatever
//    comes next, in particular a broadcast, is treated like on a fresh port (a broadcast is never answered).
pub fn run_server_edge(cfg: &ScenCfg, out: &mut RunOut) {
    let sched = chance(1, 2);
    let sel = chance(1, 2);
    let chunk = chance(1, 2);
    kernel::with(|w| {
        w.cfg.sched_random = sched;
        w.cfg.select_random = sel;
        w.cfg.chunk_reads = chunk;
    });
    let (_, decode) = pick_decode(&cfg.decode);
    serial::add_line(PATH, OpenOutcome::Ok, true);
    let journal: Journal = Arc::new(Mutex::new(Vec::new()));
    let ua = 1 + choose(80) as u8;
    let ub = ua + 1 + choose(80) as u8;
    let uc = ub + 1 + choose(80) as u8;
    let shared_ids = chance(2, 3);
    let third = chance(1, 2);
    let mk = |u: u8| {
        MemHandler {
            unit: u,
            mem: UnitMem::new(0xed6e_0000 + u as u64),
            journal: journal.clone(),
        }
        .wrap()
    };
    let ha = mk(ua);
    let hb = if shared_ids { ha.clone() } else { mk(ub) };
    let mut map = ServerHandlerMap::new();
    map.add(UnitId::new(ua), ha.clone());
    map.add(UnitId::new(ub), hb.clone());
    let mut configured = vec![ua, ub];
    if third {
        map.add(UnitId::new(uc), mk(uc));
        configured.push(uc);
    }
    // (journal entries carry the unit the handler object was created for)
    let tag = |u: u8| if shared_ids && u == ub { ua } else { u };
    let retry_ns = [20 * MS, 100 * MS][choose(2) as usize];
    let (handle, task) = create_rtu_server_task(PATH, SerialSettings::default(), doubling_retry_strategy(Duration::from_nanos(retry_ns), Duration::from_nanos(retry_ns)), map, decode);
    let task = simtokio::task::spawn_named("rtu-server", task.run());
    kernel::settle();
    let mut jpos = 0usize;
    let mut val: u16 = 0x1000 + choose(0x1000) as u16;
    let steps = 2 + choose(6);
    let mut write_fault_done = false;
    for step in 0..steps {
        val = val.wrapping_add(1);
        let addr = choose(16) as u16;
        let action = if cfg.faults && !write_fault_done && step > 0 && chance(1, 3) { 3 } else { weighted(&[4, 2, 2]) };
        let ctx: String;
        match action {
            0 => {
                // broadcast write (single register or multiple registers)
                let pdu = if chance(1, 2) { vec![6, (addr >> 8) as u8, addr as u8, (val >> 8) as u8, val as u8] } else { vec![16, (addr >> 8) as u8, addr as u8, 0, 2, 4, (val >> 8) as u8, val as u8, 0, 7] };
                let call = if pdu[0] == 6 { Call::WriteReg(addr, val) } else { Call::WriteRegs(addr, 2, vec![(addr, val), (addr + 1, 7)]) };
                serial::line_write(PATH, &rtu_frame(0, &pdu));
                kernel::advance(10 * MS);
                ctx = format!("broadcast write fc={} addr={} value={:#06x} to units {:?}{}", pdu[0], addr, val, configured, if shared_ids { " (first two share one handler object)" } else { "" });
                let got = serial::line_take(PATH);
                if !got.is_empty() {
                    let d = format!("{}: the server answered a broadcast with {}", ctx, hex(&got[..got.len().min(24)]));
                    out.violate("C17", "rtu_edge/broadcast_answered", d.clone());
                    out.violate("C01", "rtu_edge/broadcast_answered", d);
                    break;
                }
                let mut j: Vec<(u8, Call)> = journal.lock().unwrap()[jpos..].to_vec();
                jpos += j.len();
                let mut exp: Vec<(u8, Call)> = configured.iter().map(|u| (tag(*u), call.clone())).collect();
                j.sort_by_key(|e| e.0);
                exp.sort_by_key(|e| e.0);
                if j != exp {
                    let d = format!("{}: handler calls {:?}, expected one per configured unit id {:?}", ctx, j, exp);
                    out.violate("C17", "rtu_edge/broadcast_not_applied_once_per_unit", d.clone());
                    out.violate("C02", "rtu_edge/broadcast_not_applied_once_per_unit", d);
                    break;
                }
                out.ops_checked += 1;
                out.probe(if shared_ids { "rtu_broadcast_shared_handler" } else { "rtu_broadcast_distinct_handlers" });
            }
            1 | 3 => {
                // unicast write to a configured unit; with action 3 the reply write fails
                let u = configured[choose(configured.len() as u32) as usize];
                let pdu = vec![6, (addr >> 8) as u8, addr as u8, (val >> 8) as u8, val as u8];
                let f = rtu_frame(u, &pdu);
                if action == 3 {
                    let kind = [std::io::ErrorKind::BrokenPipe, std::io::ErrorKind::TimedOut, std::io::ErrorKind::Other][choose(3) as usize];
                    serial::inject_write_fault(PATH, choose(f.len() as u32) as u64, kind);
                    write_fault_done = true;
                }
                serial::line_write(PATH, &f);
                kernel::advance(10 * MS);
                ctx = format!("write register {}={:#06x} to unit {}{}", addr, val, u, if action == 3 { " (reply write fails)" } else { "" });
                let got = serial::line_take(PATH);
                let j: Vec<(u8, Call)> = journal.lock().unwrap()[jpos..].to_vec();
                jpos += j.len();
                if j != vec![(tag(u), Call::WriteReg(addr, val))] {
                    out.violate("C02", "rtu_edge/unicast_write_journal", format!("{}: handler calls {:?}", ctx, j));
                    break;
                }
                if action == 3 {
                    // whatever part of the reply left the port is a prefix of the echo
                    if !f.starts_with(&got) || got.len() == f.len() {
                        out.violate("C01", "rtu_edge/reply_after_write_error", format!("{}: line carries {}", ctx, hex(&got[..got.len().min(24)])));
                        break;
                    }
                    // the port is closed and re-opened after the retry delay
                    kernel::advance(retry_ns + MS);
                    let opens = serial::opens(PATH).len();
                    if opens != 2 || !serial::is_open(PATH) {
                        let d = format!("{}: {} open attempts, port open = {} one retry delay after the failed write", ctx, opens, serial::is_open(PATH));
                        out.violate("C07", "rtu_edge/port_not_reopened", d.clone());
                        out.violate("C14", "rtu_edge/port_not_reopened", d);
                        break;
                    }
                    let stray = serial::line_take(PATH);
                    if !stray.is_empty() {
                        out.violate("C01", "rtu_edge/bytes_after_reopen", format!("{}: after the re-open the server sent {} unasked", ctx, hex(&stray[..stray.len().min(24)])));
                        break;
                    }
                    out.probe("rtu_reply_write_error_then_reopen");
                } else if got != f {
                    let d = format!("{}: reply {}, expected the echo {}", ctx, hex(&got[..got.len().min(24)]), hex(&f));
                    out.violate("C01", "rtu_edge/unicast_write_reply", d.clone());
                    out.violate("C17", "rtu_edge/unicast_write_reply", d);
                    break;
                }
                out.ops_checked += 1;
            }
            _ => {
                // read addressed to unit 0: ignored; read addressed to a unit that is not configured: silence
                let dest = if chance(1, 2) { 0 } else { uc.wrapping_add(1 + choose(10) as u8) };
                let pdu = vec![3, (addr >> 8) as u8, addr as u8, 0, 1];
                serial::line_write(PATH, &rtu_frame(dest, &pdu));
                kernel::advance(10 * MS);
                ctx = format!("read holding {} addressed to {}", addr, dest);
                let got = serial::line_take(PATH);
                let j: Vec<(u8, Call)> = journal.lock().unwrap()[jpos..].to_vec();
                jpos += j.len();
                if !got.is_empty() || !j.is_empty() {
                    let d = format!("{}: line carries {}, handler calls {:?} (expected silence and none)", ctx, hex(&got[..got.len().min(24)]), j);
                    out.violate("C17", "rtu_edge/not_silent", d.clone());
                    out.violate("C02", "rtu_edge/not_silent", d);
                    break;
                }
                out.ops_checked += 1;
            }
        }
        let _ = ctx;
    }
    // the task is alive and honours shutdown
    if out.violations.is_empty() {
        drop(handle);
        kernel::advance(retry_ns + 10 * MS);
        if !task.is_finished() {
            let d = "the RTU server task did not end after its handle was dropped".to_string();
            out.violate("C07", "rtu_edge/task_ignores_shutdown", d.clone());
            out.violate("C15", "rtu_edge/task_ignores_shutdown", d);
        }
    }
    out.nontrivial = if out.ops_checked > 0 { Some(((ua as u64) << 40) ^ ((ub as u64) << 32) ^ ((val as u64) << 8) ^ steps as u64 ^ ((shared_ids as u64) << 60)) } else { None };
    out.sample = Some(json!({"scenario": "rtu server edge configurations", "units": configured, "shared_handler": shared_ids, "steps": steps}));
    let _ = (ha, hb);
}
