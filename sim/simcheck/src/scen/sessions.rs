//! C15: session limit / eviction / isolation / shutdown, and C16: address filter
//! (Rust API, plain TCP). Real `create_tcp_server_task`, director-driven peers.

use super::common::*;
use super::server_tcp::start_tcp_server;
use crate::driver::{Mode, RunOut, ScenCfg};
use crate::model::frame::{mbap_frame, mbap_frame_raw};
use crate::model::server::UnitMem;
use rodbus::server::*;
use serde_json::json;
use simtokio::kernel::{self, chance, choose, weighted};
use simtokio::net::{self, PeerEnd};
use std::collections::BTreeMap;
use std::net::{IpAddr, Ipv4Addr, Ipv6Addr, SocketAddr};

fn units1() -> BTreeMap<u8, UnitMem> {
    let mut m = BTreeMap::new();
    m.insert(1u8, UnitMem::new(0xC15));
    m
}

/// sentinel: read holding register `addr` of unit 1; returns the expected reply frame
fn sentinel(tx: u16, addr: u16) -> (Vec<u8>, Vec<u8>) {
    let req = mbap_frame(tx, 1, &[3, (addr >> 8) as u8, addr as u8, 0, 1]);
    let v = UnitMem::new(0xC15).read_reg(3, addr).unwrap();
    let rep = mbap_frame(tx, 1, &[3, 2, (v >> 8) as u8, v as u8]);
    (req, rep)
}

struct Conn {
    peer: PeerEnd,
    id: usize,
}

/// ask every connection the sentinel: returns ids that answered correctly; Err on a wrong answer
fn probe_all(conns: &[Conn], tx: &mut u16) -> Result<Vec<usize>, String> {
    let mut alive = Vec::new();
    for c in conns {
        if c.peer.remote_closed() {
            continue;
        }
        *tx = tx.wrapping_add(1);
        let (req, rep) = sentinel(*tx, (*tx % 50) as u16);
        c.peer.write(&req);
        kernel::settle();
        let got = c.peer.take_received();
        if got == rep {
            alive.push(c.id);
        } else if got.is_empty() && c.peer.remote_closed() {
            // closed while we asked
        } else {
            return Err(format!("connection {} answered {} to the sentinel, expected {}", c.id, hex(&got), hex(&rep)));
        }
    }
    Ok(alive)
}

pub fn run_sessions(cfg: &ScenCfg, out: &mut RunOut) {
    let racy = cfg.mode == Mode::Racy;
    let sched = chance(1, 2) || racy;
    let sel = chance(1, 2) || racy;
    let chunk = chance(1, 2);
    kernel::with(|w| {
        w.cfg.sched_random = sched;
        w.cfg.select_random = sel;
        w.cfg.chunk_reads = chunk;
    });
    let (dec_idx, decode) = pick_decode(&cfg.decode);
    let max_sessions = match weighted(&[4, 1]) {
        0 => choose(6) as usize,
        _ => 10 + choose(3) as usize,
    };
    let limit = max_sessions.max(1);
    let addr: SocketAddr = "10.0.0.1:502".parse().unwrap();
    let mut rig = Some(start_tcp_server(addr, &units1(), max_sessions, AddressFilter::Any, decode));
    kernel::settle();
    let mut conns: Vec<Conn> = Vec::new(); // every connection ever made (open or closed)
    let mut live: Vec<usize> = Vec::new(); // model: ordered live set (oldest first)
    let mut next_id = 0usize;
    let mut tx = 0u16;
    let mut wl = (max_sessions as u64) << 32 | dec_idx as u64;
    let mut trace = Vec::new();
    let n = if max_sessions >= 10 { 30 + choose(30) as usize } else { 4 + choose(24) as usize };
    let mut server_up = true;
    for _ in 0..n {
        let kind = if !server_up {
            0
        } else if max_sessions >= 10 {
            weighted(&[16, 2, 3, 1, 1, 0, 2, 2])
        } else {
            weighted(&[8, 3, 4, 2, 1, 1, 0, 2])
        };
        hash_bytes(&mut wl, &[kind as u8]);
        match kind {
            0 => {
                // connect
                let from: SocketAddr = format!("10.0.2.{}:{}", 1 + next_id % 200, 3000 + next_id).parse().unwrap();
                // optionally leave the oldest session in the middle of a frame first
                if let Some(o) = live.first() {
                    if live.len() >= limit && chance(1, 3) {
                        let c = conns.iter().find(|c| c.id == *o).unwrap();
                        c.peer.write(&[0, 9, 0, 0, 0]);
                        kernel::settle();
                        out.probe("evict_while_evictee_midframe");
                    }
                }
                // optionally the oldest session is stuck writing a reply: its peer has stopped reading
                if let Some(o) = live.first() {
                    if cfg.faults && live.len() >= limit && chance(1, 3) {
                        let c = conns.iter().find(|c| c.id == *o).unwrap();
                        c.peer.set_capacity(4);
                        c.peer.write(&mbap_frame(0x7777, 1, &[3, 0, 0, 0, 100]));
                        kernel::settle();
                        kernel::count("fault_peer_stall");
                        out.probe("evict_while_evictee_blocked_writing");
                    }
                }
                let p = net::connect_from(addr, from);
                kernel::settle();
                match p {
                    None => {
                        if server_up {
                            out.violate("C15", "connect_refused_while_serving", format!("connection {} was refused although the server is running", next_id));
                            return;
                        }
                        trace.push("connect (refused: server is down)".to_string());
                        out.probe("connect_after_shutdown_refused");
                    }
                    Some(p) => {
                        if !server_up {
                            out.violate("C15", "listening_after_shutdown", "a connection was accepted after shutdown / handle drop".into());
                            return;
                        }
                        let id = next_id;
                        next_id += 1;
                        let mut evicted = None;
                        if live.len() >= limit {
                            evicted = Some(live.remove(0));
                            out.probe("eviction");
                        }
                        live.push(id);
                        conns.push(Conn { peer: p, id });
                        trace.push(format!("connect #{} (evicts {:?})", id, evicted));
                    }
                }
            }
            1 => {
                // a client closes
                if let Some(pos) = (!live.is_empty()).then(|| choose(live.len() as u32) as usize) {
                    let id = live.remove(pos);
                    let c = conns.iter_mut().find(|c| c.id == id).unwrap();
                    if chance(1, 2) {
                        c.peer.close();
                    } else {
                        c.peer.shutdown_write();
                    }
                    kernel::count("fault_eof");
                    trace.push(format!("client #{} closes", id));
                }
            }
            2 => {
                // sentinel on one live connection
                if !live.is_empty() {
                    let id = live[choose(live.len() as u32) as usize];
                    let c = conns.iter().find(|c| c.id == id).unwrap();
                    tx = tx.wrapping_add(1);
                    let (req, rep) = sentinel(tx, (tx % 50) as u16);
                    c.peer.write(&req);
                    kernel::settle();
                    let got = c.peer.take_received();
                    if got != rep {
                        out.violate("C15", "live_session_not_served", format!("connection {} (live per model {:?}, limit {}) answered {} expected {}", id, live, limit, hex(&got), hex(&rep)));
                        return;
                    }
                    out.ops_checked += 1;
                    trace.push(format!("request on #{}", id));
                }
            }
            3 => {
                // garbage / error on one connection
                if !live.is_empty() {
                    let pos = choose(live.len() as u32) as usize;
                    let id = live[pos];
                    let c = conns.iter().find(|c| c.id == id).unwrap();
                    match choose(3) {
                        0 => {
                            c.peer.write(&mbap_frame_raw(1, 0x5555, 6, 1, &[3, 0, 0, 0, 1]));
                            live.remove(pos);
                            trace.push(format!("garbage (bad header) on #{}", id));
                        }
                        1 => {
                            c.peer.inject_read_error(0, std::io::ErrorKind::ConnectionReset);
                            live.remove(pos);
                            trace.push(format!("read error on #{}", id));
                        }
                        _ => {
                            // malformed but well-framed: the session survives
                            c.peer.write(&mbap_frame(7, 1, &[0x63, 1, 2, 3]));
                            kernel::settle();
                            let got = c.peer.take_received();
                            if got != mbap_frame(7, 1, &[0xE3, 1]) {
                                out.violate("C15", "live_session_not_served", format!("connection {} answered {} to an unknown function", id, hex(&got)));
                                return;
                            }
                            trace.push(format!("unknown function on #{}", id));
                        }
                    }
                }
            }
            7 => {
                // a burst of connections lands in the accept queue before the server runs again
                let k = 2 + choose(3) as usize;
                let mut newc = Vec::new();
                for _ in 0..k {
                    let from: SocketAddr = format!("10.0.2.{}:{}", 1 + next_id % 200, 3000 + next_id).parse().unwrap();
                    match net::connect_from(addr, from) {
                        Some(p) => {
                            newc.push((next_id, p));
                            next_id += 1;
                        }
                        None => {
                            out.violate("C15", "connect_refused_while_serving", "burst connection refused although the server is running".into());
                            return;
                        }
                    }
                }
                for (id, p) in newc {
                    if live.len() >= limit {
                        live.remove(0);
                        out.probe("eviction");
                    }
                    live.push(id);
                    conns.push(Conn { peer: p, id });
                }
                out.probe("burst_connect");
                trace.push(format!("{} connections at once", k));
            }
            6 => {
                // many clients vanish in the same instant (their close notifications race in one batch)
                let k = live.len().min(9 + choose(4) as usize);
                if k >= 2 {
                    let start = if live.len() > k { 1 } else { 0 }; // keep the oldest when possible
                    let ids: Vec<usize> = live[start..start + (k - start).max(1)].to_vec();
                    for id in &ids {
                        let c = conns.iter_mut().find(|c| c.id == *id).unwrap();
                        c.peer.close();
                    }
                    live.retain(|x| !ids.contains(x));
                    out.probe("mass_close");
                    trace.push(format!("{} clients close at once", ids.len()));
                }
            }
            4 if cfg.faults && chance(1, 2) => {
                // accept() fails once (a connection that was reset before it could be accepted, a momentary
                // lack of descriptors): that is not the end of the listener, nor of the sessions
                if rig.is_some() {
                    let kind = [std::io::ErrorKind::ConnectionAborted, std::io::ErrorKind::ConnectionReset, std::io::ErrorKind::Other, std::io::ErrorKind::OutOfMemory][choose(4) as usize];
                    net::inject_accept_error(addr, kind);
                    kernel::settle();
                    // (a listener may pause before accepting again after some errors)
                    kernel::advance(2_000_000_000);
                    out.probe("accept_error_injected");
                    trace.push(format!("accept error {:?}", kind));
                }
            }
            4 => {
                if let Some(r) = rig.as_mut() {
                    let mut fut = Box::pin(r.handle.set_decode_level(decode_level(choose(36) as u8)));
                    let _ = kernel::block_on(fut.as_mut());
                    trace.push("set decode level".into());
                }
            }
            _ => {
                // shutdown or drop the handle
                if cfg.faults && rig.is_some() && !live.is_empty() && chance(1, 2) {
                    // one session is stuck writing a reply meanwhile
                    let id = live[choose(live.len() as u32) as usize];
                    let c = conns.iter().find(|c| c.id == id).unwrap();
                    c.peer.set_capacity(4);
                    c.peer.write(&mbap_frame(0x7778, 1, &[3, 0, 0, 0, 100]));
                    kernel::settle();
                    kernel::count("fault_peer_stall");
                    out.probe("shutdown_while_session_blocked_writing");
                }
                if let Some(r) = rig.take() {
                    if chance(1, 2) {
                        {
                            let mut fut = Box::pin(r.handle.shutdown());
                            let _ = kernel::block_on(fut.as_mut());
                        }
                        kernel::settle();
                        trace.push("shutdown".into());
                        if !r.task.is_finished() {
                            out.violate("C15", "server_task_survives_shutdown", "server task still running after shutdown()".into());
                            return;
                        }
                    } else if cfg.faults && chance(1, 3) {
                        // the application cancels the server task itself (JoinHandle::abort): everything the task
                        // owned - listener, session records - is dropped, which must end the sessions as well
                        r.task.abort();
                        kernel::settle();
                        trace.push("abort server task".into());
                        kernel::count("fault_cancel_task");
                        out.probe("server_task_aborted");
                        drop(r.handle);
                    } else {
                        let task = r.task;
                        drop(r.handle);
                        kernel::settle();
                        trace.push("drop handle".into());
                        if !task.is_finished() {
                            out.violate("C15", "server_task_survives_handle_drop", "server task still running after the handle was dropped".into());
                            return;
                        }
                    }
                    server_up = false;
                    live.clear();
                    out.probe("shutdown_with_sessions");
                }
            }
        }
        kernel::settle();
        // invariants at the quiescent point
        let open: Vec<usize> = conns.iter().filter(|c| !c.peer.remote_closed()).map(|c| c.id).collect();
        if open.len() > limit && server_up {
            out.violate("C15", "more_sessions_than_limit", format!("{} connections are open {:?}, max_sessions={} (limit {}) after: {:?}", open.len(), open, max_sessions, limit, trace.last()));
            return;
        }
        if !racy || true {
            // lock-step: the set of open connections is exactly the model's
            let mut want = live.clone();
            want.sort();
            if open != want {
                let rule = if !server_up {
                    "sessions_open_after_shutdown"
                } else if open.len() < want.len() {
                    "wrong_session_closed"
                } else {
                    "session_not_closed"
                };
                out.violate("C15", rule, format!("open connections {:?}, model expects {:?} (oldest first {:?}, limit {}) after: {:?}", open, want, live, limit, trace.last()));
                return;
            }
        }
        out.state((live.len() as u64) | (limit as u64) << 4 | (server_up as u64) << 8);
    }
    // every live session still answers, independently
    match probe_all(&conns, &mut tx) {
        Ok(alive) => {
            let mut want = live.clone();
            want.sort();
            if alive != want {
                out.violate("C15", "final_probe", format!("sessions answering {:?}, model expects {:?}", alive, want));
            }
            out.ops_checked += alive.len() as u64;
        }
        Err(e) => out.violate("C15", "isolation", e),
    }
    out.nontrivial = Some(wl);
    out.sample = Some(json!({"scenario": "tcp server sessions", "max_sessions": max_sessions, "actions": trace.iter().take(30).collect::<Vec<_>>()}));
}

// ---------------------------------------------------------------------------- C16

fn lattice_octet() -> u8 {
    [0u8, 1, 127, 128, 254, 255, 10, 192][choose(8) as usize]
}

fn gen_ipv4() -> Ipv4Addr {
    Ipv4Addr::new(lattice_octet(), lattice_octet(), lattice_octet(), lattice_octet())
}

pub fn gen_peer_ip_pub(base: Option<Ipv4Addr>) -> IpAddr {
    gen_peer_ip(base)
}

fn gen_peer_ip(base: Option<Ipv4Addr>) -> IpAddr {
    match weighted(&[4, 4, 1, 1, 1]) {
        0 => IpAddr::V4(gen_ipv4()),
        1 => {
            // one octet away from the base
            let b = base.unwrap_or_else(gen_ipv4).octets();
            let mut o = b;
            if chance(2, 3) {
                let i = choose(4) as usize;
                o[i] = o[i].wrapping_add([1u8, 255, 128][choose(3) as usize]);
            }
            IpAddr::V4(Ipv4Addr::from(o))
        }
        2 => IpAddr::V6(Ipv6Addr::LOCALHOST),
        3 => IpAddr::V6(Ipv6Addr::new(0xfd00, 0, 0, 0, 0, 0, 0, choose(3) as u16)),
        _ => IpAddr::V6(base.unwrap_or_else(gen_ipv4).to_ipv6_mapped()),
    }
}

#[derive(Clone, Debug)]
pub enum FilterSpec {
    Any,
    Exact(IpAddr),
    AnyOf(Vec<IpAddr>),
    Wildcard([Option<u8>; 4]),
}

impl FilterSpec {
    pub fn matches(&self, ip: IpAddr) -> bool {
        match self {
            FilterSpec::Any => true,
            FilterSpec::Exact(x) => *x == ip,
            FilterSpec::AnyOf(v) => v.contains(&ip),
            FilterSpec::Wildcard(w) => match ip {
                IpAddr::V4(a) => a.octets().iter().zip(w.iter()).all(|(o, f)| f.map_or(true, |x| x == *o)),
                IpAddr::V6(_) => false,
            },
        }
    }
    pub fn wildcard_string(w: &[Option<u8>; 4]) -> String {
        w.iter().map(|f| f.map_or("*".to_string(), |x| x.to_string())).collect::<Vec<_>>().join(".")
    }
    pub fn to_rodbus(&self) -> AddressFilter {
        match self {
            FilterSpec::Any => AddressFilter::Any,
            FilterSpec::Exact(x) => AddressFilter::Exact(*x),
            FilterSpec::AnyOf(v) => AddressFilter::AnyOf(v.iter().copied().collect()),
            FilterSpec::Wildcard(w) => AddressFilter::WildcardIpv4(Self::wildcard_string(w).parse().expect("well-formed wildcard must parse")),
        }
    }
}

pub fn gen_filter() -> (FilterSpec, Option<Ipv4Addr>) {
    match weighted(&[1, 3, 3, 5]) {
        0 => (FilterSpec::Any, None),
        1 => {
            let ip = gen_peer_ip(None);
            let b = if let IpAddr::V4(a) = ip { Some(a) } else { None };
            (FilterSpec::Exact(ip), b)
        }
        2 => {
            let n = 1 + choose(4) as usize;
            let v: Vec<IpAddr> = (0..n).map(|_| gen_peer_ip(None)).collect();
            let b = v.iter().find_map(|x| if let IpAddr::V4(a) = x { Some(*a) } else { None });
            (FilterSpec::AnyOf(v), b)
        }
        _ => {
            let base = gen_ipv4();
            let o = base.octets();
            let mut w = [Some(o[0]), Some(o[1]), Some(o[2]), Some(o[3])];
            for f in w.iter_mut() {
                if chance(1, 3) {
                    *f = None;
                }
            }
            (FilterSpec::Wildcard(w), Some(base))
        }
    }
}

/// a wildcard string from the grammar of well- and ill-formed forms, with the verdict
pub fn gen_wildcard_string() -> (String, bool) {
    const FIELDS: [(&str, bool); 16] = [
        ("*", true),
        ("0", true),
        ("9", true),
        ("10", true),
        ("255", true),
        ("256", false),
        ("300", false),
        ("-1", false),
        ("", false),
        ("a", false),
        ("1a", false),
        (" 1", false),
        ("**", false),
        ("1 ", false),
        ("0x1", false),
        ("99999999999", false),
    ];
    let nfields = match weighted(&[10, 1, 1, 1, 1, 1]) {
        0 => 4,
        1 => 0,
        2 => 3,
        3 => 5,
        4 => 6,
        _ => 1,
    };
    let sep = if chance(1, 12) { [",", ":", " ", ".."][choose(4) as usize] } else { "." };
    let mut ok = nfields == 4 && sep == ".";
    let mut parts = Vec::new();
    for _ in 0..nfields {
        let (f, good) = if chance(3, 4) { FIELDS[choose(5) as usize] } else { FIELDS[choose(16) as usize] };
        ok &= good;
        parts.push(f);
    }
    (parts.join(sep), ok)
}

/// C16 over the Rust API, plain TCP: non-matching peers get zero bytes and EOF,
/// matching peers are served.
pub fn run_filter_tcp(cfg: &ScenCfg, out: &mut RunOut) {
    let sched = chance(1, 2);
    let sel = chance(1, 2);
    kernel::with(|w| {
        w.cfg.sched_random = sched;
        w.cfg.select_random = sel;
    });
    let (dec_idx, decode) = pick_decode(&cfg.decode);
    // pure sub-claim: the wildcard parser
    for _ in 0..4 {
        let (s, ok) = gen_wildcard_string();
        let got = s.parse::<WildcardIPv4>().is_ok();
        if got != ok {
            out.violate("C16", "wildcard_parser", format!("WildcardIPv4::from_str({:?}) accepted={} expected {}", s, got, ok));
            return;
        }
    }
    let (spec, base) = gen_filter();
    let addr: SocketAddr = "10.0.0.1:502".parse().unwrap();
    let rig = start_tcp_server(addr, &units1(), 16, spec.to_rodbus(), decode);
    kernel::settle();
    let mut wl = dec_idx as u64;
    hash_bytes(&mut wl, format!("{:?}", spec).as_bytes());
    let n = 1 + choose(6) as usize;
    let mut samples = Vec::new();
    let mut tx = 0u16;
    // a burst: several peers are already waiting in the listen queue when the server gets to accept; each is
    // judged by its own address
    if chance(1, 3) {
        let k = 2 + choose(3) as usize;
        let mut burst = Vec::new();
        for i in 0..k {
            let ip = gen_peer_ip(base);
            hash_bytes(&mut wl, format!("{}", ip).as_bytes());
            match net::connect_from(addr, SocketAddr::new(ip, 2500 + i as u16)) {
                Some(p) => burst.push((ip, p)),
                None => {
                    out.violate("C16", "not_listening", "server is not listening".into());
                    return;
                }
            }
        }
        kernel::settle();
        out.probe("filter_burst_connect");
        for (ip, p) in &burst {
            tx = tx.wrapping_add(1);
            let (req, rep) = sentinel(tx, 3);
            let calls_before = rig.journal.lock().unwrap().len();
            p.write(&req);
            kernel::settle();
            let got = p.take_received();
            let want = spec.matches(*ip);
            if !want && (rig.journal.lock().unwrap().len() != calls_before || !got.is_empty() || !p.remote_closed()) {
                out.violate("C16", "non_matching_peer_served", format!("filter {:?}: peer {} (one of {} connecting at once: {:?}) does not match but received {} bytes (closed={})", spec, ip, k, burst.iter().map(|b| b.0).collect::<Vec<_>>(), got.len(), p.remote_closed()));
                return;
            }
            if want && got != rep {
                out.violate("C16", "matching_peer_not_served", format!("filter {:?}: peer {} (one of {} connecting at once: {:?}) matches but got {}", spec, ip, k, burst.iter().map(|b| b.0).collect::<Vec<_>>(), hex(&got)));
                return;
            }
            out.ops_checked += 1;
        }
    }
    for i in 0..n {
        let ip = gen_peer_ip(base);
        hash_bytes(&mut wl, format!("{}", ip).as_bytes());
        let from = SocketAddr::new(ip, 2000 + i as u16);
        // fault: the accept() that would have returned this connection fails first (descriptor or memory
        // shortage, a connection reset in the backlog); the peer is accepted by a later call - through the filter
        let accept_fault = cfg.faults && chance(1, 3);
        if accept_fault {
            let kind = [std::io::ErrorKind::Other, std::io::ErrorKind::OutOfMemory, std::io::ErrorKind::ConnectionAborted][choose(3) as usize];
            net::inject_accept_error(addr, kind);
            out.probe("accept_error_before_peer");
        }
        let p = match net::connect_from(addr, from) {
            Some(p) => p,
            None => {
                out.violate("C16", "not_listening", "server is not listening".into());
                return;
            }
        };
        kernel::settle();
        if accept_fault {
            // (the listener may pause after such an error)
            kernel::advance(2_000_000_000);
        }
        tx = tx.wrapping_add(1);
        let (req, rep) = sentinel(tx, 3);
        let calls_before = rig.journal.lock().unwrap().len();
        p.write(&req);
        kernel::settle();
        let got = p.take_received();
        let want = spec.matches(ip);
        if !want && rig.journal.lock().unwrap().len() != calls_before {
            out.violate("C16", "non_matching_peer_reached_handler", format!("filter {:?}: a request from {} reached the application handler", spec, ip));
            return;
        }
        if samples.len() < 4 {
            samples.push(json!({"peer": ip.to_string(), "matches": want, "bytes_received": got.len()}));
        }
        if want {
            if got != rep {
                out.violate("C16", "matching_peer_not_served", format!("filter {:?}: peer {} matches but got {} (expected {})", spec, ip, hex(&got), hex(&rep)));
                return;
            }
            out.probe("served");
        } else {
            if !got.is_empty() {
                out.violate("C16", "non_matching_peer_served", format!("filter {:?}: peer {} does not match but received {} bytes: {}", spec, ip, got.len(), hex(&got)));
                return;
            }
            if !p.remote_closed() {
                out.violate("C16", "non_matching_peer_not_closed", format!("filter {:?}: connection from {} was not closed", spec, ip));
                return;
            }
            out.probe("rejected");
        }
        out.ops_checked += 1;
    }
    out.nontrivial = Some(wl);
    out.sample = Some(json!({"scenario": "address filter (Rust API, TCP)", "filter": format!("{:?}", spec), "peers": samples}));
}
