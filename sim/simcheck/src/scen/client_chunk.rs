//! C05, client role: segmentation independence as a metamorphic relation.
//!
//! One scripted session - requests, the peer's byte stream (replies, stale /
//! duplicate / future-tx frames, late replies of timed-out requests, optionally
//! one invalid header) and response time-outs - is played to two identical real
//! TCP clients. Client A receives the stream frame by frame; client B receives
//! the same bytes under an arbitrary chunking in which frames may share a read,
//! straddle reads, and be split around the instants at which requests are
//! submitted, time-outs expire and channel commands are processed. The moment a
//! frame is *received* is the delivery of its last byte; the script keeps that
//! moment in the same place of the event order in both runs. Completions,
//! request bytes, listener states and closure must be identical.

use super::client::{correct_reply, gen_reply_pdu, spawn_cmd, start_tcp_client, submit, Style, MS};
use super::common::*;
use crate::driver::{RunOut, ScenCfg};
use crate::model::client::{MState, Outcome};
use crate::model::frame::{mbap_frame, mbap_frame_raw, MbapDeframer};
use crate::model::pdu::Req;
use rodbus::ClientOptions;
use serde_json::json;
use simtokio::kernel::{self, chance, choose, weighted};
use simtokio::net::{self, PeerEnd};
use std::net::SocketAddr;

#[derive(Clone, Copy, Debug, PartialEq)]
enum Ev {
    Submit(usize),
    Timeout(usize),
}

struct Step {
    req: Req,
    unit: u8,
    timeout: u64,
    style: Style,
}

struct Script {
    steps: Vec<Step>,
    stream: Vec<u8>,
    frame_ends: Vec<usize>,
    /// (event, position in the frame-aligned run, lowest legal position, highest legal position);
    /// a position is the number of stream bytes delivered before the event
    events: Vec<(Ev, usize, usize, usize)>,
    bad_header: bool,
    late_replies: usize,
    junk: usize,
}

fn gen_script() -> Script {
    let n = 1 + choose(8) as usize;
    let mut sc = Script { steps: Vec::new(), stream: Vec::new(), frame_ends: Vec::new(), events: Vec::new(), bad_header: false, late_replies: 0, junk: 0 };
    let mut prev_reply: Option<Vec<u8>> = None;
    // lowest position of the next submit that is not implied by the previous event
    let mut lo_next = 0usize;
    let want_bad = chance(1, 6);
    let bad_at = choose(n as u32) as usize;
    // a quarter of the scripts live at the edge of the 260-byte receive buffer: replies of 247-259 bytes, so
    // that frames glued into one read end, or have their header end, exactly at the buffer's capacity
    let big = chance(1, 4);
    for i in 0..n {
        let tx = i as u16;
        let req = if big {
            let count = 119 + choose(7) as u16;
            if chance(1, 2) {
                Req::ReadHolding { start: choose(100) as u16, count }
            } else {
                Req::ReadInput { start: choose(100) as u16, count }
            }
        } else {
            gen_valid_req(chance(3, 4))
        };
        let unit = UNIT_POOL[choose(4) as usize];
        let timeout = [1000 * MS, 5000 * MS, 60_000 * MS][choose(3) as usize];
        let style = if chance(1, 3) { Style::Callback } else { Style::Future };
        let answered = chance(4, 5);
        let seg_start = sc.stream.len();
        let submit_idx = sc.events.len();
        sc.events.push((Ev::Submit(i), seg_start, lo_next, usize::MAX));
        let mut hi = usize::MAX;
        let push = |sc: &mut Script, f: Vec<u8>| {
            sc.stream.extend_from_slice(&f);
            sc.frame_ends.push(sc.stream.len());
        };
        // frames that must be skipped while request i is outstanding
        for _ in 0..weighted(&[3, 3, 2, 1]) {
            let f = match weighted(&[4, 2, 2]) {
                0 => mbap_frame(tx.wrapping_sub(1 + choose(3) as u16), unit, &correct_reply(&req)),
                1 => prev_reply.clone().unwrap_or_else(|| mbap_frame(tx.wrapping_sub(1), 1, &[3, 2, 0, 0])),
                _ => mbap_frame(tx.wrapping_add(100 + choose(1000) as u16), unit, &correct_reply(&req)),
            };
            sc.junk += 1;
            push(&mut sc, f);
        }
        if want_bad && bad_at == i && chance(1, 2) {
            // an invalid header while the request is outstanding: it must not be complete before the submit
            let start = sc.stream.len();
            let f = match choose(3) {
                0 => mbap_frame_raw(tx, 1 + choose(65535) as u16, 3, unit, &[3, 0]),
                1 => mbap_frame_raw(tx, 0, 0, unit, &[]),
                _ => mbap_frame_raw(tx, 0, 255 + choose(65281) as u16, unit, &[3, 0]),
            };
            push(&mut sc, f);
            sc.events[submit_idx].3 = start + 6;
            sc.bad_header = true;
            sc.steps.push(Step { req, unit, timeout, style });
            return sc;
        }
        if answered {
            let p = if chance(2, 3) { correct_reply(&req) } else { gen_reply_pdu(&req) };
            let f = mbap_frame(tx, unit, &p[..p.len().min(253)]);
            prev_reply = Some(f.clone());
            push(&mut sc, f);
            hi = hi.min(sc.stream.len() - 1);
            sc.events[submit_idx].3 = hi;
            lo_next = sc.stream.len();
        } else {
            // nothing arrives in time; the reply comes late and is complete only after the deadline
            let at = sc.stream.len();
            let f = mbap_frame(tx, unit, &correct_reply(&req));
            push(&mut sc, f);
            hi = hi.min(sc.stream.len() - 1);
            sc.events[submit_idx].3 = hi;
            sc.events.push((Ev::Timeout(i), at, 0, hi));
            sc.late_replies += 1;
            lo_next = 0;
        }
        // frames behind the reply: received while idle or while the next request is outstanding
        for _ in 0..weighted(&[4, 2, 1]) {
            let f = mbap_frame(tx.wrapping_sub(choose(3) as u16), unit, &correct_reply(&req));
            sc.junk += 1;
            push(&mut sc, f);
        }
        sc.steps.push(Step { req, unit, timeout, style });
        if want_bad && bad_at == i {
            // an invalid header while idle
            let f = mbap_frame_raw(tx, if chance(1, 2) { 0 } else { 0x0100 }, if chance(1, 2) { 0 } else { 300 }, unit, &[3, 0]);
            let f = if f[2] == 0 && f[3] == 0 && (f[4] as usize * 256 + f[5] as usize) >= 1 && (f[4] as usize * 256 + f[5] as usize) <= 254 { mbap_frame_raw(tx, 7, 3, unit, &[3, 0]) } else { f };
            push(&mut sc, f);
            sc.bad_header = true;
            return sc;
        }
    }
    sc
}

struct Played {
    comps: Vec<(usize, Outcome)>,
    wire: Vec<u8>,
    states: Vec<MState>,
    closed: bool,
    reads_with_several_frames: u64,
}

/// deliver `stream` cut at `cuts`, firing `events` (ascending positions) in between
fn play(
    rig: &super::client::ClientRig,
    peer: &PeerEnd,
    sc: &Script,
    cuts: &[usize],
    positions: &[usize],
    commands_mid_frame: bool,
    delays: bool,
    read_fault: Option<(usize, std::io::ErrorKind)>,
    out: &mut RunOut,
) -> Played {
    let mut fault_armed = false;
    let ch = rig.channel.as_ref().unwrap();
    let mut pos = 0usize;
    let mut ei = 0usize;
    let mut wire = Vec::new();
    let mut deadlines: Vec<u64> = vec![0; sc.steps.len()];
    let mut deframer = MbapDeframer::default();
    let mut several = 0u64;
    loop {
        while ei < sc.events.len() && positions[ei] == pos {
            match sc.events[ei].0 {
                Ev::Submit(i) => {
                    let s = &sc.steps[i];
                    deadlines[i] = kernel::now_ns() + s.timeout;
                    submit(ch, s.style, i, &s.req, s.unit, s.timeout, &rig.comps);
                    kernel::settle();
                    let w = peer.take_received();
                    wire.extend(w);
                }
                Ev::Timeout(i) => {
                    let now = kernel::now_ns();
                    kernel::advance(deadlines[i].saturating_sub(now) + 1);
                }
            }
            ei += 1;
        }
        if pos >= sc.stream.len() {
            break;
        }
        let mut c = cuts.iter().copied().find(|c| *c > pos).unwrap_or(sc.stream.len());
        if ei < sc.events.len() && positions[ei] > pos {
            c = c.min(positions[ei]);
        }
        if let Some((f, kind)) = read_fault {
            if !fault_armed && c >= f {
                peer.inject_read_error((f - pos) as u64, kind);
                fault_armed = true;
            }
        }
        let chunk = &sc.stream[pos..c];
        if delays && chance(1, 4) {
            peer.write_delayed(chunk, 1 + choose(5_000_000) as u64);
            kernel::advance(6_000_000);
        } else {
            peer.write(chunk);
            kernel::settle();
        }
        let k = deframer.feed(chunk).len();
        if k > 1 {
            several += 1;
        }
        if deframer.pending() > 0 && !deframer.dead {
            if commands_mid_frame {
                out.probe(if deframer.pending() < 7 { "client_cut_in_header" } else { "client_cut_in_body" });
                if chance(1, 3) {
                    // a channel command processed while a frame is partially received
                    spawn_cmd(ch, 2, 0);
                    kernel::settle();
                    out.probe("client_command_mid_frame");
                }
            }
        }
        pos = c;
    }
    kernel::settle();
    wire.extend(peer.take_received());
    let mut comps: Vec<(usize, Outcome)> = rig.comps.lock().unwrap().iter().map(|c| (c.0, c.2.clone())).collect();
    comps.sort_by_key(|c| c.0);
    Played {
        comps,
        wire,
        states: rig.states.lock().unwrap().iter().map(|s| s.1).collect(),
        closed: peer.remote_closed(),
        reads_with_several_frames: several,
    }
}

pub fn run(cfg: &ScenCfg, out: &mut RunOut) {
    let sched = chance(1, 2);
    let sel = chance(1, 2);
    let chunk = chance(1, 3);
    let short = chance(1, 3);
    kernel::with(|w| {
        w.cfg.sched_random = sched;
        w.cfg.select_random = sel;
        w.cfg.chunk_reads = chunk;
        w.cfg.short_writes = short;
        w.cfg.max_latency_ns = 0;
    });
    let (dec_idx, decode) = pick_decode(&cfg.decode);
    let a_addr: SocketAddr = "10.0.0.9:502".parse().unwrap();
    let b_addr: SocketAddr = "10.0.0.10:502".parse().unwrap();
    net::stub_listen(a_addr);
    net::stub_listen(b_addr);
    let opts = || ClientOptions::default().decode_level(decode).max_queued_requests(4).max_response_timeouts(None);
    // a long reconnect delay: nothing happens after a session error within the run
    let rig_a = start_tcp_client(a_addr, (3_600_000 * MS, 3_600_000 * MS), opts());
    let rig_b = start_tcp_client(b_addr, (3_600_000 * MS, 3_600_000 * MS), opts());
    spawn_cmd(rig_a.channel.as_ref().unwrap(), 0, 0);
    spawn_cmd(rig_b.channel.as_ref().unwrap(), 0, 0);
    kernel::settle();
    let (pa, pb) = match (net::stub_accept(a_addr), net::stub_accept(b_addr)) {
        (Some(a), Some(b)) => (a, b),
        _ => {
            out.violate("C13", "no_connection_established", "an enabled client did not connect to a listening peer".into());
            return;
        }
    };
    let sc = gen_script();
    // A: frame by frame, events at their frame-aligned positions
    let pos_a: Vec<usize> = sc.events.iter().map(|e| e.1).collect();
    let a = play(&rig_a, &pa, &sc, &sc.frame_ends, &pos_a, false, false, None, out);
    // B: arbitrary cuts; every event anywhere in its legal window
    let mut cuts = super::server_tcp::cut_plan(sc.stream.len(), &sc.frame_ends);
    let mut pos_b = Vec::new();
    let mut prev = 0usize;
    for (_, a_pos, lo, hi) in &sc.events {
        let lo = (*lo).max(prev);
        let hi = (*hi).max(lo);
        let p = match weighted(&[3, 2, 2, 1]) {
            0 => lo + choose((hi - lo + 1) as u32) as usize,
            1 => hi,
            2 => lo,
            _ => (*a_pos).clamp(lo, hi),
        };
        pos_b.push(p);
        prev = p;
    }
    // bias: one read carrying the end of one frame and the start of the next
    if sc.frame_ends.len() > 1 && chance(1, 2) {
        cuts.retain(|c| !sc.frame_ends[..sc.frame_ends.len() - 1].contains(c) || chance(1, 2));
    }
    // fault: one read of client B fails strictly inside a frame (not at an event position), with a transient
    // kind or a fatal one. B must then either have carried on exactly like A (transient kinds only) or have
    // given up at that point: earlier requests as in A, the outstanding one fails with that I/O error, later
    // ones with no-connection, connection closed
    let read_fault: Option<(usize, std::io::ErrorKind)> = if cfg.faults && !sc.bad_header && chance(1, 3) {
        let k = choose(sc.frame_ends.len() as u32) as usize;
        let start = if k == 0 { 0 } else { sc.frame_ends[k - 1] };
        let end = sc.frame_ends[k];
        let f = start + 1 + choose((end - start - 1).max(1) as u32) as usize;
        if f < end && !pos_b.contains(&f) {
            kernel::count("fault_read_err_mid_stream");
            out.probe("client_read_error_mid_stream");
            Some((f, [std::io::ErrorKind::Interrupted, std::io::ErrorKind::WouldBlock, std::io::ErrorKind::TimedOut, std::io::ErrorKind::ConnectionReset][choose(4) as usize]))
        } else {
            None
        }
    } else {
        None
    };
    let b = play(&rig_b, &pb, &sc, &cuts, &pos_b, true, cfg.faults, read_fault, out);
    if let Some((f, kind)) = read_fault {
        let transient = matches!(kind, std::io::ErrorKind::Interrupted | std::io::ErrorKind::WouldBlock);
        let carried_on = a.comps == b.comps && a.wire == b.wire && !b.closed;
        // what giving up at byte f means for every request of the script
        let mut want: Vec<(usize, Outcome)> = Vec::new();
        for (i, _) in sc.steps.iter().enumerate() {
            let sub = sc.events.iter().zip(pos_b.iter()).find(|((e, _, _, _), _)| *e == Ev::Submit(i)).map(|(_, p)| *p).unwrap();
            let tmo = sc.events.iter().zip(pos_b.iter()).find(|((e, _, _, _), _)| *e == Ev::Timeout(i)).map(|(_, p)| *p);
            // the reply of an answered request is the frame that ends at the upper bound of its submit window + 1
            let reply_end = sc.events.iter().find(|(e, _, _, _)| *e == Ev::Submit(i)).map(|(_, _, _, hi)| *hi + 1).unwrap();
            let done_before = match tmo {
                Some(q) => q < f,
                None => reply_end <= f,
            };
            let o = if sub > f {
                Outcome::NoConnection
            } else if done_before {
                a.comps.iter().find(|c| c.0 == i).map(|c| c.1.clone()).unwrap_or(Outcome::NoConnection)
            } else {
                Outcome::Io(format!("{:?}", kind))
            };
            want.push((i, o));
        }
        let gave_up = b.comps == want && b.closed;
        if !(gave_up || (transient && carried_on)) {
            let d = format!(
                "{}: a read of the client failed with {:?} at byte {} of the peer's stream; completions {:?} (connection closed by the client: {}); carrying on correctly would give {:?}, giving up there {:?} and a closed connection",
                format!("{} requests, {}-byte peer stream, cuts {:?}, event positions {:?}", sc.steps.len(), sc.stream.len(), &cuts[..cuts.len().min(10)], pos_b),
                kind, f, b.comps, b.closed, a.comps, want
            );
            out.violate("C05", "client_read_error_mid_stream", d.clone());
            out.violate("C10", "client_read_error_mid_stream", d.clone());
            out.violate("C11", "client_read_error_mid_stream", d);
        }
        out.ops_checked = sc.steps.len() as u64;
        out.nontrivial = Some((f as u64) << 32 ^ sc.stream.len() as u64 ^ (cuts.len() as u64) << 20);
        for rig in [&rig_a, &rig_b] {
            spawn_cmd(rig.channel.as_ref().unwrap(), 3, 0);
        }
        kernel::settle();
        return;
    }
    if b.reads_with_several_frames > 0 {
        out.probe("client_several_frames_in_one_write");
    }
    if sc.late_replies > 0 {
        out.probe("client_late_reply");
    }
    let describe = || format!("{} requests, {}-byte peer stream of {} frames, cuts {:?}, event positions {:?} (frame-aligned run: {:?})", sc.steps.len(), sc.stream.len(), sc.frame_ends.len(), &cuts[..cuts.len().min(12)], pos_b, pos_a);
    if a.comps != b.comps {
        let i = a.comps.iter().zip(b.comps.iter()).position(|(x, y)| x != y).unwrap_or(a.comps.len().min(b.comps.len()));
        let d = format!("{}: frame-by-frame delivery completed {:?}, chunked delivery {:?}", describe(), a.comps.get(i), b.comps.get(i));
        out.violate("C05", "client_chunking_changes_results", d.clone());
        // the outcome of a request (value, time-out, which error) must not depend on how the peer's bytes were cut
        out.violate("C10", "client_chunking_changes_results", d);
    } else if a.wire != b.wire {
        out.violate("C05", "client_chunking_changes_requests", format!("{}: request bytes differ ({} vs {})", describe(), a.wire.len(), b.wire.len()));
    } else if a.closed != b.closed {
        out.violate("C05", "client_chunking_changes_closure", format!("{}: connection closed by the client: frame-by-frame={} chunked={}", describe(), a.closed, b.closed));
    } else if a.states != b.states {
        out.violate("C05", "client_chunking_changes_states", format!("{}: listener states {:?} vs {:?}", describe(), a.states, b.states));
    }
    if sc.bad_header {
        out.probe("client_invalid_header_delivered");
        if !a.closed || !b.closed {
            out.violate("C05", "client_invalid_header_not_fatal", format!("{}: an invalid MBAP header did not end the client session", describe()));
        }
    } else if a.closed || b.closed {
        out.violate("C05", "client_valid_stream_closed", format!("{}: a stream of valid headers ended the client session", describe()));
    }
    // every submitted request completed exactly once in both runs
    for (name, p) in [("frame-by-frame", &a), ("chunked", &b)] {
        let ids: Vec<usize> = p.comps.iter().map(|c| c.0).collect();
        let want: Vec<usize> = (0..sc.steps.len()).collect();
        if ids != want && out.violations.is_empty() {
            out.violate("C05", "client_chunking_lost_completion", format!("{}: {} run completed requests {:?}", describe(), name, ids));
        }
    }
    if kernel::with(|w| w.net.zero_capacity_reads) > 0 {
        out.violate("C05", "zero_capacity_read", "the library issued a read with a zero-length buffer".into());
    }
    out.ops_checked = sc.steps.len() as u64;
    let mut h = dec_idx as u64;
    hash_bytes(&mut h, &sc.stream[..sc.stream.len().min(64)]);
    out.nontrivial = Some(h ^ (cuts.len() as u64) << 40 ^ (pos_b.iter().sum::<usize>() as u64) << 48);
    out.sample = Some(json!({"scenario": "mbap chunking metamorphic (client)", "requests": sc.steps.len(), "stream_len": sc.stream.len(),
        "frames": sc.frame_ends.len(), "skipped_frames": sc.junk, "late_replies": sc.late_replies, "invalid_header": sc.bad_header,
        "cuts": cuts, "event_positions": pos_b}));
    out.observable.extend(format!("{:?}", b.comps).into_bytes());
    out.observable.extend_from_slice(&b.wire);
    for rig in [&rig_a, &rig_b] {
        spawn_cmd(rig.channel.as_ref().unwrap(), 3, 0);
    }
    kernel::settle();
}
