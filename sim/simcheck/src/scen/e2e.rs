//! End to end: the real TCP client channel talks to the real TCP server through a relay that the director
//! owns (one stub peer accepts the client's connection, another is connected to the server). The relay decides
//! when, and in which pieces, bytes move in each direction; it stalls (the client's window fills and its
//! write blocks past the response time-out), and it carries a close from one side to the other.
//!
//! Oracles over the recorded history (C02, C03, C10, C01/C04/C11):
//!  * every write the server's handlers execute is a write the client application submitted - same unit,
//!    addresses and values - and no submitted write is executed twice (every request carries unique values);
//!  * a write whose success the client reported was executed;
//!  * a read that succeeded returned exactly the handler's values for the requested range;
//!  * every request completes exactly once.

use super::client::{start_tcp_client, submit, ClientRig, Style, MS};
use super::common::*;
use super::server_tcp::start_tcp_server;
use crate::driver::{RunOut, ScenCfg};
use crate::model::client::Outcome;
use crate::model::pdu::{ReplyData, Req};
use crate::model::server::{Call, Policy, UnitMem};
use rodbus::server::AddressFilter;
use rodbus::ClientOptions;
use std::sync::{Arc, Mutex};
use serde_json::json;
use simtokio::kernel::{self, chance, choose, weighted};
use simtokio::net::{self, PeerEnd};
use std::collections::BTreeMap;
use std::net::SocketAddr;

struct Link {
    /// end that accepted the client's connection
    a: PeerEnd,
    /// end connected to the server
    b: PeerEnd,
}

pub fn run(cfg: &ScenCfg, out: &mut RunOut) {
    run_impl(cfg, out, false)
}

/// The same over TLS with an authorization handler (C08): the relay carries ciphertext. Additional oracle: a
/// request the policy denies is never executed and never completes with data - exception 01 or an error
pub fn run_tls_authz(cfg: &ScenCfg, out: &mut RunOut) {
    run_impl(cfg, out, true)
}

const ROLE: &str = "operator";

fn run_impl(cfg: &ScenCfg, out: &mut RunOut, tls: bool) {
    let sched = chance(1, 2);
    let chunk = chance(1, 2);
    kernel::with(|w| {
        w.cfg.sched_random = sched;
        w.cfg.select_random = sched;
        w.cfg.chunk_reads = chunk;
        w.cfg.short_writes = chunk;
    });
    let (dec_idx, decode) = pick_decode(&cfg.decode);
    let server_addr: SocketAddr = "10.0.1.1:502".parse().unwrap();
    let relay_addr: SocketAddr = "10.0.2.2:502".parse().unwrap();
    let mem = UnitMem::new(0xe2e0_0000 + choose(1000) as u64);
    let mut units = BTreeMap::new();
    units.insert(1u8, mem.clone());
    let policy = if tls { Policy::Table(0xa07b_0000 + choose(1000) as u64) } else { Policy::AllowAll };
    let allowed = |r: &Req| -> bool {
        let (s, c) = match r {
            Req::WriteCoil { addr, .. } | Req::WriteReg { addr, .. } => (*addr, 0),
            _ => r.range(),
        };
        policy.decide(r.fc(), 1, s, c, ROLE)
    };
    let retry = 10 * MS;
    let opts = ClientOptions::default().decode_level(decode).max_queued_requests(16).max_response_timeouts(None);
    net::stub_listen(relay_addr);
    let (journal, _server_handle, rig): (Journal, rodbus::server::ServerHandle, ClientRig) = if tls {
        use rodbus::client::*;
        use rodbus::server::*;
        use rodbus::*;
        let fixture = super::tls::fixture;
        let scfg = TlsServerConfig::new(&fixture("ca1_cert.pem"), &fixture("srv_ok_cert.pem"), &fixture("srv_ok_key.pem"), None, MinTlsVersion::V1_2, CertificateMode::AuthorityBased).expect("server config");
        let journal: Journal = Arc::new(Mutex::new(Vec::new()));
        let mut map = ServerHandlerMap::new();
        map.add(UnitId::new(1), MemHandler { unit: 1, mem: mem.clone(), journal: journal.clone() }.wrap());
        let listener = simtokio::net::TcpListener::bind_now(server_addr).unwrap();
        let auth: Arc<dyn AuthorizationHandler> = Arc::new(PolicyAuth { policy: policy.clone(), journal: journal.clone() });
        let (handle, task) = create_tls_server_task_with_authz(4, listener, map, auth, scfg, AddressFilter::Any, decode);
        let _ = simtokio::task::spawn_named("tls-server", task.run());
        let ccfg = TlsClientConfig::full_pki(Some("test.com".to_string()), &fixture("ca1_cert.pem"), &fixture("cli_operator_cert.pem"), &fixture("cli_operator_key.pem"), None, MinTlsVersion::V1_2).expect("client config");
        let states: super::client::StateLog = Arc::new(Mutex::new(Vec::new()));
        let (channel, task) = create_tls_client_task_with_options(
            HostAddr::ip(relay_addr.ip(), relay_addr.port()),
            doubling_retry_strategy(std::time::Duration::from_nanos(retry), std::time::Duration::from_nanos(retry)),
            ccfg,
            Some(Box::new(super::client::Listen { log: states.clone(), delay_ns: 0 })),
            opts,
        );
        let task = simtokio::task::spawn_named("tls-client", task.run());
        (journal, handle, ClientRig { channel: Some(channel), task, states, comps: Arc::new(Mutex::new(Vec::new())), addr: relay_addr })
    } else {
        let server = start_tcp_server(server_addr, &units, 4, AddressFilter::Any, decode);
        (server.journal, server.handle, start_tcp_client(relay_addr, (retry, retry), opts))
    };
    let ch = rig.channel.as_ref().unwrap().clone();
    super::client::spawn_cmd(&ch, 0, 0);
    kernel::settle();
    // the client's send window towards the relay: small ones make long frames block half written
    let window: usize = if cfg.faults { [16usize, 24, 40, 64, 4096][choose(5) as usize] } else { 4096 };
    let mut link: Option<Link> = None;
    let mut conn_no = 0u32;
    let mut submitted: BTreeMap<usize, Req> = BTreeMap::new();
    let mut next_id = 0usize;
    let mut next_val: u16 = 0x2000 + choose(0x4000) as u16;
    let mut trace: Vec<String> = Vec::new();
    let mut wl: u64 = dec_idx as u64;
    // one relay pass; returns false if a protocol-independent harness assumption breaks
    let mut relay = |link: &mut Option<Link>, conn_no: &mut u32, pieces: bool| {
        // adopt a new connection of the client
        if link.is_none() {
            if let Some(a) = net::stub_accept(relay_addr) {
                a.set_capacity(window);
                *conn_no += 1;
                let from: SocketAddr = format!("10.0.3.{}:{}", 1 + *conn_no % 200, 7000 + *conn_no).parse().unwrap();
                if let Some(b) = net::connect_from(server_addr, from) {
                    *link = Some(Link { a, b });
                }
                kernel::settle();
            }
        }
        let mut drop_link = false;
        if let Some(l) = link.as_mut() {
            // (repeat: taking bytes out of the window lets a blocked write continue)
            for _ in 0..64 {
                let up = l.a.take_received();
                let down = l.b.take_received();
                if up.is_empty() && down.is_empty() {
                    break;
                }
                if !up.is_empty() {
                    if pieces && up.len() > 1 {
                        let cut = 1 + choose(up.len() as u32 - 1) as usize;
                        l.b.write(&up[..cut]);
                        kernel::settle();
                        l.b.write(&up[cut..]);
                    } else {
                        l.b.write(&up);
                    }
                }
                if !down.is_empty() {
                    l.a.write(&down);
                }
                kernel::settle();
            }
            if l.a.remote_closed() || l.b.remote_closed() {
                // what was sent before the close has been relayed above; now the close itself
                l.a.close();
                l.b.close();
                drop_link = true;
            }
        }
        if drop_link {
            *link = None;
            kernel::settle();
        }
    };
    let n = 4 + choose(20);
    for _ in 0..n {
        match weighted(&[5, 4, if cfg.faults { 3 } else { 0 }, 2]) {
            0 => {
                // submit
                let id = next_id;
                next_id += 1;
                let req = match weighted(&[2, 3, 3]) {
                    0 => {
                        next_val = next_val.wrapping_add(1);
                        Req::WriteReg { addr: choose(200) as u16, value: next_val }
                    }
                    1 => {
                        let cnt = 1 + choose(if chance(1, 2) { 100 } else { 20 }) as usize;
                        let start = choose(200) as u16;
                        let values: Vec<u16> = (0..cnt)
                            .map(|_| {
                                next_val = next_val.wrapping_add(1);
                                next_val
                            })
                            .collect();
                        Req::WriteRegs { start, values }
                    }
                    _ => Req::ReadInput { start: choose(300) as u16, count: 1 + choose(30) as u16 },
                };
                let timeout = [1 * MS, 5 * MS, 50 * MS, 1000 * MS][choose(4) as usize];
                let style = if chance(1, 2) { Style::Future } else { Style::Callback };
                submit(&ch, style, id, &req, 1, timeout, &rig.comps);
                kernel::settle();
                wl = wl.wrapping_mul(0x100000001b3) ^ (req.fc() as u64) ^ (timeout << 8);
                trace.push(format!("submit#{} fc={} timeout={}ms", id, req.fc(), timeout / MS));
                submitted.insert(id, req);
            }
            1 => {
                let pieces = chance(1, 3);
                relay(&mut link, &mut conn_no, pieces);
                trace.push("relay".into());
            }
            2 => {
                // the relay stalls: nothing moves while time passes
                let d = [2 * MS, 20 * MS, 200 * MS, 1500 * MS][choose(4) as usize];
                kernel::advance(d);
                kernel::count("fault_relay_stall");
                trace.push(format!("stall {}ms", d / MS));
            }
            _ => {
                let d = [100_000u64, MS, 12 * MS][choose(3) as usize];
                kernel::advance(d);
                trace.push(format!("advance {}us", d / 1000));
            }
        }
    }
    // drain: relay until quiet, past every time-out and retry delay
    for _ in 0..40 {
        relay(&mut link, &mut conn_no, false);
        kernel::advance(30 * MS);
    }
    kernel::advance(1100 * MS);
    relay(&mut link, &mut conn_no, false);
    kernel::advance(1100 * MS);
    relay(&mut link, &mut conn_no, false);
    // ---- oracles
    let comps = rig.comps.lock().unwrap().clone();
    let mut done: BTreeMap<usize, Vec<Outcome>> = BTreeMap::new();
    for (id, _, o) in &comps {
        done.entry(*id).or_default().push(o.clone());
    }
    for (id, v) in &done {
        if v.len() > 1 {
            out.violate("C10", "e2e/completed_twice", format!("request {} completed {} times: {:?}", id, v.len(), v));
            return;
        }
    }
    let pending: Vec<usize> = submitted.keys().filter(|id| !done.contains_key(id)).copied().collect();
    if !pending.is_empty() {
        out.violate("C10", "e2e/never_completed", format!("requests {:?} still pending 3 s after the last action (relay quiet, time-outs <= 1 s); actions {:?}", pending, &trace[trace.len().saturating_sub(12)..]));
        return;
    }
    // handler journal vs. what the application submitted
    let journal: Vec<(u8, Call)> = journal.lock().unwrap().clone();
    let mut executed: BTreeMap<usize, u32> = BTreeMap::new();
    for (u, c) in &journal {
        let matching: Option<usize> = match c {
            Call::WriteReg(a, v) => submitted.iter().find(|(_, r)| matches!(r, Req::WriteReg { addr, value } if addr == a && value == v)).map(|x| *x.0),
            Call::WriteRegs(s, n, items) => submitted
                .iter()
                .find(|(_, r)| matches!(r, Req::WriteRegs { start, values } if start == s && values.len() == *n as usize && items.iter().map(|x| x.1).collect::<Vec<u16>>() == *values))
                .map(|x| *x.0),
            Call::ReadInput(_) | Call::Auth(..) => continue,
            other => {
                let d = format!("the server's handler was asked for {:?}, which no request of the client application can cause", other);
                out.violate("C02", "e2e/alien_handler_call", d.clone());
                out.violate("C03", "e2e/alien_handler_call", d);
                return;
            }
        };
        match matching {
            Some(id) if *u == 1 => *executed.entry(id).or_insert(0) += 1,
            _ => {
                let d = format!(
                    "the server executed {:?} for unit {}: no request submitted to the client has these addresses and values (client window {} bytes; last actions {:?})",
                    c,
                    u,
                    window,
                    &trace[trace.len().saturating_sub(10)..]
                );
                out.violate("C02", "e2e/write_nobody_submitted", d.clone());
                out.violate("C03", "e2e/write_nobody_submitted", d.clone());
                out.violate("C10", "e2e/write_nobody_submitted", d);
                return;
            }
        }
    }
    for (id, k) in &executed {
        if *k > 1 {
            let d = format!("request {} ({:?}) was executed {} times by the server's handler", id, submitted[id].fc(), k);
            out.violate("C02", "e2e/write_executed_twice", d.clone());
            out.violate("C11", "e2e/write_executed_twice", d);
            return;
        }
    }
    for (id, req) in &submitted {
        if allowed(req) {
            continue;
        }
        let o = &done[id][0];
        let ok = match o {
            Outcome::Ok(_) => false,
            Outcome::Exception(e) => *e == 1,
            _ => true,
        };
        if !ok || executed.contains_key(id) {
            let d = format!("request {} (fc {}) is denied by the authorization policy for role {:?}: it completed with {:?} and was executed {} times by the point handlers", id, req.fc(), ROLE, o, executed.get(id).copied().unwrap_or(0));
            out.violate("C08", "e2e/denied_request_had_an_effect", d.clone());
            out.violate("C04", "e2e/denied_request_had_an_effect", d.clone());
            out.violate("C11", "e2e/denied_request_had_an_effect", d);
            return;
        }
        out.ops_checked += 1;
        out.probe("e2e_denied_request_checked");
    }
    for (id, v) in &done {
        let req = &submitted[id];
        if !allowed(req) {
            continue;
        }
        match (&v[0], req) {
            (Outcome::Ok(ReplyData::EchoReg(a, x)), Req::WriteReg { addr, value }) => {
                if a != addr || x != value || !executed.contains_key(id) {
                    let d = format!("request {} write register {}={} reported success ({},{}) but the server executed it {} times", id, addr, value, a, x, executed.get(id).copied().unwrap_or(0));
                    out.violate("C04", "e2e/acknowledged_write_not_executed", d.clone());
                    out.violate("C01", "e2e/acknowledged_write_not_executed", d);
                    return;
                }
                out.ops_checked += 1;
            }
            (Outcome::Ok(ReplyData::EchoRange(s, n)), Req::WriteRegs { start, values }) => {
                if s != start || *n as usize != values.len() || !executed.contains_key(id) {
                    let d = format!("request {} write {} registers at {} reported success ({},{}) but the server executed it {} times", id, values.len(), start, s, n, executed.get(id).copied().unwrap_or(0));
                    out.violate("C04", "e2e/acknowledged_write_not_executed", d.clone());
                    out.violate("C01", "e2e/acknowledged_write_not_executed", d);
                    return;
                }
                out.ops_checked += 1;
            }
            (Outcome::Ok(ReplyData::Regs(got)), Req::ReadInput { start, count }) => {
                let want: Vec<(u16, u16)> = (0..*count).map(|i| (start + i, mem.read_reg(4, start + i).unwrap())).collect();
                if *got != want {
                    let d = format!("request {} read input registers {}+{} returned {:?}, the handler's values are {:?}", id, start, count, &got[..got.len().min(6)], &want[..want.len().min(6)]);
                    out.violate("C04", "e2e/read_result", d.clone());
                    out.violate("C01", "e2e/read_result", d.clone());
                    out.violate("C11", "e2e/read_result", d);
                    return;
                }
                out.ops_checked += 1;
            }
            (Outcome::Ok(x), r) => {
                out.violate("C04", "e2e/result_of_another_kind", format!("request {} {:?} completed with {:?}", id, r.fc(), x));
                return;
            }
            (Outcome::Exception(e), _) => {
                // the handlers of this scenario raise no exception
                let d = format!("request {} completed with exception {} although the server's handlers raise none", id, e);
                out.violate("C01", "e2e/exception_nobody_raised", d.clone());
                out.violate("C04", "e2e/exception_nobody_raised", d);
                return;
            }
            _ => {}
        }
    }
    if done.values().any(|v| matches!(v[0], Outcome::Io(_))) {
        out.probe("e2e_request_failed_io");
    }
    if done.values().any(|v| v[0] == Outcome::Timeout) {
        out.probe("e2e_request_timed_out");
    }
    if conn_no > 1 {
        out.probe("e2e_reconnected");
    }
    out.nontrivial = if out.ops_checked > 0 { Some(wl ^ ((window as u64) << 48)) } else { None };
    out.sample = Some(json!({"scenario": "client <-> relay <-> server end to end", "window": window, "connections": conn_no, "requests": submitted.len(), "actions": trace.iter().take(24).collect::<Vec<_>>()}));
    let _ = rig.task;
}
