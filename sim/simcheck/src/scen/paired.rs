//! C20: decoding is purely observational. The same tape is replayed on the
//! canonical schedule at the lowest decode level, at the highest, and with a
//! level change injected before a chosen action; everything observable (wire
//! bytes, results, instants, handler journals, listener states) must be identical.

use crate::driver::{DecodePlan, RunOut, ScenCfg, ScenarioFn};
use serde_json::json;
use simtokio::kernel::{self, SimConfig, Tape};

fn run_base(base: ScenarioFn, cfg: &ScenCfg, plan: DecodePlan) -> RunOut {
    kernel::with(|w| w.canonical = true);
    let mut c = *cfg;
    c.decode = plan;
    let mut o = RunOut::default();
    base(&c, &mut o);
    o
}

fn paired(base: ScenarioFn, name: &'static str, cfg: &ScenCfg, out: &mut RunOut) {
    // run 1: in the world installed by the driver (generating or replaying the tape)
    let o1 = run_base(base, cfg, DecodePlan { initial: Some(0), change_at: None });
    let values: Vec<u32> = kernel::with(|w| w.tape.values.clone());
    let trace = kernel::with(|w| w.cfg.trace);
    let mut hh: u64 = 0xcbf29ce484222325;
    for v in &values {
        hh = (hh ^ *v as u64).wrapping_mul(0x100000001b3);
    }
    let fresh = |values: &Vec<u32>| {
        kernel::install(
            Tape::replay(values.clone()),
            SimConfig {
                trace,
                ..SimConfig::default()
            },
        );
    };
    // run 2: highest level
    fresh(&values);
    let o2 = run_base(base, cfg, DecodePlan { initial: Some(35), change_at: None });
    // run 3: a level change injected before action k (several positions per tape)
    let k = (hh % 24) as u32;
    let lvl = ((hh >> 8) % 36) as u8;
    fresh(&values);
    let o3 = run_base(base, cfg, DecodePlan { initial: Some(((hh >> 16) % 36) as u8), change_at: Some((k, lvl)) });
    // leave a world whose tape is the full original one for the driver
    let injected = o3.probes.get("decode_change_injected").copied().unwrap_or(0);
    let desc = |o: &RunOut| -> String { format!("{} observable bytes, {} ops", o.observable.len(), o.ops_checked) };
    let tie = |o: &RunOut| o.probes.contains_key("order_dependent_tie_run_ended");
    if tie(&o1) || tie(&o2) || tie(&o3) {
        // (client lock-step) a run that ended at an order-dependent tie has a truncated observable
        out.probe("paired_run_skipped_order_dependent_tie");
    } else if o1.observable != o2.observable {
        let at = o1.observable.iter().zip(o2.observable.iter()).position(|(a, b)| a != b).unwrap_or(o1.observable.len().min(o2.observable.len()));
        out.violate(
            "C20",
            "decode_level_changes_behaviour",
            format!("{}: decode level nothing vs (DataValues,Payload,Data) differ at observable byte {} ({} vs {})", name, at, desc(&o1), desc(&o2)),
        );
    } else if o1.observable != o3.observable {
        let at = o1.observable.iter().zip(o3.observable.iter()).position(|(a, b)| a != b).unwrap_or(o1.observable.len().min(o3.observable.len()));
        out.violate(
            "C20",
            "level_change_disturbs_run",
            format!(
                "{}: a decode-level change to level {} injected before action {} changes the observable outcome at byte {} ({} vs {}; injected={}); without the change ..{:?}.., with it ..{:?}..",
                name,
                lvl,
                k,
                at,
                desc(&o1),
                desc(&o3),
                injected,
                String::from_utf8_lossy(&o1.observable[at.saturating_sub(40)..(at + 200).min(o1.observable.len())]),
                String::from_utf8_lossy(&o3.observable[at.saturating_sub(40)..(at + 200).min(o3.observable.len())])
            ),
        );
    }
    out.probe_n("level_change_injected", injected);
    out.ops_checked = o1.ops_checked;
    out.nontrivial = o1.nontrivial.map(|h| h ^ ((k as u64) << 56));
    out.sample = Some(json!({"scenario": format!("paired decode-level replays of {}", name), "observable_bytes": o1.observable.len(), "level_change_before_action": k, "to_level": lvl, "injected": injected, "base_sample": o1.sample}));
    out.observable = o1.observable;
}

pub fn server_tcp(cfg: &ScenCfg, out: &mut RunOut) {
    paired(super::server_tcp::run_model, "tcp server (C01/C02/C05 workload)", cfg, out)
}
pub fn server_chunking(cfg: &ScenCfg, out: &mut RunOut) {
    paired(super::server_tcp::run_chunking, "mbap chunking (C05 workload)", cfg, out)
}
pub fn rtu_server(cfg: &ScenCfg, out: &mut RunOut) {
    paired(super::rtu::run_server_model, "rtu server (C06/C17 workload)", cfg, out)
}
pub fn client_tcp(cfg: &ScenCfg, out: &mut RunOut) {
    paired(super::client::run_lockstep, "tcp client lock-step (C04/C10-C14 workload)", cfg, out)
}
pub fn client_rtu(cfg: &ScenCfg, out: &mut RunOut) {
    paired(super::client::run_lockstep_rtu, "rtu client lock-step", cfg, out)
}
pub fn client_encoding(cfg: &ScenCfg, out: &mut RunOut) {
    paired(super::client::run_encoding, "client encoding lattice (C03 workload)", cfg, out)
}
