pub mod common;
pub mod server_tcp;
pub mod client;
pub mod rtu;
