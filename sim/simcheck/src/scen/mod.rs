pub mod common;
pub mod server_tcp;
