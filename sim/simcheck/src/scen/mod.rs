pub mod common;
pub mod server_tcp;
pub mod client;
pub mod rtu;
pub mod sessions;
pub mod robust;
pub mod tls;
pub mod ffi;
