//! C07: no peer input can panic, wedge or silently kill a task. Adversarial
//! byte streams against every role/transport at every decode level, with a
//! healthy second session / a follow-up request as the liveness witness.

use super::client::{self as cl, correct_reply, start_rtu_client, start_tcp_client, submit, Style, RTU_PATH};
use super::common::*;
use super::rtu::{start_rtu_server, PATH as SRV_PATH};
use super::server_tcp::{gen_units, start_tcp_server};
use crate::driver::{RunOut, ScenCfg};
use crate::model::client::Outcome;
use crate::model::frame::{mbap_frame, rtu_frame};
use crate::model::pdu::{self, Req};
use crate::model::server::UnitMem;
use rodbus::server::AddressFilter;
use rodbus::*;
use serde_json::json;
use simtokio::kernel::{self, chance, choose, weighted};
use simtokio::net;
use simtokio::serial;
use std::collections::BTreeMap;
use std::net::SocketAddr;

const MS: u64 = 1_000_000;

/// grammar-aware garbage: valid frames, mutated frames, length-field lies, raw bytes
pub fn gen_garbage(rtu: bool, response_side: bool) -> Vec<u8> {
    let mut out = Vec::new();
    let pieces = 1 + choose(8);
    for _ in 0..pieces {
        let mut f = if response_side {
            let req = gen_valid_req(chance(2, 3));
            let p = if chance(1, 3) { cl::gen_reply_pdu(&req) } else { correct_reply(&req) };
            if rtu {
                rtu_frame(choose(256) as u8, &p)
            } else {
                mbap_frame(choose(4) as u16, choose(256) as u8, &p)
            }
        } else {
            let p = gen_request_pdu();
            if rtu {
                rtu_frame(choose(256) as u8, &p)
            } else {
                mbap_frame(choose(65536) as u16, choose(256) as u8, &p)
            }
        };
        match weighted(&[3, 2, 2, 2, 2, 1, 1]) {
            0 => {}
            1 => {
                // bit flips
                for _ in 0..1 + choose(3) {
                    if !f.is_empty() {
                        let i = choose(f.len() as u32) as usize;
                        f[i] ^= 1 << choose(8);
                    }
                }
            }
            2 => {
                let n = choose(f.len() as u32 + 1) as usize;
                f.truncate(n);
            }
            3 => {
                // length-field lies
                if !rtu && f.len() >= 6 {
                    let l = [0u16, 1, 2, 253, 254, 255, 256, 0xFFFF][choose(8) as usize];
                    f[4] = (l >> 8) as u8;
                    f[5] = l as u8;
                } else if rtu && f.len() > 6 {
                    let i6 = 6.min(f.len() - 1);
                    f[i6] = [0u8, 1, 246, 247, 248, 250, 255][choose(7) as usize];
                }
            }
            4 => {
                // raw random
                let n = 1 + choose(300) as usize;
                f = (0..n).map(|_| choose(256) as u8).collect();
            }
            5 => {
                let b = [0u8, 0xFF, 0x80, 0x01][choose(4) as usize];
                f = vec![b; 1 + choose(600) as usize];
            }
            _ => {
                // repeat
                let g = f.clone();
                for _ in 0..choose(4) {
                    f.extend_from_slice(&g);
                }
            }
        }
        out.extend(f);
    }
    out.truncate(4000);
    out
}

fn deliver(write: &dyn Fn(&[u8]), data: &[u8]) {
    let mut pos = 0;
    while pos < data.len() {
        let n = match weighted(&[3, 2, 1]) {
            0 => data.len() - pos,
            1 => 1 + choose((data.len() - pos) as u32) as usize,
            _ => 1,
        };
        write(&data[pos..pos + n]);
        pos += n;
        if chance(1, 3) {
            kernel::advance(choose(3_000_000) as u64);
        } else {
            kernel::settle();
        }
    }
    kernel::settle();
}

fn kcfg() {
    let a = chance(1, 2);
    let b = chance(1, 2);
    let c = chance(1, 2);
    let d = chance(1, 3);
    kernel::with(|w| {
        w.cfg.sched_random = a;
        w.cfg.select_random = b;
        w.cfg.chunk_reads = c;
        w.cfg.short_writes = d;
    });
}

fn units1() -> BTreeMap<u8, UnitMem> {
    let mut m = BTreeMap::new();
    m.insert(1u8, UnitMem::new(7));
    m
}

fn spin_check(out: &mut RunOut, ctx: &str) -> bool {
    let spin = kernel::with(|w| w.max_spin);
    if spin > 5_000 {
        out.violate("C07", "spins_without_progress", format!("{}: one task was polled {} times in a row", ctx, spin));
        return false;
    }
    true
}

/// variant 0: TCP server, 1: RTU server, 2: TCP client, 3: RTU client
pub fn run(cfg: &ScenCfg, out: &mut RunOut) {
    kcfg();
    let (dec_idx, decode) = pick_decode(&cfg.decode);
    let mut wl = (cfg.variant as u64) << 40 | dec_idx as u64;
    match cfg.variant {
        0 => {
            let addr: SocketAddr = "10.0.0.1:502".parse().unwrap();
            let units = if chance(1, 2) { units1() } else { gen_units() };
            let has1 = units.contains_key(&1);
            let mut rig = start_tcp_server(addr, &units, 4, AddressFilter::Any, decode);
            kernel::settle();
            let healthy = net::connect_from(addr, "10.0.3.1:1000".parse().unwrap()).unwrap();
            let nbad = 1 + choose(2) as usize;
            let mut total = 0usize;
            for i in 0..nbad {
                let bad = net::connect_from(addr, format!("10.0.3.2:{}", 1001 + i).parse().unwrap()).unwrap();
                kernel::settle();
                let g = gen_garbage(false, false);
                hash_bytes(&mut wl, &g[..g.len().min(32)]);
                total += g.len();
                deliver(&|d| bad.write(d), &g);
                if chance(1, 3) {
                    let mut fut = Box::pin(rig.handle.set_decode_level(decode_level(choose(36) as u8)));
                    let _ = kernel::block_on(fut.as_mut());
                }
                match choose(3) {
                    0 => drop(bad),
                    1 => {
                        bad.shutdown_write();
                        kernel::settle();
                    }
                    _ => {
                        // stays open and silent
                        std::mem::forget(bad);
                    }
                }
                kernel::settle();
            }
            if !spin_check(out, "tcp server") {
                return;
            }
            // healthy session still served
            if has1 {
                // input registers cannot be written by the garbage
                let v = units[&1].read_reg(4, 5);
                healthy.write(&mbap_frame(9, 1, &[4, 0, 5, 0, 1]));
                kernel::settle();
                let got = healthy.take_received();
                let want = match v {
                    Ok(v) => mbap_frame(9, 1, &[4, 2, (v >> 8) as u8, v as u8]),
                    Err(e) => mbap_frame(9, 1, &[0x84, e]),
                };
                if got != want {
                    out.violate("C07", "healthy_session_disturbed", format!("after {} garbage bytes on other sessions the healthy session answered {} (expected {})", total, hex(&got), hex(&want)));
                    return;
                }
            }
            // shutdown is honoured
            {
                let mut fut = Box::pin(rig.handle.shutdown());
                let _ = kernel::block_on(fut.as_mut());
            }
            kernel::settle();
            if !rig.task.is_finished() {
                out.violate("C07", "shutdown_not_honoured", "tcp server task did not end after shutdown".into());
                return;
            }
            if !healthy.remote_closed() {
                out.violate("C07", "shutdown_not_honoured", "a session survived server shutdown".into());
                return;
            }
            out.ops_checked = total as u64;
            out.sample = Some(json!({"scenario": "garbage at tcp server", "garbage_bytes": total, "decode_level_index": dec_idx}));
        }
        1 => {
            serial::add_line(SRV_PATH, serial::OpenOutcome::Ok, chance(1, 2));
            let units = units1();
            let retry_min = 10 * MS;
            let rig = start_rtu_server(&units, (retry_min, 40 * MS), decode);
            kernel::settle();
            let mut total = 0;
            for _ in 0..1 + choose(3) {
                let g = gen_garbage(true, false);
                hash_bytes(&mut wl, &g[..g.len().min(32)]);
                total += g.len();
                deliver(&|d| serial::line_write(SRV_PATH, d), &g);
                if chance(1, 4) {
                    serial::inject_port_lost(SRV_PATH, std::io::ErrorKind::BrokenPipe);
                    kernel::settle();
                }
                kernel::advance(100 * MS);
            }
            if !spin_check(out, "rtu server") {
                return;
            }
            // liveness after the garbage: force a resynchronisation (the parser may be
            // waiting for the rest of a frame whose length byte lied), then a valid frame
            serial::line_clear(SRV_PATH);
            serial::inject_port_lost(SRV_PATH, std::io::ErrorKind::BrokenPipe);
            kernel::advance(200 * MS);
            serial::line_clear(SRV_PATH);
            let _ = serial::line_take(SRV_PATH);
            // a stray partial frame may still be pending in the parser (RTU has no
            // inter-frame timeout here): it costs at most the next frame. Demand that a
            // valid request is served within three attempts.
            let v = units[&1].read_reg(4, 5).unwrap();
            let want = rtu_frame(1, &[4, 2, (v >> 8) as u8, v as u8]);
            let mut served = false;
            let mut seen = Vec::new();
            for _ in 0..1 {
                serial::line_write(SRV_PATH, &rtu_frame(1, &[4, 0, 5, 0, 1]));
                kernel::advance(100 * MS);
                let got = serial::line_take(SRV_PATH);
                if got == want {
                    served = true;
                    break;
                }
                seen.push(hex(&got));
            }
            if !served {
                out.violate("C07", "server_dead_after_garbage", format!("after {} garbage bytes the RTU server did not answer a valid request after the port was re-opened on a quiet line: {:?} (expected {})", total, seen, hex(&want)));
                return;
            }
            {
                let mut fut = Box::pin(rig.handle.shutdown());
                let _ = kernel::block_on(fut.as_mut());
            }
            kernel::advance(100 * MS);
            if !rig.task.is_finished() {
                out.violate("C07", "shutdown_not_honoured", "rtu server task did not end after shutdown".into());
                return;
            }
            out.ops_checked = total as u64;
            out.sample = Some(json!({"scenario": "garbage at rtu server", "garbage_bytes": total, "decode_level_index": dec_idx}));
        }
        _ => {
            let rtu = cfg.variant == 3;
            let addr: SocketAddr = "10.0.0.9:502".parse().unwrap();
            let rig = if rtu {
                serial::add_line(RTU_PATH, serial::OpenOutcome::Ok, chance(1, 2));
                start_rtu_client(9600, (10 * MS, 40 * MS), decode, 8)
            } else {
                net::stub_listen(addr);
                let opts = ClientOptions::default().decode_level(decode).max_queued_requests(8).max_response_timeouts(if chance(1, 3) {
                    std::num::NonZeroUsize::new(2)
                } else {
                    None
                });
                start_tcp_client(addr, (10 * MS, 40 * MS), opts)
            };
            let ch = rig.channel.clone().unwrap();
            kernel::settle();
            let _ = kernel::block_on(ch.enable());
            kernel::settle();
            let mut peer = if rtu { None } else { net::stub_accept(addr) };
            let mut total = 0;
            let mut submitted = 0usize;
            let timeout = 500 * MS;
            for round in 0..1 + choose(3) {
                // outstanding request or idle
                if chance(2, 3) {
                    let req = gen_valid_req(true);
                    submit(&ch, if chance(1, 2) { Style::Future } else { Style::Callback }, submitted, &req, 1, timeout, &rig.comps);
                    submitted += 1;
                    kernel::settle();
                }
                let g = gen_garbage(rtu, true);
                hash_bytes(&mut wl, &g[..g.len().min(32)]);
                total += g.len();
                if rtu {
                    deliver(&|d| serial::line_write(RTU_PATH, d), &g);
                } else if let Some(p) = &peer {
                    deliver(&|d| p.write(d), &g);
                }
                if chance(1, 4) {
                    let _ = kernel::block_on(ch.set_decode_level(decode_level(choose(36) as u8)));
                }
                // let timeouts and reconnects happen
                kernel::advance(timeout + 100 * MS);
                if !rtu {
                    if let Some(p) = net::stub_accept(addr) {
                        peer = Some(p);
                    }
                }
                let _ = round;
            }
            if !spin_check(out, "client") {
                return;
            }
            // a steady drip of well-formed but foreign frames must not keep a request (and the
            // shutdown queued behind it) waiting beyond its deadline
            if chance(1, 3) {
                let connected = if rtu { serial::is_open(RTU_PATH) } else { peer.as_ref().map(|p| !p.remote_closed()).unwrap_or(false) };
                if connected && !rtu {
                    let id = submitted;
                    let req = Req::ReadHolding { start: 0, count: 1 };
                    let before = rig.comps.lock().unwrap().len();
                    submit(&ch, Style::Future, id, &req, 1, timeout, &rig.comps);
                    submitted += 1;
                    kernel::settle();
                    let p = peer.as_ref().unwrap();
                    let wire = p.take_received();
                    if wire.len() >= 2 {
                        let tx = ((wire[wire.len() - 12] as u16) << 8) | wire[wire.len() - 11] as u16;
                        for k in 0..4u16 {
                            p.write(&mbap_frame(tx.wrapping_sub(1 + k), 1, &[3, 2, 0, 0]));
                            kernel::advance(timeout / 3);
                        }
                        // 4/3 of the timeout have passed
                        let done = rig.comps.lock().unwrap()[before..].iter().any(|c| c.0 == id);
                        out.probe("stale_drip");
                        if !done {
                            out.violate("C07", "wedged_by_foreign_frames", format!("a request with a {} ms timeout is still pending after {} ms while the peer sends frames with foreign transaction ids", timeout / MS, 4 * timeout / 3 / MS));
                            out.violate("C12", "wedged_by_foreign_frames", "timeout did not fire at the deadline while foreign frames arrive".into());
                            return;
                        }
                    }
                }
            }
            // every request has completed exactly once
            kernel::advance(timeout + 100 * MS);
            {
                let c = rig.comps.lock().unwrap();
                let mut ids: Vec<usize> = c.iter().map(|x| x.0).collect();
                ids.sort();
                let want: Vec<usize> = (0..submitted).collect();
                if ids != want {
                    out.violate("C07", "request_lost_or_duplicated", format!("after garbage: completed ids {:?}, submitted 0..{}", ids, submitted));
                    out.violate("C10", "request_lost_or_duplicated", format!("after garbage: completed ids {:?}, submitted 0..{}", ids, submitted));
                    return;
                }
            }
            // liveness: the faulty connection ends (peer closes / port is lost and the line
            // goes quiet); on the fresh connection the first exchange must succeed
            if !rtu {
                if let Some(p) = net::stub_accept(addr) {
                    peer = Some(p);
                }
                if let Some(mut p) = peer.take() {
                    p.close();
                }
                kernel::advance(200 * MS);
                peer = net::stub_accept(addr);
                if peer.is_none() {
                    out.violate("C07", "client_dead_after_garbage", "the client did not reconnect after the faulty connection was closed".into());
                    return;
                }
            } else {
                serial::line_clear(RTU_PATH);
                serial::inject_port_lost(RTU_PATH, std::io::ErrorKind::BrokenPipe);
                kernel::advance(200 * MS);
                serial::line_clear(RTU_PATH);
                let _ = serial::line_take(RTU_PATH);
            }
            // a truncated frame sent by the peer may still be pending in the parser: it
            // costs at most the next exchange (framing error, reconnect). Demand that a
            // correct exchange succeeds within three attempts.
            let req = Req::ReadHolding { start: 3, count: 2 };
            let want = Outcome::Ok(pdu::ReplyData::Regs(vec![(3, 1), (4, 2)]));
            let mut ok = false;
            let mut seen = Vec::new();
            for attempt in 0..1 {
                if !rtu {
                    if let Some(p) = net::stub_accept(addr) {
                        peer = Some(p);
                    }
                }
                let before = rig.comps.lock().unwrap().len();
                if let Some(p) = &peer {
                    let _ = p.take_received();
                }
                if rtu {
                    let _ = serial::line_take(RTU_PATH);
                }
                submit(&ch, Style::Future, 9000 + attempt, &req, 1, timeout, &rig.comps);
                kernel::advance(20 * MS);
                let wire = if rtu { serial::line_take(RTU_PATH) } else { peer.as_ref().map(|p| p.take_received()).unwrap_or_default() };
                let wire_ok = if rtu { wire == rtu_frame(1, &pdu::encode_req(&req)) } else { wire.len() == 12 && wire[7..] == pdu::encode_req(&req)[..] };
                if wire_ok {
                    let rp = [3u8, 4, 0, 1, 0, 2];
                    if rtu {
                        serial::line_write(RTU_PATH, &rtu_frame(1, &rp));
                    } else {
                        let tx = ((wire[0] as u16) << 8) | wire[1] as u16;
                        peer.as_ref().unwrap().write(&mbap_frame(tx, 1, &rp));
                    }
                }
                kernel::advance(timeout + 100 * MS);
                let got = rig.comps.lock().unwrap()[before..].to_vec();
                if got.len() != 1 {
                    out.violate("C07", "request_lost_or_duplicated", format!("follow-up request completed {} times: {:?}", got.len(), got));
                    return;
                }
                if wire_ok && got[0].2 == want {
                    ok = true;
                    break;
                }
                seen.push(format!("wire={} -> {:?}", hex(&wire), got[0].2));
            }
            if !ok {
                out.violate("C07", "client_dead_after_garbage", format!("after {} garbage bytes the first exchange on a fresh connection failed: {:?}", total, seen));
                return;
            }
            // shutdown honoured
            let _ = kernel::block_on(ch.shutdown());
            kernel::advance(10 * MS);
            if !rig.task.is_finished() {
                out.violate("C07", "shutdown_not_honoured", "client task did not end after shutdown".into());
                return;
            }
            if kernel::block_on(ch.enable()).is_ok() {
                out.violate("C07", "handle_usable_after_shutdown", "enable() succeeded after shutdown".into());
                return;
            }
            out.ops_checked = total as u64;
            out.sample = Some(json!({"scenario": if rtu {"garbage at rtu client"} else {"garbage at tcp client"}, "garbage_bytes": total, "requests": submitted, "decode_level_index": dec_idx}));
        }
    }
    out.nontrivial = Some(wl);
}

/// A peer that keeps the receive path busy must not starve the command queue: with a
/// shutdown already queued for the session and a backlog of N pipelined requests, a fair
/// `select!` sees the command after a handful of requests (each round it is picked with
/// probability 1/2); answering 64 or more first has probability 2^-64.
/// variant 0: TCP server session, 1: RTU server
pub fn run_backlog_vs_shutdown(cfg: &ScenCfg, out: &mut RunOut) {
    let (dec_idx, decode) = pick_decode(&cfg.decode);
    let chunk = chance(1, 2);
    kernel::with(|w| {
        w.cfg.sched_random = false;
        w.cfg.select_random = true;
        w.cfg.chunk_reads = chunk;
    });
    let n = 100 + choose(200) as usize;
    let units = units1();
    if cfg.variant == 0 {
        let addr: SocketAddr = "10.0.0.1:502".parse().unwrap();
        let rig = start_tcp_server(addr, &units, 4, AddressFilter::Any, decode);
        kernel::settle();
        let peer = net::connect_from(addr, "10.0.3.1:1000".parse().unwrap()).unwrap();
        kernel::settle();
        // the shutdown reaches the server task, which ends and thereby closes the session's channel
        {
            let mut fut = Box::pin(rig.handle.shutdown());
            let _ = kernel::block_on(fut.as_mut());
        }
        // exactly the server task runs (FIFO, it is the only woken task)
        kernel::step();
        let mut backlog = Vec::new();
        for i in 0..n {
            backlog.extend(mbap_frame(i as u16, 1, &[4, 0, 5, 0, 1]));
        }
        peer.write(&backlog);
        kernel::settle();
        let got = peer.take_received();
        let answered = got.len() / 11;
        out.probe_n("backlog_answered_before_command", answered as u64);
        if answered >= 64 {
            out.violate("C07", "commands_starved_by_peer_traffic", format!("tcp session: shutdown was queued before a backlog of {} requests arrived, yet {} of them were answered first (a fair select would pass the command after a handful)", n, answered));
            out.violate("C15", "commands_starved_by_peer_traffic", format!("session answered {} of {} backlog requests before honouring shutdown", answered, n));
            return;
        }
        if !peer.remote_closed() {
            out.violate("C15", "session_survives_shutdown", "session still open after shutdown".into());
        }
    } else {
        serial::add_line(SRV_PATH, serial::OpenOutcome::Ok, true);
        let rig = start_rtu_server(&units, (10 * MS, 40 * MS), decode);
        kernel::settle();
        {
            let mut fut = Box::pin(rig.handle.shutdown());
            let _ = kernel::block_on(fut.as_mut());
        }
        let mut backlog = Vec::new();
        for _ in 0..n {
            backlog.extend(rtu_frame(1, &[4, 0, 5, 0, 1]));
        }
        // the receive buffer holds 260 bytes: keep it supplied while the session runs
        let mut answered = 0usize;
        let mut pos = 0usize;
        for _ in 0..n {
            if pos < backlog.len() {
                let e = (pos + 64).min(backlog.len());
                serial::line_write(SRV_PATH, &backlog[pos..e]);
                pos = e;
            }
            kernel::advance(5 * MS);
            answered += serial::line_take(SRV_PATH).len() / 7;
            if rig.task.is_finished() {
                break;
            }
        }
        out.probe_n("backlog_answered_before_command", answered as u64);
        if answered >= 64 || !rig.task.is_finished() {
            out.violate("C07", "commands_starved_by_peer_traffic", format!("rtu server: shutdown was queued before a backlog of {} requests arrived, yet {} were answered first (task finished: {})", n, answered, rig.task.is_finished()));
            return;
        }
    }
    out.ops_checked = n as u64;
    out.nontrivial = Some((cfg.variant as u64) << 40 | (n as u64) << 8 | dec_idx as u64 | (chunk as u64) << 60);
    out.sample = Some(json!({"scenario": "shutdown queued ahead of a request backlog", "variant": cfg.variant, "backlog": n}));
}

/// A client whose peer has stopped reading: the request cannot be written completely.
/// The request must not stay pending forever, and disable / shutdown / dropping every
/// handle must still end the connection or the task (C10, C13, C07).
pub fn run_client_blocked_write(cfg: &ScenCfg, out: &mut RunOut) {
    use super::client::{spawn_cmd, start_tcp_client, submit, Style};
    use crate::model::client::{MState, Outcome};
    use crate::model::pdu::Req;
    let (dec_idx, decode) = pick_decode(&cfg.decode);
    let chunk = chance(1, 2);
    let sched = chance(1, 2);
    kernel::with(|w| {
        w.cfg.sched_random = sched;
        w.cfg.select_random = sched;
        w.cfg.chunk_reads = chunk;
        w.cfg.short_writes = chunk;
    });
    let addr: SocketAddr = "10.0.0.9:502".parse().unwrap();
    net::stub_listen(addr);
    let opts = rodbus::ClientOptions::default().decode_level(decode).max_queued_requests(4);
    let mut rig = start_tcp_client(addr, (100 * MS, 100 * MS), opts);
    spawn_cmd(rig.channel.as_ref().unwrap(), 0, 0);
    kernel::settle();
    let peer = match net::stub_accept(addr) {
        Some(p) => p,
        None => {
            out.violate("C13", "no_connection_established", "enabled channel did not connect".into());
            return;
        }
    };
    let window = 1 + choose(100) as usize;
    peer.set_capacity(window);
    let timeout = [10 * MS, 100 * MS, 1000 * MS][choose(3) as usize];
    let nregs = 60 + choose(64) as usize;
    let req = Req::WriteRegs { start: 0, values: (0..nregs as u16).collect() };
    submit(rig.channel.as_ref().unwrap(), Style::Future, 0, &req, 1, timeout, &rig.comps);
    kernel::settle();
    kernel::count("fault_peer_stall");
    // nothing is read for a long time
    kernel::advance(timeout * 3 + 50 * MS);
    let desc = format!("tcp client, peer window {} bytes and the peer never reads, request of {} bytes with time-out {} ms", window, 13 + 2 * nregs, timeout / MS);
    let what = choose(4);
    let ch = rig.channel.clone().unwrap();
    match what {
        0 => spawn_cmd(&ch, 3, 0),
        1 => spawn_cmd(&ch, 1, 0),
        2 => {
            drop(ch);
            rig.channel = None;
        }
        _ => {}
    }
    kernel::advance(timeout * 3 + 2_000 * MS);
    let comps = rig.comps.lock().unwrap().clone();
    let states: Vec<MState> = rig.states.lock().unwrap().iter().map(|s| s.1).collect();
    if comps.is_empty() {
        let key = "client_write_blocked_by_stalled_peer_never_ends";
        if !out.known("C10", key) {
            out.violate("C10", "never_completed/blocked_write", format!("{}: the request is still pending {} ms after it was submitted (control action {}; listener {:?})", desc, (kernel::now_ns()) / MS, what, states));
        }
    } else if comps.len() > 1 {
        out.violate("C10", "completed_twice", format!("{}: completions {:?}", desc, comps));
    } else if matches!(comps[0].2, Outcome::Ok(_)) {
        out.violate("C04", "success_without_reply", format!("{}: the request succeeded although no reply was ever sent", desc));
    }
    match what {
        0 | 2 => {
            if !rig.task.is_finished() {
                let key = "client_write_blocked_by_stalled_peer_never_ends";
                if !out.known("C13", key) {
                    out.violate("C13", "shutdown_not_honoured/blocked_write", format!("{}: {} did not end the task (listener {:?})", desc, if what == 0 { "shutdown()" } else { "dropping every handle" }, states));
                    out.violate("C07", "shutdown_not_honoured/blocked_write", format!("{}: the task cannot be shut down", desc));
                }
            }
        }
        1 => {
            if states.last() != Some(&MState::Disabled) || !peer.remote_closed() {
                let key = "client_write_blocked_by_stalled_peer_never_ends";
                if !out.known("C13", key) {
                    out.violate("C13", "disable_not_honoured/blocked_write", format!("{}: disable() did not close the connection (listener {:?}, closed by client: {})", desc, states, peer.remote_closed()));
                }
            }
        }
        _ => {}
    }
    out.probe("client_blocked_write");
    out.ops_checked = 1;
    out.nontrivial = Some(dec_idx as u64 | (window as u64) << 8 | (timeout / MS) << 20 | (what as u64) << 40 | (nregs as u64) << 44);
    out.sample = Some(json!({"scenario": "client blocked in a write (peer stopped reading)", "window": window, "timeout_ms": timeout / MS, "control": what}));
    rig.task.abort();
    kernel::settle();
}

/// The same on a serial line (flow control keeps the port from transmitting). variant 0: RTU client with a
/// request it cannot write out; variant 1: RTU server with a reply it cannot write out, then shutdown.
pub fn run_rtu_blocked_write(cfg: &ScenCfg, out: &mut RunOut) {
    use super::client::{spawn_cmd, start_rtu_client, submit, Style, RTU_PATH};
    use crate::model::client::{MState, Outcome};
    use crate::model::pdu::Req;
    let (dec_idx, decode) = pick_decode(&cfg.decode);
    let chunk = chance(1, 2);
    kernel::with(|w| {
        w.cfg.chunk_reads = chunk;
        w.cfg.short_writes = chunk;
    });
    let window = choose(8) as usize;
    if cfg.variant == 0 {
        serial::add_line(RTU_PATH, serial::OpenOutcome::Ok, true);
        let mut rig = start_rtu_client(9600, (100 * MS, 100 * MS), decode, 4);
        spawn_cmd(rig.channel.as_ref().unwrap(), 0, 0);
        kernel::settle();
        if !serial::is_open(RTU_PATH) {
            out.violate("C13", "no_connection_established", "enabled serial channel did not open the port".into());
            return;
        }
        serial::set_capacity(RTU_PATH, window);
        let timeout = [10 * MS, 100 * MS, 1000 * MS][choose(3) as usize];
        let req = Req::WriteRegs { start: 0, values: (0..20u16).collect() };
        submit(rig.channel.as_ref().unwrap(), Style::Future, 0, &req, 1, timeout, &rig.comps);
        kernel::settle();
        kernel::count("fault_peer_stall");
        kernel::advance(timeout * 3 + 50 * MS);
        let what = choose(4);
        let ch = rig.channel.clone().unwrap();
        match what {
            0 => spawn_cmd(&ch, 3, 0),
            1 => spawn_cmd(&ch, 1, 0),
            2 => {
                drop(ch);
                rig.channel = None;
            }
            _ => {}
        }
        kernel::advance(timeout * 3 + 2_000 * MS);
        let comps = rig.comps.lock().unwrap().clone();
        let states: Vec<MState> = rig.states.lock().unwrap().iter().map(|s| s.1).collect();
        let desc = format!("rtu client, the line accepts {} bytes and nothing is taken off it, request of 49 bytes with time-out {} ms", window, timeout / MS);
        if comps.len() != 1 {
            out.violate("C10", "never_completed/blocked_write", format!("{}: completions {:?} (control action {}; port states {:?})", desc, comps, what, states));
        } else if matches!(comps[0].2, Outcome::Ok(_)) {
            out.violate("C04", "success_without_reply", format!("{}: the request succeeded although no reply was ever sent", desc));
        }
        if (what == 0 || what == 2) && !rig.task.is_finished() {
            out.violate("C13", "shutdown_not_honoured/blocked_write", format!("{}: {} did not end the task (port states {:?})", desc, if what == 0 { "shutdown()" } else { "dropping every handle" }, states));
        }
        if what == 1 && states.last() != Some(&MState::Disabled) {
            out.violate("C13", "disable_not_honoured/blocked_write", format!("{}: disable() was not honoured (port states {:?})", desc, states));
        }
        out.probe("rtu_client_blocked_write");
        rig.task.abort();
        kernel::settle();
    } else {
        serial::add_line(SRV_PATH, serial::OpenOutcome::Ok, true);
        let rig = start_rtu_server(&units1(), (10 * MS, 40 * MS), decode);
        kernel::settle();
        serial::set_capacity(SRV_PATH, window);
        // a read of 100 registers: a reply of 205 bytes that cannot leave
        serial::line_write(SRV_PATH, &rtu_frame(1, &[4, 0, 0, 0, 100]));
        kernel::advance(50 * MS);
        kernel::count("fault_peer_stall");
        {
            let mut fut = Box::pin(rig.handle.shutdown());
            let _ = kernel::block_on(fut.as_mut());
        }
        kernel::advance(5_000 * MS);
        let desc = format!("rtu server, the line accepts {} bytes and nothing is taken off it, a 205-byte reply pending, then shutdown", window);
        if !rig.task.is_finished() {
            let key = "rtu_server_blocked_in_reply_write_ignores_shutdown";
            if !out.known("C07", key) {
                out.violate("C07", "shutdown_not_honoured/blocked_write", format!("{}: the server task is still running 5 s later", desc));
            }
        }
        out.probe("rtu_server_blocked_write");
        rig.task.abort();
        kernel::settle();
    }
    out.ops_checked = 1;
    out.nontrivial = Some(dec_idx as u64 | (window as u64) << 8 | (cfg.variant as u64) << 16 | (choose(1 << 16) as u64) << 24);
    out.sample = Some(json!({"scenario": "serial line blocked for writing", "role": if cfg.variant == 0 { "client" } else { "server" }, "window": window}));
}
