//! Shared pieces of the workloads: instrumented application handlers, PDU
//! generators, decode levels.

use crate::model::pdu::{self, Req};
use crate::model::server::{Call, Policy, UnitMem};
use rodbus::server::*;
use rodbus::*;
use simtokio::kernel::{chance, choose, weighted};
use std::sync::{Arc, Mutex};

pub type Journal = Arc<Mutex<Vec<(u8, Call)>>>;

/// Application handler backed by `UnitMem`, journaling every call.
pub struct MemHandler {
    pub unit: u8,
    pub mem: UnitMem,
    pub journal: Journal,
}

fn exc(code: u8) -> ExceptionCode {
    ExceptionCode::from(code)
}

impl RequestHandler for MemHandler {
    fn read_coil(&self, address: u16) -> Result<bool, ExceptionCode> {
        self.journal.lock().unwrap().push((self.unit, Call::ReadCoil(address)));
        self.mem.read_bit(1, address).map_err(exc)
    }
    fn read_discrete_input(&self, address: u16) -> Result<bool, ExceptionCode> {
        self.journal.lock().unwrap().push((self.unit, Call::ReadDiscrete(address)));
        self.mem.read_bit(2, address).map_err(exc)
    }
    fn read_holding_register(&self, address: u16) -> Result<u16, ExceptionCode> {
        self.journal.lock().unwrap().push((self.unit, Call::ReadHolding(address)));
        self.mem.read_reg(3, address).map_err(exc)
    }
    fn read_input_register(&self, address: u16) -> Result<u16, ExceptionCode> {
        self.journal.lock().unwrap().push((self.unit, Call::ReadInput(address)));
        self.mem.read_reg(4, address).map_err(exc)
    }
    fn write_single_coil(&mut self, value: Indexed<bool>) -> Result<(), ExceptionCode> {
        self.journal
            .lock()
            .unwrap()
            .push((self.unit, Call::WriteCoil(value.index, value.value)));
        self.mem.write_coil(value.index, value.value).map_err(exc)
    }
    fn write_single_register(&mut self, value: Indexed<u16>) -> Result<(), ExceptionCode> {
        self.journal
            .lock()
            .unwrap()
            .push((self.unit, Call::WriteReg(value.index, value.value)));
        self.mem.write_reg(value.index, value.value).map_err(exc)
    }
    fn write_multiple_coils(&mut self, values: WriteCoils) -> Result<(), ExceptionCode> {
        let items: Vec<(u16, bool)> = values.iterator.map(|x| (x.index, x.value)).collect();
        self.journal.lock().unwrap().push((
            self.unit,
            Call::WriteCoils(values.range.start, values.range.count, items.clone()),
        ));
        self.mem.write_coils(&items).map_err(exc)
    }
    fn write_multiple_registers(&mut self, values: WriteRegisters) -> Result<(), ExceptionCode> {
        let items: Vec<(u16, u16)> = values.iterator.map(|x| (x.index, x.value)).collect();
        self.journal.lock().unwrap().push((
            self.unit,
            Call::WriteRegs(values.range.start, values.range.count, items.clone()),
        ));
        self.mem.write_regs(&items).map_err(exc)
    }
}

/// Authorization handler driven by a `Policy`, journaling every query.
pub struct PolicyAuth {
    pub policy: Policy,
    pub journal: Journal,
}

impl PolicyAuth {
    fn q(&self, fc: u8, unit: UnitId, start: u16, count: u16, role: &str) -> Authorization {
        let ok = self.policy.decide(fc, unit.value, start, count, role);
        self.journal
            .lock()
            .unwrap()
            .push((unit.value, Call::Auth(fc, start, count, role.to_string(), ok)));
        if ok {
            Authorization::Allow
        } else {
            Authorization::Deny
        }
    }
}

impl AuthorizationHandler for PolicyAuth {
    fn read_coils(&self, u: UnitId, r: AddressRange, role: &str) -> Authorization {
        self.q(1, u, r.start, r.count, role)
    }
    fn read_discrete_inputs(&self, u: UnitId, r: AddressRange, role: &str) -> Authorization {
        self.q(2, u, r.start, r.count, role)
    }
    fn read_holding_registers(&self, u: UnitId, r: AddressRange, role: &str) -> Authorization {
        self.q(3, u, r.start, r.count, role)
    }
    fn read_input_registers(&self, u: UnitId, r: AddressRange, role: &str) -> Authorization {
        self.q(4, u, r.start, r.count, role)
    }
    fn write_single_coil(&self, u: UnitId, idx: u16, role: &str) -> Authorization {
        self.q(5, u, idx, 0, role)
    }
    fn write_single_register(&self, u: UnitId, idx: u16, role: &str) -> Authorization {
        self.q(6, u, idx, 0, role)
    }
    fn write_multiple_coils(&self, u: UnitId, r: AddressRange, role: &str) -> Authorization {
        self.q(15, u, r.start, r.count, role)
    }
    fn write_multiple_registers(&self, u: UnitId, r: AddressRange, role: &str) -> Authorization {
        self.q(16, u, r.start, r.count, role)
    }
}

// ------------------------------------------------------------ decode levels

pub fn decode_level(idx: u8) -> DecodeLevel {
    let idx = idx % 36;
    let app = match idx / 9 {
        0 => AppDecodeLevel::Nothing,
        1 => AppDecodeLevel::FunctionCode,
        2 => AppDecodeLevel::DataHeaders,
        _ => AppDecodeLevel::DataValues,
    };
    let frame = match (idx / 3) % 3 {
        0 => FrameDecodeLevel::Nothing,
        1 => FrameDecodeLevel::Header,
        _ => FrameDecodeLevel::Payload,
    };
    let phys = match idx % 3 {
        0 => PhysDecodeLevel::Nothing,
        1 => PhysDecodeLevel::Length,
        _ => PhysDecodeLevel::Data,
    };
    DecodeLevel::new(app, frame, phys)
}

/// the decode level for this run: always consumes one tape entry so that the
/// rest of the tape means the same under an override
pub fn pick_decode(plan: &crate::driver::DecodePlan) -> (u8, DecodeLevel) {
    let t = weighted(&[6, 1, 1, 1, 1, 1, 1, 1, 1, 1, 1, 1, 1, 1, 1, 1, 1, 1, 1, 1, 1, 1, 1, 1, 1, 1, 1, 1, 1, 1, 1, 1, 1, 1, 1, 6]) as u8;
    let idx = plan.initial.unwrap_or(t);
    (idx, decode_level(idx))
}

// ------------------------------------------------------------ generators

pub const UNIT_POOL: [u8; 8] = [1, 2, 0, 17, 247, 255, 248, 100];

pub fn pick_u16_boundary() -> u16 {
    const B: [u16; 14] = [0, 1, 2, 7, 8, 9, 255, 256, 1000, 32767, 32768, 65533, 65534, 65535];
    match weighted(&[3, 2]) {
        0 => B[choose(B.len() as u32) as usize],
        _ => choose(65536) as u16,
    }
}

/// counts around the protocol limits and small values
pub fn pick_count(limit: u16) -> u16 {
    match weighted(&[4, 3, 1, 1]) {
        0 => 1 + choose(16) as u16,
        1 => {
            let c = [0u16, 1, limit.saturating_sub(1), limit, limit + 1, limit + 8, 65535];
            c[choose(c.len() as u32) as usize]
        }
        2 => 1 + choose(limit as u32) as u16,
        _ => choose(65536) as u16,
    }
}

pub fn pick_start_for(count: u16) -> u16 {
    match weighted(&[3, 3, 1]) {
        0 => choose(64) as u16,
        1 => {
            // put the end at 65534 / 65535 / 65536
            let end: u32 = 65534 + choose(3);
            end.saturating_sub(count.max(1) as u32 - 1).min(65535) as u16
        }
        _ => pick_u16_boundary(),
    }
}

/// a valid request within protocol limits (small by default)
pub fn gen_valid_req(small: bool) -> Req {
    let kind = choose(8);
    let lim = |l: u16| -> u16 {
        if small {
            1 + choose(12) as u16
        } else {
            match weighted(&[3, 2, 1]) {
                0 => 1 + choose(12) as u16,
                1 => [1u16, 2, 7, 8, 9, 15, 16, 17, l - 1, l][choose(10) as usize],
                _ => 1 + choose(l as u32) as u16,
            }
        }
    };
    let start_for = |count: u16| -> u16 {
        let max_start = 65535 - (count - 1);
        match weighted(&[4, 2, 1]) {
            0 => (choose(48) as u16).min(max_start),
            1 => max_start - (choose(2) as u16).min(max_start),
            _ => (choose(65536) as u16).min(max_start),
        }
    };
    match kind {
        0 => {
            let c = lim(pdu::MAX_READ_BITS);
            Req::ReadCoils { start: start_for(c), count: c }
        }
        1 => {
            let c = lim(pdu::MAX_READ_BITS);
            Req::ReadDiscrete { start: start_for(c), count: c }
        }
        2 => {
            let c = lim(pdu::MAX_READ_REGS);
            Req::ReadHolding { start: start_for(c), count: c }
        }
        3 => {
            let c = lim(pdu::MAX_READ_REGS);
            Req::ReadInput { start: start_for(c), count: c }
        }
        4 => Req::WriteCoil {
            addr: start_for(1),
            value: choose(2) == 1,
        },
        5 => Req::WriteReg {
            addr: start_for(1),
            value: pick_u16_boundary(),
        },
        6 => {
            let c = lim(pdu::MAX_WRITE_COILS);
            Req::WriteCoils {
                start: start_for(c),
                values: (0..c).map(|_| choose(2) == 1).collect(),
            }
        }
        _ => {
            let c = lim(pdu::MAX_WRITE_REGS);
            Req::WriteRegs {
                start: start_for(c),
                values: (0..c).map(|i| if i < 4 { pick_u16_boundary() } else { choose(65536) as u16 }).collect(),
            }
        }
    }
}

/// A request PDU from the grammar of C01: valid, boundary, malformed, unknown
/// function, raw random. Always 0..=253 bytes.
pub fn gen_request_pdu() -> Vec<u8> {
    match weighted(&[5, 4, 3, 2, 1, 1]) {
        0 => pdu::encode_req(&gen_valid_req(false)),
        1 => gen_boundary_pdu(),
        2 => gen_mutated_pdu(),
        3 => {
            // unknown function code with arbitrary payload
            let mut fc = choose(256) as u8;
            if matches!(fc, 1..=6 | 15 | 16) && chance(3, 4) {
                fc = [0u8, 7, 8, 14, 17, 20, 23, 43, 0x80, 0x81, 0x90, 0xFF][choose(12) as usize];
            }
            let n = match weighted(&[2, 2, 1]) {
                0 => 0,
                1 => choose(8),
                _ => choose(253),
            };
            let mut v = vec![fc];
            for _ in 0..n {
                v.push(choose(256) as u8);
            }
            v
        }
        4 => {
            // raw random payload
            let n = match weighted(&[1, 3, 1]) {
                0 => 0,
                1 => 1 + choose(12),
                _ => 1 + choose(253),
            };
            (0..n).map(|_| choose(256) as u8).collect()
        }
        _ => {
            if chance(1, 2) {
                Vec::new()
            } else {
                // maximal PDU: 253 bytes
                let kind = choose(3);
                match kind {
                    0 => {
                        // write multiple registers with the most registers that fit (123)
                        pdu::encode_req(&Req::WriteRegs {
                            start: pick_start_for(123).min(65535 - 122),
                            values: (0..123).map(|_| choose(65536) as u16).collect(),
                        })
                    }
                    1 => {
                        // write multiple coils filling the PDU: 1969..=1976 coils (247 data bytes)
                        let c = 1969 + choose(8) as u16;
                        raw_write_coils(choose(16) as u16, c, (c as usize).div_ceil(8))
                    }
                    _ => {
                        let mut v = vec![[1u8, 3, 5, 6, 15, 16, 99][choose(7) as usize]];
                        for _ in 0..252 {
                            v.push(choose(256) as u8);
                        }
                        v
                    }
                }
            }
        }
    }
}

pub fn raw_write_coils(start: u16, count: u16, nbytes: usize) -> Vec<u8> {
    let mut v = vec![15, (start >> 8) as u8, start as u8, (count >> 8) as u8, count as u8, nbytes as u8];
    for _ in 0..nbytes.min(247) {
        v.push(choose(256) as u8);
    }
    v
}

fn gen_boundary_pdu() -> Vec<u8> {
    let fc = [1u8, 2, 3, 4, 5, 6, 15, 16][choose(8) as usize];
    match fc {
        1..=4 => {
            let lim = if fc <= 2 { pdu::MAX_READ_BITS } else { pdu::MAX_READ_REGS };
            let count = pick_count(lim);
            let start = pick_start_for(count);
            vec![fc, (start >> 8) as u8, start as u8, (count >> 8) as u8, count as u8]
        }
        5 => {
            let a = pick_u16_boundary();
            let v = [0xFF00u16, 0x0000, 0x00FF, 0xFF01, 0x0001, 0xFFFF, 0x1234][choose(7) as usize];
            vec![5, (a >> 8) as u8, a as u8, (v >> 8) as u8, v as u8]
        }
        6 => {
            let a = pick_u16_boundary();
            let v = pick_u16_boundary();
            vec![6, (a >> 8) as u8, a as u8, (v >> 8) as u8, v as u8]
        }
        15 => {
            let count = match weighted(&[3, 3, 1]) {
                0 => 1 + choose(24) as u16,
                1 => [0u16, 1, 7, 8, 9, 1967, 1968, 1969, 1976, 1977, 2000, 65535][choose(12) as usize],
                _ => choose(2100) as u16,
            };
            let start = pick_start_for(count);
            let right = (count as usize).div_ceil(8);
            let nbytes = match weighted(&[4, 1, 1, 1]) {
                0 => right,
                1 => right.saturating_sub(1),
                2 => right + 1,
                _ => choose(248) as usize,
            };
            let mut v = raw_write_coils(start, count, nbytes);
            // byte-count field lies sometimes (it is not validated)
            if chance(1, 5) {
                v[5] = choose(256) as u8;
            }
            v.truncate(253);
            v
        }
        _ => {
            let count = match weighted(&[3, 3, 1]) {
                0 => 1 + choose(8) as u16,
                1 => [0u16, 1, 2, 122, 123, 124, 125, 126, 65535][choose(9) as usize],
                _ => choose(130) as u16,
            };
            let start = pick_start_for(count);
            let right = 2 * count as usize;
            let nbytes = match weighted(&[4, 1, 1, 1]) {
                0 => right,
                1 => right.saturating_sub(1),
                2 => right + 1,
                _ => choose(248) as usize,
            };
            let mut v = vec![16, (start >> 8) as u8, start as u8, (count >> 8) as u8, count as u8, nbytes as u8];
            for _ in 0..nbytes.min(247) {
                v.push(choose(256) as u8);
            }
            if chance(1, 5) {
                v[5] = choose(256) as u8;
            }
            v.truncate(253);
            v
        }
    }
}

fn gen_mutated_pdu() -> Vec<u8> {
    let mut v = pdu::encode_req(&gen_valid_req(true));
    match choose(5) {
        0 => {
            // truncate by 1..=3
            let k = 1 + choose(3) as usize;
            let n = v.len().saturating_sub(k).max(1);
            v.truncate(n);
        }
        1 => {
            // extend by 1..=3
            for _ in 0..1 + choose(3) {
                v.push(choose(256) as u8);
            }
        }
        2 => {
            // flip a bit in the body
            if v.len() > 1 {
                let i = 1 + choose(v.len() as u32 - 1) as usize;
                v[i] ^= 1 << choose(8);
            }
        }
        3 => {
            // overwrite a byte
            let i = choose(v.len() as u32) as usize;
            v[i] = choose(256) as u8;
        }
        _ => {
            // only the function code, nothing else
            v.truncate(1);
        }
    }
    v.truncate(253);
    v
}

/// random point memory for a unit (exception maps on a few addresses)
pub fn gen_unit_mem(seed: u64) -> UnitMem {
    let mut m = UnitMem::new(seed);
    let n = weighted(&[3, 2, 1]);
    for _ in 0..n {
        let ty = 1 + choose(4) as u8;
        let addr = choose(64) as u16;
        m.read_exc.insert((ty, addr), pick_exc_code());
    }
    let n = weighted(&[3, 2, 1]);
    for _ in 0..n {
        let fc = [5u8, 6, 15, 16][choose(4) as usize];
        let addr = choose(64) as u16;
        m.write_exc.insert((fc, addr), pick_exc_code());
    }
    if chance(1, 10) {
        let fc = [5u8, 6, 15, 16][choose(4) as usize];
        m.write_fail_all.insert(fc, pick_exc_code());
    }
    m
}

pub fn pick_exc_code() -> u8 {
    match weighted(&[3, 1]) {
        0 => [1u8, 2, 3, 4, 5, 6, 8, 10, 11][choose(9) as usize],
        _ => choose(256) as u8,
    }
}

pub fn hash_bytes(h: &mut u64, data: &[u8]) {
    if *h == 0 {
        *h = 0xcbf29ce484222325;
    }
    for b in data {
        *h ^= *b as u64;
        *h = h.wrapping_mul(0x100000001b3);
    }
}

pub fn hex(data: &[u8]) -> String {
    let mut s = String::with_capacity(data.len() * 2);
    for b in data.iter().take(300) {
        s.push_str(&format!("{:02x}", b));
    }
    if data.len() > 300 {
        s.push_str("...");
    }
    s
}
