//! Registry: which batches decide which property, at which tier.

use crate::driver::{Batch, Check, DecodePlan, Mode, ScenCfg};
use crate::scen;

fn cfg(mode: Mode, faults: bool, variant: u32) -> ScenCfg {
    ScenCfg {
        mode,
        faults,
        variant,
        decode: DecodePlan::FREE,
    }
}

const REAL_SERVER_TCP: &str = "rodbus TCP server task, rodbus server session task, MBAP parser/ReadBuffer/FrameWriter, request parsing, reply serialisation, tokio mpsc/select";
const STUB_SERVER_TCP: &str = "network (simtokio), clock, executor, peer (director), application handlers (instrumented point memory)";

const REAL_SERVER_RTU: &str = "rodbus RTU server task (open/retry loop), server session task, RTU parser (length rules, CRC check), ReadBuffer, FrameWriter (RTU), request parsing, broadcast fan-out, PhysLayer inter-character delay";
const STUB_SERVER_RTU: &str = "serial port registry (simserial), clock, executor, line peer (director), application handlers (instrumented point memory)";
const REAL_E2E: &str = "rodbus TCP client task and TCP server task + session tasks together (both ends real): request serialisation, MBAP framing in both roles, request handling, reply parsing, time-outs, reconnects";
const STUB_E2E: &str = "the network between them: a relay owned by the director (two simulated connections; it moves bytes in pieces, stalls with a small client window, carries closes across), clock, executor (simtokio); handlers: instrumented point memory";
const REAL_CLIENT_RTU: &str = "rodbus RTU client task (open/retry loop, ClientLoop), RTU response parser and CRC check, FrameWriter (RTU), PhysLayer inter-character delay, Channel / CallbackSession handles";
const STUB_CLIENT_RTU: &str = "serial port registry (simserial), clock, executor, line peer (director), port-state listener (recording)";
const REAL_TLS: &str = "rodbus TLS server/client config construction (MinTlsVersion mapping), rodbus TCP server/client tasks with TLS connection handler, role extraction (rx509), sfio-rustls-config verifiers, rustls + tokio-rustls handshakes and record layer, ring";
const STUB_TLS: &str = "network (simtokio), clock, executor, peer endpoint configuration (bare tokio_rustls with permissive verifier), application + authorization handlers";
const REAL_FFI: &str = "rodbus-ffi rlib: generated extern \"C\" functions (ffi.rs from rodbus-schema via oo-bindgen), conversions, callback wrappers (sfio-promise), generated Runtime wrapper (sfio-tokio-ffi) on the simulated runtime; rodbus client/server tasks underneath";
const STUB_FFI: &str = "tokio runtime (simtokio::runtime), network, clock, C callbacks (harness), peer (director)";
const REAL_CLIENT_TCP: &str = "rodbus TCP client task (connect/retry loop, ClientLoop, request execution), Channel / CallbackSession handles, MBAP framing, request serialisation, response parsing, tokio mpsc/oneshot/select";
const STUB_CLIENT_TCP: &str = "network (simtokio), clock, executor, peer (director), connection listener (recording)";

pub fn get(prop: &str, tier: &str) -> Option<Check> {
    let t = tier == "thorough";
    // thorough budgets are multiplied by VERIF_THOROUGH_SCALE (default 4: 4-10 minutes per property on 16 cores)
    let scale: u64 = std::env::var("VERIF_THOROUGH_SCALE").ok().and_then(|s| s.parse().ok()).filter(|x| *x >= 1).unwrap_or(4);
    let n = move |quick: u64, thorough: u64| if t { if thorough <= 64 { thorough } else { thorough * scale } } else { quick };
    Some(match prop {
        "C01" => Check {
            prop: "C01",
            rule_text: "each run: random unit map + handler memory with exception maps, 1-3 connections, 1-12 request frames each from the C01 grammar (valid/boundary/mutated/unknown-fc/raw/maximal PDUs), delivered under a random chunking and interleaving with decode-level changes mid-stream; reply byte stream compared byte-for-byte with model::server at every quiescent point. Non-trivial = at least one complete frame reached the oracle; distinct = hash of (decode level, all frames and destinations).",
            batches: vec![
                Batch { name: "mbap_chunking_server_faults", f: scen::server_tcp::run_chunking, cfg: cfg(Mode::LockStep, true, 0), runs: n(20_000, 500_000), real: REAL_SERVER_TCP, stub: STUB_SERVER_TCP },
                Batch { name: "server_tcp_model", f: scen::server_tcp::run_model, cfg: cfg(Mode::LockStep, false, 0), runs: n(60_000, 1_500_000), real: REAL_SERVER_TCP, stub: STUB_SERVER_TCP },
                Batch { name: "server_tcp_model_faults", f: scen::server_tcp::run_model, cfg: cfg(Mode::LockStep, true, 0), runs: n(20_000, 500_000), real: REAL_SERVER_TCP, stub: STUB_SERVER_TCP },
                Batch { name: "rtu_server_model", f: scen::rtu::run_server_model, cfg: cfg(Mode::LockStep, false, 0), runs: n(40_000, 1_000_000), real: REAL_SERVER_RTU, stub: STUB_SERVER_RTU },
                Batch { name: "server_tcp_racy", f: scen::server_tcp::run_racy, cfg: cfg(Mode::Racy, true, 0), runs: n(30_000, 1_000_000), real: REAL_SERVER_TCP, stub: STUB_SERVER_TCP },
                Batch { name: "rtu_server_edge", f: scen::rtu::run_server_edge, cfg: cfg(Mode::Racy, true, 0), runs: n(20_000, 500_000), real: REAL_SERVER_RTU, stub: STUB_SERVER_RTU },
                Batch { name: "tls_server_sessions", f: scen::tls::run_tls_sessions, cfg: cfg(Mode::LockStep, false, 0), runs: n(3_000, 100_000), real: REAL_TLS, stub: STUB_TLS },
                Batch { name: "e2e_relay", f: scen::e2e::run, cfg: cfg(Mode::Racy, false, 0), runs: n(10_000, 300_000), real: REAL_E2E, stub: STUB_E2E },
                Batch { name: "e2e_relay_stalls", f: scen::e2e::run, cfg: cfg(Mode::Racy, true, 0), runs: n(15_000, 400_000), real: REAL_E2E, stub: STUB_E2E },
            ],
            assumptions: vec!["model::server encodes the Modbus application protocol as stated in C01 (DESIGN.md A.1)", "byte-count field of write-multiple requests is not part of the statement"],
        },
        "C02" => Check {
            prop: "C02",
            rule_text: "same workload as C01; oracle: the instrumented handlers' journal (every callback with decoded arguments, lazy iterators drained inside the handler) equals the model's expected calls per frame (writes exact, once; reads contained in the requested range; none for rejected frames) and final point memory equals the model's. Non-trivial/distinct as C01.",
            batches: vec![
                Batch { name: "server_tcp_model", f: scen::server_tcp::run_model, cfg: cfg(Mode::LockStep, false, 0), runs: n(60_000, 1_500_000), real: REAL_SERVER_TCP, stub: STUB_SERVER_TCP },
                Batch { name: "server_tcp_model_faults", f: scen::server_tcp::run_model, cfg: cfg(Mode::LockStep, true, 0), runs: n(20_000, 500_000), real: REAL_SERVER_TCP, stub: STUB_SERVER_TCP },
                Batch { name: "rtu_server_model", f: scen::rtu::run_server_model, cfg: cfg(Mode::LockStep, false, 0), runs: n(40_000, 1_000_000), real: REAL_SERVER_RTU, stub: STUB_SERVER_RTU },
                Batch { name: "tls_authz_model", f: scen::tls::run_authz_model, cfg: cfg(Mode::Racy, false, 0), runs: n(3_000, 100_000), real: REAL_TLS, stub: STUB_TLS },
                Batch { name: "server_tcp_racy", f: scen::server_tcp::run_racy, cfg: cfg(Mode::Racy, true, 0), runs: n(30_000, 1_000_000), real: REAL_SERVER_TCP, stub: STUB_SERVER_TCP },
                Batch { name: "rtu_server_edge", f: scen::rtu::run_server_edge, cfg: cfg(Mode::Racy, true, 0), runs: n(20_000, 500_000), real: REAL_SERVER_RTU, stub: STUB_SERVER_RTU },
                Batch { name: "e2e_relay", f: scen::e2e::run, cfg: cfg(Mode::Racy, false, 0), runs: n(10_000, 300_000), real: REAL_E2E, stub: STUB_E2E },
                Batch { name: "e2e_relay_stalls", f: scen::e2e::run, cfg: cfg(Mode::Racy, true, 0), runs: n(15_000, 400_000), real: REAL_E2E, stub: STUB_E2E },
            ],
            assumptions: vec!["handlers are the harness's instrumented point memory"],
        },
        "C05" => Check {
            prop: "C05",
            rule_text: "each run: one stream of 1-12 MBAP frames (optionally one invalid header: protocol id != 0, length 0, length 255..65535) delivered frame-by-frame to server A and under a random chunking (random cuts, byte-at-a-time, 260-byte buffer fill, forced cuts inside a header and a body, delays, server commands processed mid-frame) to an identical server B; replies, handler journals and closure must be identical, an invalid header must end the session, and no zero-capacity read may be issued. Client role (mbap_chunking_client): one scripted session of 1-8 requests whose peer stream holds replies from the C04 grammar, stale/duplicate/future-id frames, late replies of timed-out requests and optionally an invalid header, played frame-by-frame to client A and under a random chunking (frames sharing or straddling reads, cuts moved around submits, time-outs and channel commands) to client B; completions, request bytes, listener states and closure must be identical. Distinct = hash of (stream, number of cuts, decode level).",
            batches: vec![
                Batch { name: "mbap_chunking_server", f: scen::server_tcp::run_chunking, cfg: cfg(Mode::LockStep, false, 0), runs: n(60_000, 2_000_000), real: REAL_SERVER_TCP, stub: STUB_SERVER_TCP },
                Batch { name: "mbap_chunking_server_faults", f: scen::server_tcp::run_chunking, cfg: cfg(Mode::LockStep, true, 0), runs: n(20_000, 500_000), real: REAL_SERVER_TCP, stub: STUB_SERVER_TCP },
                Batch { name: "server_tcp_model", f: scen::server_tcp::run_model, cfg: cfg(Mode::LockStep, false, 0), runs: n(20_000, 500_000), real: REAL_SERVER_TCP, stub: STUB_SERVER_TCP },
                Batch { name: "tls_authz_model", f: scen::tls::run_authz_model, cfg: cfg(Mode::Racy, false, 0), runs: n(2_000, 60_000), real: REAL_TLS, stub: STUB_TLS },
                Batch { name: "mbap_chunking_client", f: scen::client_chunk::run, cfg: cfg(Mode::LockStep, false, 0), runs: n(40_000, 1_500_000), real: REAL_CLIENT_TCP, stub: STUB_CLIENT_TCP },
                Batch { name: "mbap_chunking_client_delays", f: scen::client_chunk::run, cfg: cfg(Mode::LockStep, true, 0), runs: n(10_000, 400_000), real: REAL_CLIENT_TCP, stub: STUB_CLIENT_TCP },
                Batch { name: "client_lockstep", f: scen::client::run_lockstep, cfg: cfg(Mode::LockStep, false, 0), runs: n(20_000, 500_000), real: REAL_CLIENT_TCP, stub: STUB_CLIENT_TCP },
            ],
            assumptions: vec!["TLS: frames are carried in one or two TLS records over a randomly chunked ciphertext stream (tls_authz_model batch)", "client role: the instant a frame is received is the delivery of its last byte; the chunked run keeps each such instant in the same place of the event order (submits, time-outs) as the frame-by-frame run"],
        },
        "C03" => Check {
            prop: "C03",
            rule_text: "each run: a connected real TCP client; 4-24 requests over the boundary lattice {0,1,2,7,8,9,15-17,122-127,1967-1969,1976,1977,1999-2001,2008,2009,2040,2041,65534,65535,random} for start/count (ends at 65534/65535/65536), value vectors up to 65537 long, all eight kinds, arbitrary unit ids, future- and callback-style; the recording peer must see exactly model::pdu::encode in one MBAP frame (<= 260 bytes, tx id advancing by one per request taken from the queue) iff the request is within protocol limits, else zero bytes and a request error. AddressRange::try_from is checked on the same lattice. Distinct = hash of the (kind,start,count,legal) sequence.",
            batches: vec![
                Batch { name: "client_encoding", f: scen::client::run_encoding, cfg: cfg(Mode::LockStep, false, 0), runs: n(60_000, 2_000_000), real: REAL_CLIENT_TCP, stub: STUB_CLIENT_TCP },
                Batch { name: "client_encoding_small_window", f: scen::client::run_encoding, cfg: cfg(Mode::LockStep, true, 0), runs: n(20_000, 500_000), real: REAL_CLIENT_TCP, stub: STUB_CLIENT_TCP },
                Batch { name: "client_lockstep", f: scen::client::run_lockstep, cfg: cfg(Mode::LockStep, false, 0), runs: n(30_000, 500_000), real: REAL_CLIENT_TCP, stub: STUB_CLIENT_TCP },
                Batch { name: "client_encoding_rtu", f: scen::client::run_encoding_rtu, cfg: cfg(Mode::LockStep, false, 0), runs: n(40_000, 1_500_000), real: REAL_CLIENT_RTU, stub: STUB_CLIENT_RTU },
                Batch { name: "e2e_relay", f: scen::e2e::run, cfg: cfg(Mode::Racy, false, 0), runs: n(10_000, 300_000), real: REAL_E2E, stub: STUB_E2E },
                Batch { name: "e2e_relay_stalls", f: scen::e2e::run, cfg: cfg(Mode::Racy, true, 0), runs: n(15_000, 400_000), real: REAL_E2E, stub: STUB_E2E },
            ],
            assumptions: vec!["the 2^32 AddressRange::try_from arguments are sampled on a boundary lattice, not enumerated (pure function)"],
        },
        "C04" => Check {
            prop: "C04",
            rule_text: "each run: real TCP client, lock-step; for every outstanding request the peer answers from the C04 reply grammar (correct, exception forms with every code and 0/2 trailing bytes, length -3..+3, byte-count/echo fields off by one or bit-flipped, wrong function byte, empty PDU, undefined coil value, self-consistent wrong quantity, random PDUs); completion must equal model::pdu::decode_reply (Ok data indexed from start / Exception(code) / a non-exception error). Variant 2 draws requests over the full size range. Racy batches: under free interleavings, delays and late replies a request may complete with data or an exception only if a reply carrying its own transaction id and exactly that content had been delivered on its connection. Distinct = hash of requests and reply prefixes.",
            batches: vec![
                Batch { name: "client_lockstep_replies", f: scen::client::run_lockstep, cfg: cfg(Mode::LockStep, false, 2), runs: n(80_000, 3_000_000), real: REAL_CLIENT_TCP, stub: STUB_CLIENT_TCP },
                Batch { name: "client_lockstep", f: scen::client::run_lockstep, cfg: cfg(Mode::LockStep, false, 0), runs: n(40_000, 1_000_000), real: REAL_CLIENT_TCP, stub: STUB_CLIENT_TCP },
                Batch { name: "client_encoding", f: scen::client::run_encoding, cfg: cfg(Mode::LockStep, false, 0), runs: n(20_000, 500_000), real: REAL_CLIENT_TCP, stub: STUB_CLIENT_TCP },
                Batch { name: "client_lockstep_rtu", f: scen::client::run_lockstep_rtu, cfg: cfg(Mode::LockStep, false, 2), runs: n(30_000, 800_000), real: REAL_CLIENT_RTU, stub: STUB_CLIENT_RTU },
                Batch { name: "client_racy", f: scen::racy::run_client_racy, cfg: cfg(Mode::Racy, false, 0), runs: n(30_000, 1_000_000), real: REAL_CLIENT_TCP, stub: STUB_CLIENT_TCP },
                Batch { name: "client_racy_faults", f: scen::racy::run_client_racy, cfg: cfg(Mode::Racy, true, 0), runs: n(30_000, 1_000_000), real: REAL_CLIENT_TCP, stub: STUB_CLIENT_TCP },
                Batch { name: "e2e_relay", f: scen::e2e::run, cfg: cfg(Mode::Racy, false, 0), runs: n(10_000, 300_000), real: REAL_E2E, stub: STUB_E2E },
                Batch { name: "e2e_relay_stalls", f: scen::e2e::run, cfg: cfg(Mode::Racy, true, 0), runs: n(15_000, 400_000), real: REAL_E2E, stub: STUB_E2E },
            ],
            assumptions: vec!["byte-count field of read replies is not examined (length is)"],
        },
        "C10" | "C11" | "C12" | "C13" | "C14" => {
            let (p, text): (&'static str, &'static str) = match prop {
                "C10" => ("C10", "each run: real TCP client task with future- and callback-style handles, 5-40 director actions over {submit, reply correct/variant/split around the deadline, stale/duplicate/future/unsolicited frames, invalid header, EOF, read error, armed write error, enable, disable, set-decode, shutdown, drop handles, abort task, advance time relative to the next deadline (half, -1ns, exact, +1ns, 3x), clock jump, server up/down, slow/refused connect plans}; after every action all completions (id, virtual instant, result class and data) must equal model::client exactly; each request completes exactly once; after the final shutdown + 61 s nothing is pending."),
                "C11" => ("C11", "same lock-step runs as C10; oracle: bytes on the wire equal the model's frames (submission order, one outstanding, MBAP tx id 0,1,2,... per request taken from the queue, persisting across reconnects) and completions after stale/duplicate/future/unsolicited frames equal the model (discarded). One variant runs 66 000 consecutive requests across the 16-bit wrap."),
                "C12" => ("C12", "same lock-step runs as C10 with per-request timeouts from {1 ms..60 s} and max_response_timeouts in {none,1,2,3,5}; oracle: a timeout completes exactly at transmission instant + its timeout (virtual ns), a reply completing strictly before succeeds (replies split with the last byte 1 ns before / after the deadline), the connection is dropped (WaitAfterDisconnect) after exactly N consecutive timeouts and never otherwise."),
                "C13" => ("C13", "same lock-step runs as C10; oracle: the listener sequence with virtual instants equals model::client (Disabled first; Connecting only while enabled; Connected directly after Connecting; wait state after every failed connect / lost connection; Disabled after disable; Shutdown once and last), connect attempts seen by the simulated network equal the model's (none while disabled), requests while not connected complete NoConnection at the dequeue instant, the connection is closed on disable/shutdown, task end equals the model, handles report shutdown afterwards."),
                _ => ("C14", "same lock-step runs as C10 with retry (min,max) from {1,50,1000 ms} x {1,2,8,60}; oracle: the delay carried by WaitAfterFailedConnect/WaitAfterDisconnect equals model::retry (min*2^(k-1) capped, min after disconnect, reset after success) and the next connect attempt seen by the simulated network happens exactly that long after the notification. TLS batch: a scripted peer refuses TCP, answers the ClientHello with garbage, closes at once, presents a certificate of another CA, or completes the handshake and closes 0 / 1 / 700 ms later, 2-8 outcomes per run; a connection counts as successful only after the handshake, so the announced waits follow the same model over that outcome sequence and each is followed by the next TCP attempt exactly that much later. RTU server batch: port re-open schedule after framing errors and failed opens, with set_decode_level commands arriving during the wait."),
            };
            let mut batches = vec![
                Batch { name: "client_lockstep", f: scen::client::run_lockstep, cfg: cfg(Mode::LockStep, false, 0), runs: n(150_000, 5_000_000), real: REAL_CLIENT_TCP, stub: STUB_CLIENT_TCP },
                Batch { name: "client_lockstep_faults", f: scen::client::run_lockstep, cfg: cfg(Mode::LockStep, true, 0), runs: n(50_000, 1_500_000), real: REAL_CLIENT_TCP, stub: STUB_CLIENT_TCP },
            ];
            if p != "C11" {
                batches.push(Batch { name: "client_lockstep_rtu", f: scen::client::run_lockstep_rtu, cfg: cfg(Mode::LockStep, false, 0), runs: n(60_000, 2_000_000), real: REAL_CLIENT_RTU, stub: STUB_CLIENT_RTU });
                batches.push(Batch { name: "client_lockstep_rtu_faults", f: scen::client::run_lockstep_rtu, cfg: cfg(Mode::LockStep, true, 0), runs: n(20_000, 500_000), real: REAL_CLIENT_RTU, stub: STUB_CLIENT_RTU });
            }
            if p != "C14" || true {
                batches.push(Batch { name: "client_racy", f: scen::racy::run_client_racy, cfg: cfg(Mode::Racy, false, 0), runs: n(60_000, 2_000_000), real: REAL_CLIENT_TCP, stub: STUB_CLIENT_TCP });
                batches.push(Batch { name: "client_racy_faults", f: scen::racy::run_client_racy, cfg: cfg(Mode::Racy, true, 0), runs: n(60_000, 2_000_000), real: REAL_CLIENT_TCP, stub: STUB_CLIENT_TCP });
            }
            if p == "C13" {
                batches.push(Batch { name: "tls_client_retry", f: scen::tls::run_client_retry, cfg: cfg(Mode::Racy, false, 0), runs: n(1_500, 60_000), real: REAL_TLS, stub: STUB_TLS });
            }
            if p == "C14" {
                batches.push(Batch { name: "tls_client_retry", f: scen::tls::run_client_retry, cfg: cfg(Mode::Racy, false, 0), runs: n(1_500, 60_000), real: REAL_TLS, stub: STUB_TLS });
                batches.push(Batch { name: "rtu_server_model_faults", f: scen::rtu::run_server_model, cfg: cfg(Mode::LockStep, true, 0), runs: n(30_000, 800_000), real: REAL_SERVER_RTU, stub: STUB_SERVER_RTU });
                batches.push(Batch { name: "retry_strategy_object", f: scen::client::run_retry_object, cfg: cfg(Mode::LockStep, false, 0), runs: n(50_000, 1_000_000), real: "rodbus doubling_retry_strategy (Doubling)", stub: "none (pure state machine, no simulation involved)" });
            }
            if p == "C10" {
                batches.push(Batch { name: "mbap_chunking_client", f: scen::client_chunk::run, cfg: cfg(Mode::LockStep, false, 0), runs: n(20_000, 800_000), real: REAL_CLIENT_TCP, stub: STUB_CLIENT_TCP });
            }
            if p == "C10" || p == "C13" {
                batches.push(Batch { name: "rtu_client_blocked_write", f: scen::robust::run_rtu_blocked_write, cfg: cfg(Mode::Racy, true, 0), runs: n(4_000, 100_000), real: REAL_CLIENT_RTU, stub: STUB_CLIENT_RTU });
                batches.push(Batch { name: "client_blocked_write", f: scen::robust::run_client_blocked_write, cfg: cfg(Mode::Racy, true, 0), runs: n(5_000, 150_000), real: REAL_CLIENT_TCP, stub: STUB_CLIENT_TCP });
            }
            if p == "C10" || p == "C13" {
                batches.push(Batch { name: "client_zero_retry_delay", f: scen::client::run_zero_retry, cfg: cfg(Mode::Racy, true, 0), runs: n(400, 3_000), real: REAL_CLIENT_TCP, stub: STUB_CLIENT_TCP });
                batches.push(Batch { name: "rtu_client_zero_retry_delay", f: scen::client::run_zero_retry, cfg: cfg(Mode::Racy, true, 1), runs: n(400, 3_000), real: REAL_CLIENT_RTU, stub: STUB_CLIENT_RTU });
            }
            if p == "C10" || p == "C11" {
                batches.push(Batch { name: "e2e_relay", f: scen::e2e::run, cfg: cfg(Mode::Racy, false, 0), runs: n(10_000, 300_000), real: REAL_E2E, stub: STUB_E2E });
                batches.push(Batch { name: "e2e_relay_stalls", f: scen::e2e::run, cfg: cfg(Mode::Racy, true, 0), runs: n(15_000, 400_000), real: REAL_E2E, stub: STUB_E2E });
            }
            if p == "C10" {
                batches.push(Batch { name: "ffi_client", f: scen::ffi::run_client, cfg: cfg(Mode::LockStep, false, 0), runs: n(10_000, 300_000), real: REAL_FFI, stub: STUB_FFI });
            }
            if p == "C11" {
                batches.push(Batch { name: "mbap_chunking_client_delays", f: scen::client_chunk::run, cfg: cfg(Mode::LockStep, true, 0), runs: n(20_000, 600_000), real: REAL_CLIENT_TCP, stub: STUB_CLIENT_TCP });
                batches.push(Batch { name: "client_txid_wrap", f: scen::client::run_lockstep, cfg: cfg(Mode::LockStep, false, 1), runs: n(2, 16), real: REAL_CLIENT_TCP, stub: STUB_CLIENT_TCP });
            }
            Check { prop: p, rule_text: text, batches, assumptions: vec!["lock-step runs use the canonical schedule (FIFO ready queue, select! start index 0) for which the exact model is defined; free interleavings are explored by the racy batches"] }
        }
        "C06" => Check {
            prop: "C06",
            rule_text: "each run: real RTU server task over the simulated serial line (UART model), 1-10 bursts of 1-3 request frames (all eight functions, boundary quantities, independent byte-count fields) where the last frame of a burst may be corrupted (1-bit, 2-bit, <=16-bit burst, CRC bytes swapped / one wrong / big-endian) or carry an unknown function; delivered under random chunkings with commands mid-frame; the bytes on the line and the handler journal must equal model::rtu (independent bitwise CRC-16, length from function code/byte count) composed with model::server; a frame failing CRC/length must end the session (port closed, reopened exactly after the retry delay, then served again). Distinct = hash of frame prefixes.",
            batches: vec![
                Batch { name: "rtu_server_model", f: scen::rtu::run_server_model, cfg: cfg(Mode::LockStep, false, 0), runs: n(80_000, 2_000_000), real: REAL_SERVER_RTU, stub: STUB_SERVER_RTU },
                Batch { name: "rtu_server_model_faults", f: scen::rtu::run_server_model, cfg: cfg(Mode::LockStep, true, 0), runs: n(30_000, 800_000), real: REAL_SERVER_RTU, stub: STUB_SERVER_RTU },
                Batch { name: "client_lockstep_rtu", f: scen::client::run_lockstep_rtu, cfg: cfg(Mode::LockStep, false, 0), runs: n(40_000, 1_000_000), real: REAL_CLIENT_RTU, stub: STUB_CLIENT_RTU },
                Batch { name: "client_encoding_rtu", f: scen::client::run_encoding_rtu, cfg: cfg(Mode::LockStep, false, 0), runs: n(20_000, 500_000), real: REAL_CLIENT_RTU, stub: STUB_CLIENT_RTU },
            ],
            assumptions: vec!["line model: bytes written while the port is closed are lost (UART)", "what a mis-framed parser consumes before failing is not specified: the session is reset"],
        },
        "C17" => Check {
            prop: "C17",
            rule_text: "RTU: same runs as C06 (unit ids 0..255, 1/5 of frames to unit 0): frames to unconfigured ids produce no bytes on the line; unit 0 + write calls the matching write handler of every configured unit exactly once (journal multiset) and nothing is transmitted, unit 0 + read does nothing; TCP: same runs as C01 (unconfigured ids, empty bodies stay unanswered).",
            batches: vec![
                Batch { name: "rtu_server_model", f: scen::rtu::run_server_model, cfg: cfg(Mode::LockStep, false, 0), runs: n(80_000, 2_000_000), real: REAL_SERVER_RTU, stub: STUB_SERVER_RTU },
                Batch { name: "server_tcp_model", f: scen::server_tcp::run_model, cfg: cfg(Mode::LockStep, false, 0), runs: n(40_000, 1_000_000), real: REAL_SERVER_TCP, stub: STUB_SERVER_TCP },
                Batch { name: "rtu_server_edge", f: scen::rtu::run_server_edge, cfg: cfg(Mode::Racy, true, 0), runs: n(20_000, 500_000), real: REAL_SERVER_RTU, stub: STUB_SERVER_RTU },
            ],
            assumptions: vec!["checked without an authorization handler (the authz veto for unconfigured ids is C01's carve-out)"],
        },
        "C15" => Check {
            prop: "C15",
            rule_text: "each run: real TCP server task with max_sessions in 0..5, 4-28 actions over {connect (optionally with the oldest session left mid-frame), client close/half-close, sentinel request, bad header / read error / unknown function on one connection, set decode level, shutdown, drop handle}; after every action the set of open connections must equal model::sessions (ordered live set, limit max(1,max_sessions), oldest evicted exactly at the limit), every live session answers its sentinel correctly whatever happened on the others, after shutdown/handle drop the task has ended, every connection is closed and new connects are refused. Distinct = hash of (max_sessions, decode level, action kinds).",
            batches: vec![
                Batch { name: "level_storm_stalled_session", f: scen::server_tcp::run_level_storm, cfg: cfg(Mode::LockStep, true, 0), runs: n(10_000, 300_000), real: REAL_SERVER_TCP, stub: STUB_SERVER_TCP },
                Batch { name: "server_sessions", f: scen::sessions::run_sessions, cfg: cfg(Mode::LockStep, false, 0), runs: n(100_000, 3_000_000), real: REAL_SERVER_TCP, stub: STUB_SERVER_TCP },
                Batch { name: "server_sessions_stalled_peers", f: scen::sessions::run_sessions, cfg: cfg(Mode::LockStep, true, 0), runs: n(30_000, 1_000_000), real: REAL_SERVER_TCP, stub: STUB_SERVER_TCP },
                Batch { name: "tls_handshake_stall_server", f: scen::tls::run_handshake_stall, cfg: cfg(Mode::Racy, true, 1), runs: n(600, 20_000), real: REAL_TLS, stub: STUB_TLS },
                Batch { name: "server_tcp_racy", f: scen::server_tcp::run_racy, cfg: cfg(Mode::Racy, true, 0), runs: n(30_000, 1_000_000), real: REAL_SERVER_TCP, stub: STUB_SERVER_TCP },
                Batch { name: "tls_server_sessions", f: scen::tls::run_tls_sessions, cfg: cfg(Mode::LockStep, false, 0), runs: n(3_000, 100_000), real: REAL_TLS, stub: STUB_TLS },
            ],
            assumptions: vec!["TLS servers share the session tracker; the TLS handshake phase is judged under C07/C09"],
        },
        "C16" => Check {
            prop: "C16",
            rule_text: "each run: a filter from {Any, Exact, AnyOf(1-4), wildcard over the octet lattice {0,1,10,127,128,192,254,255,*}} and 1-6 peers with source addresses from the same lattice +-1 octet, IPv6 loopback/ULA and v4-mapped v6; a non-matching peer must receive zero bytes, see EOF and reach no handler, a matching peer must be served; 4 wildcard strings per run from the grammar of well- and ill-formed forms against the parser. Distinct = hash of filter and peer addresses.",
            batches: vec![
                Batch { name: "filter_tcp_accept_errors", f: scen::sessions::run_filter_tcp, cfg: cfg(Mode::LockStep, true, 0), runs: n(20_000, 600_000), real: REAL_SERVER_TCP, stub: STUB_SERVER_TCP },
                Batch { name: "filter_tcp_rust_api", f: scen::sessions::run_filter_tcp, cfg: cfg(Mode::LockStep, false, 0), runs: n(100_000, 3_000_000), real: REAL_SERVER_TCP, stub: STUB_SERVER_TCP },
                Batch { name: "filter_ffi_tcp", f: scen::ffi::run_server, cfg: cfg(Mode::LockStep, false, 0), runs: n(30_000, 1_000_000), real: REAL_FFI, stub: STUB_FFI },
                Batch { name: "filter_ffi_tls", f: scen::ffi::run_server, cfg: cfg(Mode::LockStep, false, 1), runs: n(4_000, 150_000), real: REAL_FFI, stub: STUB_FFI },
                Batch { name: "filter_ffi_tls_authz", f: scen::ffi::run_server, cfg: cfg(Mode::LockStep, false, 2), runs: n(4_000, 150_000), real: REAL_FFI, stub: STUB_FFI },
                Batch { name: "filter_tls_rust_api", f: scen::tls::run_filter_tls, cfg: cfg(Mode::Racy, false, 0), runs: n(2_000, 80_000), real: REAL_TLS, stub: STUB_TLS },
                Batch { name: "filter_tls_authz_rust_api", f: scen::tls::run_filter_tls, cfg: cfg(Mode::Racy, false, 1), runs: n(2_000, 80_000), real: REAL_TLS, stub: STUB_TLS },
            ],
            assumptions: vec!["'+1' / '007' spellings of an octet are outside the generated domain (the statement does not say whether they are numbers 0-255)"],
        },
        "C07" => Check {
            prop: "C07",
            rule_text: "each run: grammar-aware garbage (valid frames, bit flips, truncations, length-field lies, raw random bytes, long 0x00/0xFF runs, repeats; up to 4000 bytes, random chunking and pauses) fed to {TCP server sessions next to a healthy session, RTU server, TCP client with an outstanding request or idle, RTU client} at a random one of the 36 decode levels with every log line formatted, overflow checks and debug assertions on; oracle: no task poll panics, no task is polled 5000 times in a row or performs 300000 I/O operations inside one poll, the healthy session answers its sentinel, every submitted request completes exactly once, a follow-up exchange succeeds after the garbage, shutdown ends every task. Plus every other batch of this harness reports task panics under C07. Distinct = hash of (role, decode level, garbage prefixes).",
            batches: vec![
                Batch { name: "rtu_server_blocked_write", f: scen::robust::run_rtu_blocked_write, cfg: cfg(Mode::Racy, true, 1), runs: n(2_000, 60_000), real: REAL_SERVER_RTU, stub: STUB_SERVER_RTU },
                Batch { name: "tls_corruption_server", f: scen::tls::run_tls_corruption, cfg: cfg(Mode::Racy, true, 0), runs: n(600, 30_000), real: REAL_TLS, stub: STUB_TLS },
                Batch { name: "tls_corruption_client", f: scen::tls::run_tls_corruption, cfg: cfg(Mode::Racy, true, 1), runs: n(600, 30_000), real: REAL_TLS, stub: STUB_TLS },
                // configurations at the edge (max_sessions = 0) and session churn: a task that loops without yielding is caught by the hang watchdog
                Batch { name: "server_sessions", f: scen::sessions::run_sessions, cfg: cfg(Mode::LockStep, false, 0), runs: n(20_000, 500_000), real: REAL_SERVER_TCP, stub: STUB_SERVER_TCP },
                Batch { name: "garbage_tcp_server", f: scen::robust::run, cfg: cfg(Mode::Racy, true, 0), runs: n(40_000, 1_500_000), real: REAL_SERVER_TCP, stub: STUB_SERVER_TCP },
                Batch { name: "garbage_rtu_server", f: scen::robust::run, cfg: cfg(Mode::Racy, true, 1), runs: n(40_000, 1_500_000), real: REAL_SERVER_RTU, stub: STUB_SERVER_RTU },
                Batch { name: "garbage_tcp_client", f: scen::robust::run, cfg: cfg(Mode::Racy, true, 2), runs: n(40_000, 1_500_000), real: REAL_CLIENT_TCP, stub: STUB_CLIENT_TCP },
                Batch { name: "garbage_rtu_client", f: scen::robust::run, cfg: cfg(Mode::Racy, true, 3), runs: n(40_000, 1_500_000), real: REAL_CLIENT_RTU, stub: STUB_CLIENT_RTU },
                Batch { name: "server_tcp_model", f: scen::server_tcp::run_model, cfg: cfg(Mode::LockStep, false, 0), runs: n(20_000, 500_000), real: REAL_SERVER_TCP, stub: STUB_SERVER_TCP },
                Batch { name: "rtu_server_model", f: scen::rtu::run_server_model, cfg: cfg(Mode::LockStep, false, 0), runs: n(20_000, 500_000), real: REAL_SERVER_RTU, stub: STUB_SERVER_RTU },
                Batch { name: "client_lockstep", f: scen::client::run_lockstep, cfg: cfg(Mode::LockStep, true, 2), runs: n(20_000, 500_000), real: REAL_CLIENT_TCP, stub: STUB_CLIENT_TCP },
                Batch { name: "tls_handshake_stall_client", f: scen::tls::run_handshake_stall, cfg: cfg(Mode::Racy, true, 0), runs: n(600, 20_000), real: REAL_TLS, stub: STUB_TLS },
                Batch { name: "tls_handshake_stall_server", f: scen::tls::run_handshake_stall, cfg: cfg(Mode::Racy, true, 1), runs: n(600, 20_000), real: REAL_TLS, stub: STUB_TLS },
                Batch { name: "backlog_vs_shutdown_tcp", f: scen::robust::run_backlog_vs_shutdown, cfg: cfg(Mode::Racy, true, 0), runs: n(20_000, 500_000), real: REAL_SERVER_TCP, stub: STUB_SERVER_TCP },
                Batch { name: "backlog_vs_shutdown_rtu", f: scen::robust::run_backlog_vs_shutdown, cfg: cfg(Mode::Racy, true, 1), runs: n(5_000, 100_000), real: REAL_SERVER_RTU, stub: STUB_SERVER_RTU },
                Batch { name: "rtu_server_edge", f: scen::rtu::run_server_edge, cfg: cfg(Mode::Racy, true, 0), runs: n(20_000, 500_000), real: REAL_SERVER_RTU, stub: STUB_SERVER_RTU },
                Batch { name: "client_zero_retry_delay", f: scen::client::run_zero_retry, cfg: cfg(Mode::Racy, true, 0), runs: n(400, 3_000), real: REAL_CLIENT_TCP, stub: STUB_CLIENT_TCP },
                Batch { name: "rtu_client_zero_retry_delay", f: scen::client::run_zero_retry, cfg: cfg(Mode::Racy, true, 1), runs: n(400, 3_000), real: REAL_CLIENT_RTU, stub: STUB_CLIENT_RTU },
            ],
            assumptions: vec!["peers that stop reading are injected by the C15 (sessions blocked writing), C13/C10 (client blocked writing), C03 and C20 scenarios rather than by the garbage workloads of this check", "a peer stalling inside the TLS handshake: scen::tls::run_handshake_stall (C15, C13 batches)"],
        },
        "C09" => Check {
            prop: "C09",
            rule_text: "each run: one cell of the grid {min 1.2,1.3} x {authority, self-signed} x {authz, none} x {rodbus server, rodbus client} x peer versions {1.2 only, 1.3 only, both} x peer certificate {valid, wrong authority / different self-signed, wrong name (client role), expired, not yet valid, role-less, differently-roled}, under random record chunking, short writes, latency, and (fault batches) plaintext-instead-of-hello / EOF mid-handshake; the peer is a bare tokio_rustls endpoint configured directly with rustls protocol versions and a permissive verifier. Oracle model::tls_grid: application data flows iff certificate acceptable AND peer offers a version >= min (and, with authz, the certificate carries a role); negotiated version >= min; role seen by the authorization handler = certificate role; otherwise zero application bytes and zero handler/authorization calls. Distinct = grid cell x chunking flags x decode level. History batch (tls_server_history): 2-3 rodbus TLS listeners with different trust (CA1, CA2, one self-signed certificate), own authz/min-version settings, in one process; 2-6 connections by six identities, each identity reusing one rustls client configuration (session store, TLS 1.2 session ids, TLS 1.3 tickets) across listeners; every connection is judged by the same oracle on its own certificate and listener, whatever was established before (resumed handshakes are counted as a probe).",
            batches: vec![
                Batch { name: "tls_grid_server", f: scen::tls::run_server_grid, cfg: cfg(Mode::Racy, false, 0), runs: n(1_200, 60_000), real: REAL_TLS, stub: STUB_TLS },
                Batch { name: "tls_grid_client", f: scen::tls::run_client_grid, cfg: cfg(Mode::Racy, false, 0), runs: n(1_000, 50_000), real: REAL_TLS, stub: STUB_TLS },
                Batch { name: "tls_grid_server_faults", f: scen::tls::run_server_grid, cfg: cfg(Mode::Racy, true, 0), runs: n(400, 20_000), real: REAL_TLS, stub: STUB_TLS },
                Batch { name: "tls_grid_client_faults", f: scen::tls::run_client_grid, cfg: cfg(Mode::Racy, true, 0), runs: n(400, 20_000), real: REAL_TLS, stub: STUB_TLS },
                Batch { name: "tls_server_history", f: scen::tls::run_server_history, cfg: cfg(Mode::Racy, false, 0), runs: n(800, 40_000), real: REAL_TLS, stub: STUB_TLS },
                Batch { name: "ffi_server_tls_authz", f: scen::ffi::run_server_tls_authz, cfg: cfg(Mode::Racy, false, 0), runs: n(500, 25_000), real: REAL_FFI, stub: STUB_FFI },
            ],
            assumptions: vec!["rustls honours the protocol-version list it is configured with (trusted base)", "validity-period cells compare the real system clock with fixture dates decades away", "ciphertext bytes differ run to run (ring RNG); message sizes do not"],
        },
        "C08" => Check {
            prop: "C08",
            rule_text: "each run: real TLS server with an authorization handler, a client certificate from 8 fixtures (roles operator, viewer, admin, 200-char, non-ASCII, trailing space, empty, leaf+CA chain), a policy (allow-all, deny-all, the built-in read-only handler, pseudo-random table over (function, unit, range/index, role), role equality, deny-one-unit, allow-only-one-exact-request), 1-12 requests (valid / grammar; repeats of the previous request with the same start and another quantity; configured and unconfigured units) over a real TLS session; oracle: reply stream and the interleaved authorization/point-handler journal equal model::server with that policy and role (authorization query first with the request's unit, range or index and the certificate role; deny => exception 01, no handler call, no state change; allow => as without authorization; decisions per request). History batches: (tls_server_history) several listeners and identities reusing their TLS sessions, the role of every connection comes from its own certificate; (ffi_server_tls_authz) a C-ABI TLS server whose extern \"C\" authorization callbacks record the role string they receive and allow exactly one role, 1-4 sessions with different role certificates, 1-3 reads/writes each: every callback sees the session's own certificate role, unit and range/index, and the reply follows its decision. Distinct = hash of (policy, role, request prefixes).",
            batches: vec![
                Batch { name: "tls_authz_model", f: scen::tls::run_authz_model, cfg: cfg(Mode::Racy, false, 0), runs: n(6_000, 300_000), real: REAL_TLS, stub: STUB_TLS },
                Batch { name: "tls_grid_server", f: scen::tls::run_server_grid, cfg: cfg(Mode::Racy, false, 0), runs: n(600, 30_000), real: REAL_TLS, stub: STUB_TLS },
                Batch { name: "tls_server_history", f: scen::tls::run_server_history, cfg: cfg(Mode::Racy, false, 0), runs: n(600, 30_000), real: REAL_TLS, stub: STUB_TLS },
                Batch { name: "ffi_server_tls_authz", f: scen::ffi::run_server_tls_authz, cfg: cfg(Mode::Racy, false, 0), runs: n(800, 40_000), real: REAL_FFI, stub: STUB_FFI },
                Batch { name: "e2e_tls_authz", f: scen::e2e::run_tls_authz, cfg: cfg(Mode::Racy, true, 0), runs: n(2_000, 60_000), real: REAL_E2E, stub: STUB_E2E },
            ],
            assumptions: vec!["role strings are those of the committed fixture certificates (no hook is used to inject arbitrary roles)", "the authorization policy is a pure function implemented by the harness"],
        },
        "C19" => Check {
            prop: "C19",
            rule_text: "map semantics: each run creates a C-ABI server with 1-2 units whose configure callbacks, update_database transactions and write callbacks perform random add/update/delete/get over the four point types and indices {0,1,2,3,65535} through the extern \"C\" database functions; every return value must equal model::db (one map per type: add only if absent, update/delete only if present, get fails with InvalidIndex if absent) and every client read over the simulated network must return the model's values, or exception 02 if any addressed point is absent. Distinct = hash of op sequences.",
            batches: vec![
                Batch { name: "ffi_server_tcp", f: scen::ffi::run_server, cfg: cfg(Mode::LockStep, false, 0), runs: n(60_000, 2_000_000), real: REAL_FFI, stub: STUB_FFI },
            ],
            assumptions: vec!["atomicity under real thread pre-emption is decided by the shuttle engine batch (see DESIGN.md); in the single-threaded simulation a transaction runs to completion under the handler mutex"],
        },
        "C20" => Check {
            prop: "C20",
            rule_text: "each run replays one tape of the C01/C02/C05, C06/C17, C03 and C04/C10-C14 workloads three times on the canonical schedule (FIFO ready queue, select! start 0, whole reads/writes): at DecodeLevel::nothing(), at (DataValues, Payload, Data), and with a run-time level change (client: set_decode_level on a handle; server: ServerHandle::set_decode_level) injected before action k (k and the level derived from the tape, k in 0..24, so positions while a transaction is outstanding are covered); the harness subscriber formats every log line in all runs; observable = all wire bytes in both directions with their virtual instants, every request result and completion instant, listener states, handler journals: must be byte-identical. Storm batch (level_storm_stalled_session): one session is blocked inside a transaction (its peer's window is 1-64 bytes and it does not read, optionally with another request pipelined behind), the application calls set_decode_level 1-20 times without waiting; a second peer must be served meanwhile, the blocked reply and the pipelined one must arrive complete and in order once the peer reads, the session must go on, the calls must return and shutdown must end the task. Distinct = base workload hash x injection position.",
            batches: vec![
                Batch { name: "paired_server_tcp", f: scen::paired::server_tcp, cfg: cfg(Mode::LockStep, false, 0), runs: n(20_000, 600_000), real: REAL_SERVER_TCP, stub: STUB_SERVER_TCP },
                Batch { name: "paired_client_tcp", f: scen::paired::client_tcp, cfg: cfg(Mode::LockStep, false, 0), runs: n(30_000, 800_000), real: REAL_CLIENT_TCP, stub: STUB_CLIENT_TCP },
                Batch { name: "paired_rtu_server", f: scen::paired::rtu_server, cfg: cfg(Mode::LockStep, false, 0), runs: n(15_000, 400_000), real: REAL_SERVER_RTU, stub: STUB_SERVER_RTU },
                Batch { name: "paired_client_rtu", f: scen::paired::client_rtu, cfg: cfg(Mode::LockStep, false, 0), runs: n(15_000, 400_000), real: REAL_CLIENT_RTU, stub: STUB_CLIENT_RTU },
                Batch { name: "paired_server_chunking", f: scen::paired::server_chunking, cfg: cfg(Mode::LockStep, false, 0), runs: n(10_000, 300_000), real: REAL_SERVER_TCP, stub: STUB_SERVER_TCP },
                Batch { name: "paired_client_encoding", f: scen::paired::client_encoding, cfg: cfg(Mode::LockStep, false, 0), runs: n(10_000, 300_000), real: REAL_CLIENT_TCP, stub: STUB_CLIENT_TCP },
                Batch { name: "level_storm_stalled_session", f: scen::server_tcp::run_level_storm, cfg: cfg(Mode::LockStep, true, 0), runs: n(10_000, 300_000), real: REAL_SERVER_TCP, stub: STUB_SERVER_TCP },
            ],
            assumptions: vec!["paired runs use the canonical schedule so that the extra queued command of a level change cannot shift unrelated scheduling decisions"],
        },
        "C18" => Check {
            prop: "C18",
            rule_text: "each run drives the generated extern \"C\" functions on the simulated runtime: (client) 3-16 operations over all eight functions with arbitrary unit ids and timeouts, outcomes forced by the peer (correct reply, any of 256 exception codes, reply-grammar variants, silence until the exact timeout in virtual ms, invalid MBAP header, peer close), invalid arguments (empty / overflowing / over-limit ranges), a queue-full burst submitted without stepping the simulation, runtime destruction with a request pending, calls after shutdown; every callback must fire exactly once with the same-named counterpart of what the Rust API reports (table written from the schema), on_destroy exactly once, listener states in order; (serial client) port-state mapping, retry strategy and baud-dependent inter-frame delay pass through unchanged; (server) each of the four write callbacks returns a scripted WriteResult (success / nine standard exceptions / raw 0-255) and must see exactly the written values, the client must receive exactly that result; (TLS server with authorization) the extern \"C\" authorization callbacks receive the certificate role, unit and range/index of every request of every session and their decision reaches the client. Distinct = hash of operations and outcomes.",
            batches: vec![
                Batch { name: "ffi_client", f: scen::ffi::run_client, cfg: cfg(Mode::LockStep, false, 0), runs: n(40_000, 1_500_000), real: REAL_FFI, stub: STUB_FFI },
                Batch { name: "ffi_server_tcp", f: scen::ffi::run_server, cfg: cfg(Mode::LockStep, false, 0), runs: n(40_000, 1_500_000), real: REAL_FFI, stub: STUB_FFI },
                Batch { name: "ffi_client_tls", f: scen::ffi::run_client_tls, cfg: cfg(Mode::Racy, false, 0), runs: n(1_500, 60_000), real: REAL_FFI, stub: STUB_FFI },
                Batch { name: "ffi_client_rtu", f: scen::ffi::run_client_rtu, cfg: cfg(Mode::LockStep, false, 0), runs: n(30_000, 1_000_000), real: REAL_FFI, stub: STUB_FFI },
                Batch { name: "ffi_server_tls_authz", f: scen::ffi::run_server_tls_authz, cfg: cfg(Mode::Racy, false, 0), runs: n(800, 40_000), real: REAL_FFI, stub: STUB_FFI },
            ],
            assumptions: vec!["only valid enumerator values cross the boundary (the generated From<c_int> impls panic on others by oo-bindgen's design)", "Java/.NET/C++ layers above the C ABI are out of scope"],
        },
        _ => return None,
    })
}

/// Determinism self-test: for every batch of every property the first runs are executed in
/// this process and in child processes with 1 and 5 worker threads; event-log hashes and
/// observable digests must agree run by run. Exit 2 on any mismatch (never a VIOLATION).
pub fn selftest(seed: u64) -> i32 {
    let props = ["C01", "C02", "C03", "C04", "C05", "C06", "C07", "C08", "C09", "C10", "C11", "C12", "C13", "C14", "C15", "C16", "C17", "C18", "C19", "C20"];
    let exe = std::env::current_exe().expect("exe");
    let n: u64 = std::env::var("VERIF_SELFTEST_RUNS").ok().and_then(|s| s.parse().ok()).unwrap_or(300);
    let mut total = 0u64;
    let mut mismatches = 0u64;
    let mut seen: std::collections::BTreeSet<(String, u32, bool)> = Default::default();
    for p in props {
        let c = get(p, "quick").unwrap();
        for (bi, b) in c.batches.iter().enumerate() {
            // each scenario/variant once
            if !seen.insert((b.name.to_string(), b.cfg.variant, b.cfg.faults)) {
                continue;
            }
            let m = n.min(b.runs);
            let mine: Vec<String> = crate::driver::hashes(&c, bi, 0, m, seed).into_iter().map(|(i, h, o)| {
                let mut oh: u64 = 0xcbf29ce484222325;
                for x in &o {
                    oh = (oh ^ *x as u64).wrapping_mul(0x100000001b3);
                }
                format!("{} {:016x} {:016x}", i, h, oh)
            }).collect();
            for threads in ["1", "5"] {
                let out = std::process::Command::new(&exe)
                    .args(["hashes", p, &bi.to_string(), "0", &m.to_string()])
                    .env("VERIF_THREADS", threads)
                    .env("VERIF_SEED", seed.to_string())
                    .output()
                    .expect("child");
                let theirs: Vec<String> = String::from_utf8_lossy(&out.stdout).lines().map(|l| l.to_string()).collect();
                total += m;
                let bad = mine.iter().zip(theirs.iter()).filter(|(a, b)| a != b).count() as u64 + (mine.len() as i64 - theirs.len() as i64).unsigned_abs();
                if bad > 0 {
                    mismatches += bad;
                    crate::stdout_line(&format!("MISMATCH {} batch {} ({}) threads={}: {} of {} runs differ", p, bi, b.name, threads, bad, m));
                }
            }
            crate::stdout_line(&format!("determinism {} {} ok ({} runs x 3 executions)", p, b.name, m));
        }
    }
    crate::stdout_line(&format!("selftest determinism: {} run comparisons, {} mismatches", total, mismatches));
    if mismatches > 0 {
        2
    } else {
        0
    }
}
