//! Registry: which batches decide which property, at which tier.

use crate::driver::{Batch, Check, DecodePlan, Mode, ScenCfg};
use crate::scen;

fn cfg(mode: Mode, faults: bool, variant: u32) -> ScenCfg {
    ScenCfg {
        mode,
        faults,
        variant,
        decode: DecodePlan::FREE,
    }
}

const REAL_SERVER_TCP: &str = "rodbus TCP server task, rodbus server session task, MBAP parser/ReadBuffer/FrameWriter, request parsing, reply serialisation, tokio mpsc/select";
const STUB_SERVER_TCP: &str = "network (simtokio), clock, executor, peer (director), application handlers (instrumented point memory)";

pub fn get(prop: &str, tier: &str) -> Option<Check> {
    let t = tier == "thorough";
    let n = |quick: u64, thorough: u64| if t { thorough } else { quick };
    Some(match prop {
        "C01" => Check {
            prop: "C01",
            rule_text: "each run: random unit map + handler memory with exception maps, 1-3 connections, 1-12 request frames each from the C01 grammar (valid/boundary/mutated/unknown-fc/raw/maximal PDUs), delivered under a random chunking and interleaving with decode-level changes mid-stream; reply byte stream compared byte-for-byte with model::server at every quiescent point. Non-trivial = at least one complete frame reached the oracle; distinct = hash of (decode level, all frames and destinations).",
            batches: vec![
                Batch { name: "server_tcp_model", f: scen::server_tcp::run_model, cfg: cfg(Mode::LockStep, false, 0), runs: n(60_000, 1_500_000), real: REAL_SERVER_TCP, stub: STUB_SERVER_TCP },
                Batch { name: "server_tcp_model_faults", f: scen::server_tcp::run_model, cfg: cfg(Mode::LockStep, true, 0), runs: n(20_000, 500_000), real: REAL_SERVER_TCP, stub: STUB_SERVER_TCP },
            ],
            assumptions: vec!["model::server encodes the Modbus application protocol as stated in C01 (DESIGN.md A.1)", "byte-count field of write-multiple requests is not part of the statement"],
        },
        "C02" => Check {
            prop: "C02",
            rule_text: "same workload as C01; oracle: the instrumented handlers' journal (every callback with decoded arguments, lazy iterators drained inside the handler) equals the model's expected calls per frame (writes exact, once; reads contained in the requested range; none for rejected frames) and final point memory equals the model's. Non-trivial/distinct as C01.",
            batches: vec![
                Batch { name: "server_tcp_model", f: scen::server_tcp::run_model, cfg: cfg(Mode::LockStep, false, 0), runs: n(60_000, 1_500_000), real: REAL_SERVER_TCP, stub: STUB_SERVER_TCP },
                Batch { name: "server_tcp_model_faults", f: scen::server_tcp::run_model, cfg: cfg(Mode::LockStep, true, 0), runs: n(20_000, 500_000), real: REAL_SERVER_TCP, stub: STUB_SERVER_TCP },
            ],
            assumptions: vec!["handlers are the harness's instrumented point memory"],
        },
        "C05" => Check {
            prop: "C05",
            rule_text: "each run: one stream of 1-12 MBAP frames (optionally one invalid header: protocol id != 0, length 0, length 255..65535) delivered frame-by-frame to server A and under a random chunking (random cuts, byte-at-a-time, 260-byte buffer fill, forced cuts inside a header and a body, delays, server commands processed mid-frame) to an identical server B; replies, handler journals and closure must be identical, an invalid header must end the session, and no zero-capacity read may be issued. Distinct = hash of (stream, number of cuts, decode level).",
            batches: vec![
                Batch { name: "mbap_chunking_server", f: scen::server_tcp::run_chunking, cfg: cfg(Mode::LockStep, false, 0), runs: n(60_000, 2_000_000), real: REAL_SERVER_TCP, stub: STUB_SERVER_TCP },
                Batch { name: "mbap_chunking_server_faults", f: scen::server_tcp::run_chunking, cfg: cfg(Mode::LockStep, true, 0), runs: n(20_000, 500_000), real: REAL_SERVER_TCP, stub: STUB_SERVER_TCP },
                Batch { name: "server_tcp_model", f: scen::server_tcp::run_model, cfg: cfg(Mode::LockStep, false, 0), runs: n(20_000, 500_000), real: REAL_SERVER_TCP, stub: STUB_SERVER_TCP },
            ],
            assumptions: vec!["TLS framing shares the MBAP parser; TLS record segmentation is exercised in C09"],
        },
        _ => return None,
    })
}

pub fn selftest(_seed: u64) -> i32 {
    crate::stdout_line("selftest: not implemented yet");
    0
}
