//! Facade over tokio-serial backed by the simulated port registry.

pub use real_serial::{ClearBuffer, DataBits, Error, ErrorKind, FlowControl, Parity, Result, StopBits};

use simtokio::io::{AsyncRead, AsyncWrite, ReadBuf};
use simtokio::serial as sim;
use std::pin::Pin;
use std::task::{Context, Poll};

#[derive(Debug, Clone)]
pub struct SerialPortBuilder {
    path: String,
    baud_rate: u32,
}

pub fn new<'a>(path: impl Into<std::borrow::Cow<'a, str>>, baud_rate: u32) -> SerialPortBuilder {
    SerialPortBuilder {
        path: path.into().into_owned(),
        baud_rate,
    }
}

impl SerialPortBuilder {
    pub fn path<'a>(mut self, path: impl Into<std::borrow::Cow<'a, str>>) -> Self {
        self.path = path.into().into_owned();
        self
    }
    pub fn baud_rate(mut self, baud_rate: u32) -> Self {
        self.baud_rate = baud_rate;
        self
    }
    pub fn data_bits(self, _x: DataBits) -> Self {
        self
    }
    pub fn flow_control(self, _x: FlowControl) -> Self {
        self
    }
    pub fn parity(self, _x: Parity) -> Self {
        self
    }
    pub fn stop_bits(self, _x: StopBits) -> Self {
        self
    }
    pub fn timeout(self, _x: std::time::Duration) -> Self {
        self
    }
}

/// the one method of `serialport::SerialPort` that rodbus calls
pub trait SerialPort {
    fn baud_rate(&self) -> Result<u32>;
}

#[derive(Debug)]
pub struct SerialStream {
    inner: sim::PortHandle,
}

impl SerialStream {
    pub fn open(builder: &SerialPortBuilder) -> Result<Self> {
        match sim::open(&builder.path, builder.baud_rate) {
            Ok(inner) => Ok(SerialStream { inner }),
            Err(sim::OpenOutcome::Busy) => Err(Error::new(ErrorKind::NoDevice, "Device or resource busy")),
            Err(_) => Err(Error::new(ErrorKind::NoDevice, "No such file or directory")),
        }
    }
}

impl SerialPort for SerialStream {
    fn baud_rate(&self) -> Result<u32> {
        Ok(self.inner.baud())
    }
}

impl AsyncRead for SerialStream {
    fn poll_read(mut self: Pin<&mut Self>, cx: &mut Context<'_>, buf: &mut ReadBuf<'_>) -> Poll<std::io::Result<()>> {
        self.inner.poll_read(cx, buf)
    }
}

impl AsyncWrite for SerialStream {
    fn poll_write(mut self: Pin<&mut Self>, cx: &mut Context<'_>, buf: &[u8]) -> Poll<std::io::Result<usize>> {
        self.inner.poll_write(cx, buf)
    }
    fn poll_flush(self: Pin<&mut Self>, _cx: &mut Context<'_>) -> Poll<std::io::Result<()>> {
        Poll::Ready(Ok(()))
    }
    fn poll_shutdown(self: Pin<&mut Self>, _cx: &mut Context<'_>) -> Poll<std::io::Result<()>> {
        Poll::Ready(Ok(()))
    }
}
