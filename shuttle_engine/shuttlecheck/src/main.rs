//! C19 atomicity under thread pre-emption: shuttle owns two threads - the
//! simulation driver (real C-ABI TCP server on the simulated runtime + a stub
//! client reading N registers in one request) and an application thread running
//! `rodbus_server_update_database` transactions that set all N registers to one
//! fresh common value. shuttle may switch threads at every acquisition of the
//! handler mutex (hook: cfg(rodbus_verif_shuttle)) and at the yields between the
//! updates inside the transaction. A reply whose N values are not all equal has
//! observed part of a transaction.
//!
//!   shuttlecheck C19 [--tier quick|thorough]     (VERIF_SEED honoured)
//!   shuttlecheck replay <schedule-file>

use rodbus_ffi::ffi;
use shuttle::scheduler::{PctScheduler, RandomScheduler};
use simtokio::kernel::{self, SimConfig, Tape};
use simtokio::net;
use std::ffi::CString;
use std::os::raw::c_void;
use std::sync::atomic::{AtomicU64, Ordering};
use std::sync::Arc;

static TORN: AtomicU64 = AtomicU64::new(0);
static READS: AtomicU64 = AtomicU64::new(0);
static BLOCKED_READS: AtomicU64 = AtomicU64::new(0);
static ITER: AtomicU64 = AtomicU64::new(0);

struct TxArg {
    n: u16,
    value: u16,
    add: bool,
}

extern "C" fn tx_cb(db: *mut rodbus_ffi::Database, ctx: *mut c_void) {
    unsafe {
        let a = &*(ctx as *const TxArg);
        for i in 0..a.n {
            if a.add {
                ffi::rodbus_database_add_holding_register(db, i, a.value);
            } else {
                ffi::rodbus_database_update_holding_register(db, i, a.value);
                // the application thread may be pre-empted between any two updates
                shuttle::thread::yield_now();
            }
        }
    }
}
extern "C" fn nop_destroy(_ctx: *mut c_void) {}

extern "C" fn wh_destroy(_ctx: *mut c_void) {}

/// write-single-register callback: the application stores the value in the point database
extern "C" fn wh_reg_store(index: u16, value: u16, db: *mut rodbus_ffi::Database, _ctx: *mut c_void) -> ffi::WriteResult {
    let ok = unsafe { ffi::rodbus_database_update_holding_register(db, index, value) };
    ffi::WriteResult { success: ok, exception: 2, raw_exception: 0 }
}

struct SendPtr(*mut rodbus_ffi::Server);
unsafe impl Send for SendPtr {}
unsafe impl Sync for SendPtr {}

fn scenario(n: u16, rounds: u16, reads: u16) {
    ITER.fetch_add(1, Ordering::Relaxed);
    kernel::install(Tape::replay(Vec::new()), SimConfig::default());
    let mut rt: *mut rodbus_ffi::Runtime = std::ptr::null_mut();
    unsafe { ffi::rodbus_runtime_create(ffi::RuntimeConfig { num_core_threads: 1 }, &mut rt) };
    let map = unsafe { ffi::rodbus_device_map_create() };
    let handler = ffi::WriteHandler {
        write_single_coil: None,
        write_single_register: Some(wh_reg_store),
        write_multiple_coils: None,
        write_multiple_registers: None,
        on_destroy: Some(wh_destroy),
        ctx: std::ptr::null_mut(),
    };
    // register n is written by the client only; the transactions touch 0..n
    let init = TxArg { n: n + 1, value: 0, add: true };
    let cfgcb = ffi::DatabaseCallback {
        callback: Some(tx_cb),
        on_destroy: Some(nop_destroy),
        ctx: &init as *const TxArg as *mut c_void,
    };
    unsafe { ffi::rodbus_device_map_add_endpoint(map, 1, handler, cfgcb) };
    let filter = unsafe { ffi::rodbus_address_filter_any() };
    let host = CString::new("10.0.0.1").unwrap();
    let mut server: *mut rodbus_ffi::Server = std::ptr::null_mut();
    let rc = unsafe {
        ffi::rodbus_server_create_tcp(rt, host.as_ptr(), 502, filter, 4, map, ffi::DecodeLevel { app: 0, frame: 0, physical: 0 }, &mut server)
    };
    assert_eq!(rc, 0);
    unsafe {
        ffi::rodbus_device_map_destroy(map);
        ffi::rodbus_address_filter_destroy(filter);
    }
    kernel::settle();
    let peer = net::connect_from("10.0.0.1:502".parse().unwrap(), "10.0.9.9:4000".parse().unwrap()).expect("listening");
    // a second session on the same server: whatever the application and the first session are doing,
    // its requests are answered with the handler's data too
    let peer2 = net::connect_from("10.0.0.1:502".parse().unwrap(), "10.0.9.8:4001".parse().unwrap()).expect("listening");
    kernel::settle();
    let sp = Arc::new(SendPtr(server));
    let sp2 = sp.clone();
    // application thread: transactions
    let app = shuttle::thread::spawn(move || {
        for r in 1..=rounds {
            let arg = TxArg { n, value: r, add: false };
            let cb = ffi::DatabaseCallback {
                callback: Some(tx_cb),
                on_destroy: Some(nop_destroy),
                ctx: &arg as *const TxArg as *mut c_void,
            };
            let rc = unsafe { ffi::rodbus_server_update_database(sp2.0, 1, cb) };
            assert_eq!(rc, 0);
            shuttle::thread::yield_now();
        }
    });
    // simulation driver: multi-point reads
    for k in 0..reads {
        let tx = 100 + k;
        let req = [(tx >> 8) as u8, tx as u8, 0, 0, 0, 6, 1, 3, 0, 0, (n >> 8) as u8, n as u8];
        peer.write(&req);
        let tx2 = 400 + k;
        let req2 = [(tx2 >> 8) as u8, tx2 as u8, 0, 0, 0, 6, 1, 3, 0, 0, 0, 1];
        peer2.write(&req2);
        kernel::settle();
        let got2 = peer2.take_received();
        READS.fetch_add(1, Ordering::Relaxed);
        if got2.len() != 11 || got2[..2] != req2[..2] || got2[7] != 3 {
            panic!("second session: a read of an existing register sent while the first session and the application use the handler was answered with {:02x?}", got2);
        }
        let got = peer.take_received();
        READS.fetch_add(1, Ordering::Relaxed);
        if got.len() == 9 + 2 * n as usize && got[7] == 3 {
            let vals: Vec<u16> = (0..n as usize).map(|i| ((got[9 + 2 * i] as u16) << 8) | got[10 + 2 * i] as u16).collect();
            if vals.iter().any(|v| *v != vals[0]) {
                TORN.fetch_add(1, Ordering::Relaxed);
                panic!("torn read: a single client request observed part of a transaction: {:?}", vals);
            }
        } else {
            panic!("unexpected reply to the multi-point read: {:02x?}", got);
        }
        // a client write that the server acknowledged must still be there afterwards, whatever the
        // application's transaction was doing at that moment
        let wtx = 200 + k;
        let wval = 0x5000 + k;
        let wreq = [(wtx >> 8) as u8, wtx as u8, 0, 0, 0, 6, 1, 6, (n >> 8) as u8, n as u8, (wval >> 8) as u8, wval as u8];
        peer.write(&wreq);
        kernel::settle();
        let ack = peer.take_received();
        if ack != wreq {
            panic!("unexpected reply to the register write: {:02x?}", ack);
        }
        shuttle::thread::yield_now();
        let rtx = 300 + k;
        let rreq = [(rtx >> 8) as u8, rtx as u8, 0, 0, 0, 6, 1, 3, (n >> 8) as u8, n as u8, 0, 1];
        peer.write(&rreq);
        kernel::settle();
        let got = peer.take_received();
        READS.fetch_add(1, Ordering::Relaxed);
        if got.len() == 9 && got[7] & 0x80 != 0 {
            panic!("a read of an existing register was answered with exception {:02x?} which no handler raised", &got[7..]);
        }
        if got.len() != 11 || got[7] != 3 || (((got[9] as u16) << 8) | got[10] as u16) != wval {
            TORN.fetch_add(1, Ordering::Relaxed);
            panic!("torn read: acknowledged write lost: register {} was written with {:#06x} (acknowledged), a later read returned {:02x?}", n, wval, &got[7.min(got.len())..]);
        }
        shuttle::thread::yield_now();
    }
    app.join().unwrap();
    unsafe {
        ffi::rodbus_server_destroy(sp.0);
        ffi::rodbus_runtime_destroy(rt);
    }
    let _ = kernel::uninstall();
    let _ = &BLOCKED_READS;
}

// ---------------------------------------------------------------------------
// C02 / C17: an RTU broadcast write reaches every configured handler exactly once
// even when an application thread holds a handler's mutex at that instant.

struct JournalHandler {
    writes: Arc<std::sync::Mutex<Vec<(u16, u16)>>>,
    regs: std::collections::BTreeMap<u16, u16>,
}

impl rodbus::server::RequestHandler for JournalHandler {
    fn read_holding_register(&self, address: u16) -> Result<u16, rodbus::ExceptionCode> {
        self.regs.get(&address).copied().ok_or(rodbus::ExceptionCode::IllegalDataAddress)
    }
    fn write_single_register(&mut self, value: rodbus::Indexed<u16>) -> Result<(), rodbus::ExceptionCode> {
        self.writes.lock().unwrap().push((value.index, value.value));
        self.regs.insert(value.index, value.value);
        Ok(())
    }
}

fn crc16(data: &[u8]) -> u16 {
    let mut crc: u16 = 0xFFFF;
    for b in data {
        crc ^= *b as u16;
        for _ in 0..8 {
            crc = if crc & 1 != 0 { (crc >> 1) ^ 0xA001 } else { crc >> 1 };
        }
    }
    crc
}

const BCAST_PATH: &str = "/dev/ttySHUTTLE";

fn scenario_broadcast(nunits: u8, rounds: u16, broadcasts: u16) {
    use rodbus::server::RequestHandler;
    ITER.fetch_add(1, Ordering::Relaxed);
    kernel::install(Tape::replay(Vec::new()), SimConfig::default());
    simtokio::serial::add_line(BCAST_PATH, simtokio::serial::OpenOutcome::Ok, true);
    let mut map = rodbus::server::ServerHandlerMap::new();
    let mut journals = Vec::new();
    let mut handlers = Vec::new();
    for u in 1..=nunits {
        let j = Arc::new(std::sync::Mutex::new(Vec::new()));
        let h = JournalHandler { writes: j.clone(), regs: Default::default() }.wrap();
        map.add(rodbus::UnitId::new(u), h.clone());
        journals.push(j);
        handlers.push(h);
    }
    let (handle, task) = rodbus::server::create_rtu_server_task(
        BCAST_PATH,
        rodbus::SerialSettings::default(),
        rodbus::doubling_retry_strategy(std::time::Duration::from_secs(1), std::time::Duration::from_secs(1)),
        map,
        rodbus::DecodeLevel::nothing(),
    );
    let _task = simtokio::task::spawn_named("rtu-server", task.run());
    kernel::settle();
    // application thread: works on the last unit's handler under its mutex, as the
    // documentation of ServerHandlerType tells applications to do
    let app_handler = handlers[nunits as usize - 1].clone();
    let app = shuttle::thread::spawn(move || {
        for r in 0..rounds {
            {
                let mut g = app_handler.lock().unwrap();
                g.regs.insert(1000 + r, r);
                // pre-empted while holding the lock
                shuttle::thread::yield_now();
                g.regs.insert(2000 + r, r);
            }
            shuttle::thread::yield_now();
        }
    });
    let mut want = Vec::new();
    for k in 0..broadcasts {
        let mut f = vec![0u8, 6, 0, k as u8, 0x10, k as u8 + 1];
        let c = crc16(&f);
        f.push(c as u8);
        f.push((c >> 8) as u8);
        simtokio::serial::line_write(BCAST_PATH, &f);
        kernel::settle();
        READS.fetch_add(1, Ordering::Relaxed);
        want.push((k, 0x1000 + k + 1));
        shuttle::thread::yield_now();
    }
    app.join().unwrap();
    kernel::settle();
    for (i, j) in journals.iter().enumerate() {
        let got = j.lock().unwrap().clone();
        if got != want {
            TORN.fetch_add(1, Ordering::Relaxed);
            panic!("broadcast lost: unit {} saw the broadcast writes {:?}, the line carried {:?}", i + 1, got, want);
        }
    }
    if !simtokio::serial::line_take(BCAST_PATH).is_empty() {
        panic!("broadcast lost: a broadcast was answered");
    }
    drop(handle);
    kernel::settle();
    let _ = kernel::uninstall();
}

fn verif_root() -> String {
    std::env::var("VERIF_ROOT").unwrap_or_else(|_| "/verif".to_string())
}

/// runs inside a child process: a failing schedule may leave shuttle objects behind whose
/// destructors abort the process, which must not take the report with it
fn child_batch(seed: u64, iters: usize, pct: bool, n: u16, bcast: bool) {
    let dir = format!("{}/replays", verif_root());
    let _ = std::fs::create_dir_all(&dir);
    let mut cfg = shuttle::Config::new();
    cfg.failure_persistence = shuttle::FailurePersistence::File(Some(dir.into()));
    cfg.max_steps = shuttle::MaxSteps::FailAfter(2_000_000);
    if pct {
        let runner = shuttle::Runner::new(PctScheduler::new_from_seed(seed, 3, iters), cfg);
        runner.run(move || if bcast { scenario_broadcast(n as u8, 3, 3) } else { scenario(n, 3, 3) });
    } else {
        let runner = shuttle::Runner::new(RandomScheduler::new_from_seed(seed, iters), cfg);
        runner.run(move || if bcast { scenario_broadcast(n as u8, 3, 3) } else { scenario(n, 3, 3) });
    }
    println!("BATCH-OK {} {}", ITER.load(Ordering::Relaxed), READS.load(Ordering::Relaxed));
}

/// Ok((schedules, reads)) or Err("<schedule file>\n<message>")
fn run_batch(prop: &str, name: &str, seed: u64, iters: usize, pct: bool, n: u16) -> Result<(u64, u64), String> {
    let dir = format!("{}/replays", verif_root());
    let _ = std::fs::create_dir_all(&dir);
    let before: Vec<String> = list_schedules(&dir);
    let exe = std::env::current_exe().expect("current_exe");
    let out = std::process::Command::new(exe)
        .args(["_batch", &seed.to_string(), &iters.to_string(), if pct { "pct" } else { "random" }, &n.to_string(), if name.starts_with("bcast") { "bcast" } else { "tx" }])
        .output()
        .map_err(|e| format!("(none)\ncannot start child: {}", e))?;
    let stdout = String::from_utf8_lossy(&out.stdout).to_string();
    let stderr = String::from_utf8_lossy(&out.stderr).to_string();
    if let Some(l) = stdout.lines().find(|l| l.starts_with("BATCH-OK")) {
        let mut it = l.split_whitespace().skip(1);
        let a: u64 = it.next().and_then(|x| x.parse().ok()).unwrap_or(0);
        let b: u64 = it.next().and_then(|x| x.parse().ok()).unwrap_or(0);
        if out.status.success() {
            return Ok((a, b));
        }
    }
    let msg = stderr.lines().find(|l| l.contains("PANIC:")).unwrap_or("child process failed").to_string();
    let after = list_schedules(&dir);
    let newf = after.into_iter().find(|f| !before.contains(f)).unwrap_or_else(|| format!("{}/(schedule not persisted)", dir));
    let target = format!("{}/{}-shuttle-{}-s{}.schedule", dir, prop, name, seed);
    let _ = std::fs::remove_file(&target);
    let path = if std::fs::rename(&newf, &target).is_ok() { target } else { newf };
    Err(format!("{}\n{}", path, msg))
}

fn list_schedules(dir: &str) -> Vec<String> {
    std::fs::read_dir(dir)
        .map(|rd| rd.filter_map(|e| e.ok()).map(|e| e.path().to_string_lossy().to_string()).filter(|p| p.contains("schedule")).collect())
        .unwrap_or_default()
}

fn main() {
    let args: Vec<String> = std::env::args().collect();
    let child = matches!(args.get(1).map(|s| s.as_str()), Some("_batch") | Some("_replay"));
    std::panic::set_hook(Box::new(move |info| {
        if child {
            let msg = info.payload().downcast_ref::<String>().cloned().or_else(|| info.payload().downcast_ref::<&str>().map(|s| s.to_string())).unwrap_or_default();
            eprintln!("PANIC: {}", msg.lines().next().unwrap_or(""));
        }
    }));
    let seed: u64 = std::env::var("VERIF_SEED").ok().and_then(|s| s.parse().ok()).unwrap_or(1);
    match args.get(1).map(|s| s.as_str()) {
        Some("_batch") => {
            let seed: u64 = args[2].parse().unwrap();
            let iters: usize = args[3].parse().unwrap();
            let pct = args[4] == "pct";
            let n: u16 = args[5].parse().unwrap();
            let bcast = args.get(6).map(|s| s == "bcast").unwrap_or(false);
            child_batch(seed, iters, pct, n, bcast);
        }
        Some("_replay") => {
            let path = args.get(2).cloned().unwrap_or_default();
            if path.contains("-bcast") {
                let n: u8 = if path.contains("bcast-n3") { 3 } else { 2 };
                shuttle::replay_from_file(move || scenario_broadcast(n, 3, 3), &path);
            } else {
                let n: u16 = if path.contains("n125") { 125 } else if path.contains("n2-") { 2 } else { 8 };
                shuttle::replay_from_file(move || scenario(n, 3, 3), &path);
            }
            println!("REPLAY-CLEAN");
        }
        Some("replay") => {
            let path = args.get(2).cloned().unwrap_or_default();
            let exe = std::env::current_exe().expect("current_exe");
            let out = std::process::Command::new(exe).args(["_replay", &path]).output().expect("child");
            let stderr = String::from_utf8_lossy(&out.stderr).to_string();
            let file = std::path::Path::new(&path).file_name().map(|f| f.to_string_lossy().to_string()).unwrap_or_default();
            let prop = if file.starts_with("C15") { "C15" } else if file.starts_with("C01") { "C01" } else if file.starts_with("C02") { "C02" } else if file.starts_with("C17") { "C17" } else if file.starts_with("C18") { "C18" } else { "C19" };
            let (needle, rule) = if prop == "C15" { ("", "session_disturbed_under_lock_contention") } else if prop == "C01" { ("", "reply_under_lock_contention") } else if file.contains("-bcast") { ("broadcast lost", "broadcast_lost") } else { ("torn read", "torn_read") };
            match stderr.lines().find(|l| l.contains("PANIC:") && l.contains(needle)) {
                Some(l) => {
                    println!("VIOLATION property={} replay={}", prop, path);
                    println!("  rule={} {}", rule, l.trim_start_matches("PANIC: "));
                    std::process::exit(1);
                }
                None => {
                    println!("NOT-REPRODUCED property={} rule={} (schedule {})", prop, rule, path);
                    std::process::exit(2);
                }
            }
        }
        Some(prop @ ("C19" | "C01" | "C02" | "C17" | "C18" | "C15")) => {
            let prop = prop.to_string();
            let mut tier = std::env::var("VERIF_TIER").unwrap_or_else(|_| "quick".into());
            if let Some(i) = args.iter().position(|a| a == "--tier") {
                if let Some(t) = args.get(i + 1) {
                    tier = t.clone();
                }
            }
            let t0 = std::time::Instant::now();
            let (it_rand, it_pct) = if tier == "thorough" { (2_000_000, 400_000) } else { (6_000, 2_000) };
            let plan: Vec<(&str, bool, u16, usize)> = if prop == "C01" {
                // replies under contention for the handler mutex: both the transaction scenario (every read and
                // write must be answered with the handler's data, never with an exception nobody raised) and the
                // broadcast scenario
                vec![("random-n8", false, 8, it_rand / 2), ("bcast-n2-random", false, 2, it_rand / 4)]
            } else if prop == "C15" {
                // two sessions and the application contend for the handler: each session's requests are answered
                // with the handler's data (sessions are independent)
                vec![("random-n8", false, 8, it_rand / 2), ("pct-n8", true, 8, it_pct / 2)]
            } else if prop == "C18" {
                vec![("random-n8", false, 8, it_rand / 2), ("pct-n8", true, 8, it_pct / 2)]
            } else if prop == "C19" {
                vec![("random-n8", false, 8, it_rand), ("random-n2-", false, 2, it_rand / 2), ("random-n125", false, 125, it_rand / 10), ("pct-n8", true, 8, it_pct)]
            } else {
                vec![("bcast-n2-random", false, 2, it_rand / 2), ("bcast-n3-random", false, 3, it_rand / 2), ("bcast-n2-pct", true, 2, it_pct)]
            };
            let (rule, what) = if prop == "C15" { ("session_disturbed_under_lock_contention", "requests_checked") } else if prop == "C01" { ("reply_under_lock_contention", "requests_checked") } else if prop == "C19" || prop == "C18" { ("torn_read", "multi_point_reads_checked") } else { ("broadcast_lost", "broadcasts_checked") };
            let mut failure: Option<String> = None;
            let mut batches = Vec::new();
            for (name, pct, n, iters) in &plan {
                let bt = std::time::Instant::now();
                let r = run_batch(&prop, name, seed, *iters, *pct, *n);
                batches.push(serde_json::json!({"name": name, "scheduler": if *pct {"PCT(depth 3)"} else {"random"}, "size": n, "schedules": iters, "wall_s": bt.elapsed().as_secs_f64()}));
                match r {
                    Ok((a, b)) => {
                        ITER.fetch_add(a, Ordering::Relaxed);
                        READS.fetch_add(b, Ordering::Relaxed);
                    }
                    Err(e) => {
                        failure = Some(e);
                        break;
                    }
                }
            }
            // merge into the evidence file written by the simulation engine
            let path = format!("{}/evidence/{}.json", verif_root(), prop);
            let mut ev: serde_json::Value = std::fs::read_to_string(&path).ok().and_then(|t| serde_json::from_str(&t).ok()).unwrap_or_else(|| {
                serde_json::json!({"property_id": prop, "tier": tier, "seed": seed, "level": "exploration", "wall_s": 0.0, "coverage": {"evaluations": 0, "distinct_nontrivial": 0, "rule": "", "samples": []}})
            });
            let total: u64 = ITER.load(Ordering::Relaxed);
            let (real, stub): (Vec<&str>, Vec<&str>) = if prop == "C19" || prop == "C18" || prop == "C01" || prop == "C15" {
                (
                    vec!["rodbus-ffi rodbus_server_update_database / database functions", "rodbus TCP server + session task (handler mutex acquisition per request)", "generated Runtime wrapper on the simulated runtime"],
                    vec!["handler mutex = shuttle::sync::Mutex via cfg(rodbus_verif_shuttle)", "network, clock, executor (simtokio)", "application transaction callback with yields between updates"],
                )
            } else {
                (
                    vec!["rodbus RTU server task + session task (create_rtu_server_task): RTU parser, broadcast dispatch over the handler map"],
                    vec!["handler mutex = shuttle::sync::Mutex via cfg(rodbus_verif_shuttle)", "serial line, clock, executor (simtokio / simserial)", "application thread locking the last unit's handler with a yield while it holds the lock"],
                )
            };
            ev["coverage"]["threads_shuttle"] = serde_json::json!({
                "engine": "shuttle 0.9 (random and PCT schedulers, seeded from VERIF_SEED)",
                "schedules_explored": total,
                what: READS.load(Ordering::Relaxed),
                "violations": if failure.is_some() { 1 } else { 0 },
                "batches": batches,
                "wall_s": t0.elapsed().as_secs_f64(),
                "components": {"real": real, "stub": stub},
            });
            if let Some(x) = ev["coverage"]["evaluations"].as_u64() {
                ev["coverage"]["evaluations"] = serde_json::json!(x + total);
            }
            if failure.is_some() {
                ev["violations"] = serde_json::json!(1);
            }
            if let Some(w) = ev["wall_s"].as_f64() {
                ev["wall_s"] = serde_json::json!(w + t0.elapsed().as_secs_f64());
            }
            let _ = std::fs::write(&path, serde_json::to_string_pretty(&ev).unwrap());
            match failure {
                Some(f) => {
                    let mut lines = f.lines();
                    println!("VIOLATION property={} replay={}", prop, lines.next().unwrap_or(""));
                    println!("  rule={} {}", rule, lines.next().unwrap_or(""));
                    std::process::exit(1);
                }
                None => {
                    println!("OK property={} (threads, shuttle) tier={} seed={} schedules={} checked={} wall={:.1}s", prop, tier, seed, total, READS.load(Ordering::Relaxed), t0.elapsed().as_secs_f64());
                }
            }
        }
        _ => {
            println!("usage: shuttlecheck C19|C02|C17 [--tier quick|thorough] | replay <schedule-file>");
            std::process::exit(2);
        }
    }
}
