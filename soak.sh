#!/bin/sh
# Long background exploration: every property at the thorough tier with a larger budget, then the
# determinism self-test. Intended for `vp run --with-repo -- ./soak.sh [scale]`: works on the snapshot of
# /repo ($VP_RUN_REPO) so that changes applied to /repo meanwhile do not disturb it.
ROOT="$(cd "$(dirname "$0")" && pwd)"
REPO="${VP_RUN_REPO:-/repo}"
cd "$ROOT"
if [ "$REPO" != "/repo" ]; then
    sed -i "s#/repo/#$REPO/#g" sim/shadow/rodbus/Cargo.toml sim/shadow/rodbus-ffi/Cargo.toml
    sed -i "s#/repo/#$REPO/#g" shuttle_engine/shadow/rodbus/Cargo.toml shuttle_engine/shadow/rodbus-ffi/Cargo.toml
fi
export VERIF_THOROUGH_SCALE="${1:-8}"
./check build || exit 2
for P in C01 C02 C03 C04 C05 C06 C07 C08 C09 C10 C11 C12 C13 C14 C15 C16 C17 C18 C19 C20; do
    /usr/bin/time -f "$P %es" ./check $P --tier thorough 2>&1 | grep -E "^(OK|VIOLATION|HARNESS|KNOWN|  rule=|C[0-9][0-9] )"
done
VERIF_SELFTEST_RUNS=1000 ./check selftest 2>&1 | tail -2
echo "SOAK DONE"
