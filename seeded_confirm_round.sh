#!/bin/sh
# usage: seeded_confirm.sh <ID>  — independently confirm each seeded change in its scratch worktree:
#   suite passes with patch; demo fails with patch; demo passes without patch.
ID="$1"; WT="/tmp/wt3-$ID"; OUT="/tmp/seeded-out3/$ID"
cd "$WT" || exit 2
for M in "$OUT"/m*; do
  [ -f "$M/patch.diff" ] || continue
  git checkout -q -- . ; git clean -fdq -e target
  DEMO="$M/demo.diff"
  if [ ! -f "$DEMO" ]; then echo "CONFIRM $ID $(basename $M): no demo.diff" ; continue; fi
  if grep -q "^+++ b/.*tests/.*\.rs" "$DEMO"; then
      F=$(grep "^+++ b/.*tests/.*\.rs" "$DEMO" | head -1 | sed 's#.*/tests/\(.*\)\.rs#\1#'); PKG=$(grep "^+++ b/.*tests/.*\.rs" "$DEMO" | head -1 | sed 's#^+++ b/\(.*\)/tests/.*#\1#' | xargs basename)
      TESTCMD="cargo test -p $PKG --offline -j 8 --test $F"
  elif grep -q "^+++ b/ffi/rodbus-ffi" "$DEMO"; then
      TESTCMD="cargo test -p rodbus-ffi --offline -j 8 --lib seeded"
  else
      TESTCMD="cargo test -p rodbus --offline -j 8 --lib seeded"
  fi
  git apply "$M/patch.diff" || { echo "CONFIRM $ID $(basename $M): patch does not apply"; continue; }
  cargo test --workspace --offline -j 8 >/tmp/seeded-out3/$ID/$(basename $M).suite.log 2>&1; S=$?
  git apply "$DEMO" || { echo "CONFIRM $ID $(basename $M): demo does not apply"; continue; }
  $TESTCMD >/tmp/seeded-out3/$ID/$(basename $M).demo_with.log 2>&1; DW=$?
  git apply -R "$M/patch.diff"
  $TESTCMD >/tmp/seeded-out3/$ID/$(basename $M).demo_without.log 2>&1; DWO=$?
  echo "CONFIRM $ID $(basename $M): suite_with_patch_rc=$S demo_with_patch_rc=$DW demo_without_patch_rc=$DWO cmd='$TESTCMD'"
  git checkout -q -- . ; git clean -fdq -e target
done
