#!/usr/bin/env python3
"""Regenerates MANIFEST.json from the table below (kept valid at all times)."""
import json, subprocess
CLAIMED = {
 "C01": ("model-based lock-step simulation of the real TCP (and RTU) server against model::server; byte-exact reply comparison at every quiescent point; replies while an application thread holds the handler mutex are explored by the shuttle engine; end-to-end runs (real client, director-owned relay with stalls and small windows, real server) check every successful read/write against the handlers; established TLS sessions below the session limit keep being served",
         "seeded simulation: real server tasks on simulated network; reference-model oracle; end-to-end history oracle (thread interleavings: shuttle schedule exploration)", "4 C01"),
 "C02": ("same runs as C01; instrumented handlers journal every callback, compared with the reference model's expected calls and final point memory; RTU broadcast delivery while an application thread holds a handler mutex is explored by the shuttle engine; end-to-end runs (real client <-> relay with stalls <-> real server): every write a handler executes is one the client application submitted, at most once; RTU edge configurations (one handler object under several unit ids, reply write error then re-open)",
         "seeded simulation: handler-journal oracle against reference model; end-to-end exactly-once history oracle (thread interleavings: shuttle schedule exploration)", "4 C02"),
 "C03": ("lock-step simulation of the real client task against a recording peer over the boundary lattice: exact MBAP encoding in one frame or rejection with zero bytes on the transport",
         "seeded simulation: recording transport + reference encoder oracle", "4 C03"),
 "C04": ("lock-step simulation: peer answers from the reply mutation grammar; completion compared with model::pdu::decode_reply",
         "seeded simulation: reply-grammar fault injection by the peer; reference decoder oracle", "4 C04"),
 "C06": ("lock-step simulation of the real RTU server over the simulated serial line: corrupted frames (1/2-bit, <=16-bit bursts, CRC variants), chunkings, commands mid-frame; line bytes and handler journal equal model::rtu (independent bitwise CRC) composed with model::server; reopen schedule exact",
         "seeded simulation with line-corruption fault injection; reference-model oracle", "4 C06"),
 "C17": ("same RTU runs (1/5 of frames to unit 0) plus the TCP runs: silence for unconfigured ids, broadcast writes applied once to every unit and never answered, broadcast reads ignored; broadcast delivery while an application thread holds a handler mutex is explored by the shuttle engine",
         "seeded simulation; reference-model oracle over unit-id space (thread interleavings: shuttle schedule exploration)", "4 C17"),
 "C07": ("seeded adversarial byte streams (grammar-aware garbage) against all four role/transport combinations at random decode levels with log formatting forced, overflow checks and debug assertions on; panic capture around every poll, spin / runaway-poll watchdogs, healthy-session and fresh-connection liveness after the fault, shutdown honoured",
         "seeded simulation with peer-garbage fault injection; panic/spin watchdogs; bounded liveness after faults stop", "4 C07"),
 "C15": ("lock-step simulation of the real TCP server against model::sessions: ordered live set, eviction of the oldest exactly at the limit, isolation, shutdown / handle drop closes everything",
         "seeded simulation; reference-model oracle over connection histories (two sessions and an application thread contending for the handler: shuttle schedule exploration)", "4 C15"),
 "C16": ("simulation with arbitrary peer source addresses (impossible over loopback): non-matching peers get zero bytes + EOF, matching peers are served; wildcard parser grammar. Rust API over plain TCP in this round",
         "seeded simulation over filter x source-address lattice; reference filter model", "4 C16"),
 "C08": ("simulation of real TLS sessions with an authorization handler: reply stream and interleaved authorization/point-handler journal equal model::server for seeded policies, roles (fixture certificates) and request sequences",
         "seeded simulation of real rustls sessions over the simulated network; reference-model oracle", "4 C08"),
 "C09": ("seeded sampling of the full TLS grid (min version x mode x authz x role x peer versions x peer certificate) with real rustls handshakes over the simulated stream against an independently configured bare rustls peer, under record chunking/latency and broken-handshake faults",
         "seeded simulation; grid oracle; handshake fault injection", "4 C09"),
 "C18": ("differential simulation of the generated extern \"C\" functions on the simulated runtime against a same-named outcome table written from the schema: all eight client operations x outcome classes (values, 256 exception codes, bad response, bad framing, I/O error, timeout in exact virtual ms, shutdown), invalid arguments, queue-full bursts without stepping the simulation, post-shutdown calls, callback/on_destroy exactly-once counting, listener state mapping; server write callbacks x every WriteResult; the same seeded runs are also interpreted by Miri (undefined behaviour in the unsafe C-ABI layer aborts the run)",
         "seeded simulation of the C ABI on a simulated tokio runtime; differential oracle (plus shuttle schedule exploration of transactions vs client reads/writes, and the same runs interpreted by Miri)", "4 C18"),
 "C19": ("map semantics: seeded add/update/delete/get sequences through the extern \"C\" database functions inside configure/transaction/write callbacks, interleaved with client reads over the simulated network, against model::db. Atomicity under thread pre-emption: see level_note",
         "seeded simulation; reference map model (atomicity: shuttle schedule exploration; same runs interpreted by Miri)", "4 C19"),
 "C20": ("paired replays of the C01-C06/C10-C14 workload tapes on the canonical schedule at the lowest and highest decode level and with a run-time level change injected at a tape-derived position; all observables byte-identical",
         "seeded simulation; metamorphic (paired-replay) oracle", "4 C20"),
 "C10": ("exact lock-step comparison of the real client task with model::client over seeded action/fault sequences (replies, timeouts, I/O errors, enable/disable, shutdown, handle drop, task abort, clock jumps) in virtual time; exactly-once and result class per request",
         "seeded simulation with fault injection; refinement against an executable reference model", "4 C10"),
 "C11": ("same lock-step runs: wire frames and tx ids vs model; stale/duplicate/future/unsolicited frames never complete a request; 66 000-request wrap run",
         "seeded simulation; reference-model refinement; stale/duplicate frame injection", "4 C11"),
 "C12": ("same lock-step runs in exact virtual time: timeout instants, replies split across the deadline, N consecutive timeouts drop the connection",
         "seeded discrete-event simulation in virtual time; reference-model refinement", "4 C12"),
 "C13": ("same lock-step runs: listener sequence, connect attempts, fail-fast completions and task end equal model::client",
         "seeded simulation with connection-fault injection; reference-model refinement", "4 C13"),
 "C14": ("same lock-step runs: announced delays equal model::retry and the next attempt on the simulated network happens exactly that long after",
         "seeded discrete-event simulation in virtual time; reference-model refinement", "4 C14"),
 "C05": ("metamorphic simulation: one MBAP stream under canonical vs. arbitrary chunking (cuts in header/body, 260-byte buffer fill, delays, commands mid-frame) on two identical real servers; plus invalid-header closure",
         "seeded simulation with read-chunking fault injection; metamorphic + model oracle", "4 C05"),
}
PENDING_REASON = "check under construction in this round (see DESIGN.md section 9); not claimed yet"
props = [json.loads(l)["id"] for l in open("/verif/properties.jsonl")]
checks = []
for pid in props:
    if pid in CLAIMED:
        text, tech, ref = CLAIMED[pid]
        checks.append({
            "property_id": pid,
            "quick_cmd": f"./check {pid} --tier quick",
            "thorough_cmd": f"./check {pid} --tier thorough",
            "evidence_file": f"evidence/{pid}.json",
            "replay_cmd_template": "./check replay {path}",
            "engine": "sim",
            "level_claimed": {"category": "exploration", "text": text, "design_ref": ref},
            "level_note": "seeded sampling of schedules/faults/inputs, not exhaustive; trusted base: the simulation facades (simtokio/simserial) behave like tokio for the APIs rodbus uses, and the reference models in sim/simcheck/src/model encode the property statements",
            "technique": tech,
        })
man = {
 "version": 1,
 "setup_cmd": "./check build",
 "hooks": {"guard": "--cfg rodbus_verif_shuttle", "enable": "only the shuttle engine sets it (RUSTFLAGS in /verif/shuttle_engine/.cargo/config.toml): it swaps `use std::sync::{Arc, Mutex}` in rodbus/src/server/handler.rs for shuttle's so that handler-mutex acquisitions are scheduling points. Everything else needs no hook: the seam is dependency substitution via shadow manifests (tokio -> simtokio, tokio-serial -> simserial) and /repo sources are compiled unmodified",
           "baseline_off_cmd": "cd /repo && cargo test --workspace --no-fail-fast --offline", "source_commits": ["ff2eb44"], "add_only": True},
 "engines": [{"name": "miri", "path": "miri_engine.py", "serves_properties": ["C18", "C19"], "kind_free_text": "the seeded simulation runs of the C-ABI scenarios (no TLS) interpreted by Miri (cargo +nightly miri run): any undefined behaviour in rodbus-ffi / rodbus aborts the run with a report; event-log hashes must equal the native engine's"},
  {"name": "shuttle", "path": "shuttle_engine", "serves_properties": ["C01", "C02", "C15", "C17", "C18", "C19"], "kind_free_text": "shuttle (seeded random + PCT schedulers) over two threads: the simulation driver with the real server (C-ABI TCP server for C19, RTU server for C02/C17) and an application thread (database transactions interleaved with client reads and acknowledged client writes / work under a handler mutex); replayable schedule files"},
  {"name": "sim", "path": "sim", "serves_properties": sorted(CLAIMED), "kind_free_text": "deterministic discrete-event simulation of the unmodified rodbus tasks (tokio facade: network, serial, clock, executor, select! start index), seeded choice tape, shrinking, replay"}],
 "checks": checks,
 "not_applicable": [{"property_id": p, "reason": PENDING_REASON} for p in props if p not in CLAIMED],
 "notes": "Exit codes: 0 held, 1 + VIOLATION line, 2 harness error. Fixed defects are listed in known_findings.json (status fixed; they relax nothing).",
}
json.dump(man, open("/verif/MANIFEST.json", "w"), indent=1)
print("claimed", sorted(CLAIMED))
