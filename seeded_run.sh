#!/bin/sh
# usage: seeded_run.sh <patch.diff> <PROP> [<PROP>...]   — apply a seeded change to /repo, run quick checks, undo it.
PATCH="$1"; shift
cd /repo || exit 2
git diff --quiet || { echo "/repo is dirty"; exit 2; }
git apply -C1 --recount "$PATCH" 2>/dev/null || git apply -3 "$PATCH" || { git reset -q --hard HEAD; echo "PATCH-DOES-NOT-APPLY $PATCH"; exit 3; }
RES=""
for P in "$@"; do
    OUT=$(cd /verif && ./check "$P" --tier quick 2>&1); RC=$?
    echo "$OUT" | grep -E "VIOLATION|rule=|HARNESS|OK property" | head -3
    RES="$RES $P=$RC"
done
git -C /repo checkout -- . && git -C /repo clean -fdq -- rodbus ffi 2>/dev/null
# the runs above were made on a changed tree: put the committed evidence files back
git -C /verif checkout -- evidence 2>/dev/null
echo "RESULT $PATCH:$RES"
