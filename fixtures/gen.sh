#!/bin/sh
# Generates the TLS fixtures used by the C08/C09/C16 checks (run once; outputs are committed).
# RSA-2048 everywhere (fixed-length signatures keep TLS message sizes stable across runs).
set -e
cd "$(dirname "$0")/tls"
ROLE_OID=1.3.6.1.4.1.50316.802.1
SUBJ="/C=US/ST=Oregon/L=Bend/O=Verif"
LONG=36500
mkca() { # name
  openssl req -x509 -newkey rsa:2048 -nodes -keyout $1_key.pem -out $1_cert.pem -subj "$SUBJ/CN=$1" -days $LONG \
    -addext "basicConstraints=critical,CA:TRUE" -addext "keyUsage=critical,keyCertSign,cRLSign" 2>/dev/null
}
# leaf: name ca ext-line-file [not_before not_after]
mkleaf() {
  name=$1; ca=$2; ext=$3; nb=$4; na=$5
  openssl req -new -newkey rsa:2048 -nodes -keyout ${name}_key.pem -out ${name}.csr -subj "$SUBJ/CN=$name" 2>/dev/null
  if [ -n "$nb" ]; then
    openssl x509 -req -in ${name}.csr -CA ${ca}_cert.pem -CAkey ${ca}_key.pem -set_serial 0x$(openssl rand -hex 8) -sha256 \
      -extfile $ext -not_before $nb -not_after $na -out ${name}_cert.pem 2>/dev/null
  else
    openssl x509 -req -in ${name}.csr -CA ${ca}_cert.pem -CAkey ${ca}_key.pem -set_serial 0x$(openssl rand -hex 8) -sha256 \
      -extfile $ext -days $LONG -out ${name}_cert.pem 2>/dev/null
  fi
  rm -f ${name}.csr
}
# self-signed: name ext-args... [validity via -not_before/-not_after]
mkss() {
  name=$1; role=$2; nb=$3; na=$4
  EXT=""
  [ -n "$role" ] && EXT="-addext $ROLE_OID=ASN1:UTF8String:$role"
  if [ -n "$nb" ]; then
    openssl req -x509 -newkey rsa:2048 -nodes -keyout ${name}_key.pem -out ${name}_cert.pem -subj "$SUBJ/CN=$name" \
      -not_before $nb -not_after $na -addext "subjectAltName=DNS:test.com" $EXT 2>/dev/null
  else
    openssl req -x509 -newkey rsa:2048 -nodes -keyout ${name}_key.pem -out ${name}_cert.pem -subj "$SUBJ/CN=$name" \
      -days $LONG -addext "subjectAltName=DNS:test.com" $EXT 2>/dev/null
  fi
}
mkca ca1; mkca ca2
printf "subjectAltName=DNS:test.com\nextendedKeyUsage=serverAuth,clientAuth\n" > srv.ext
printf "subjectAltName=IP:10.0.0.7\nextendedKeyUsage=serverAuth,clientAuth\n" > srv_ip.ext
printf "subjectAltName=DNS:other.example\nextendedKeyUsage=serverAuth,clientAuth\n" > srv_other.ext
printf "subjectAltName=DNS:client.test\nextendedKeyUsage=serverAuth,clientAuth\n$ROLE_OID=ASN1:UTF8String:operator\n" > cli_operator.ext
printf "subjectAltName=DNS:client.test\nextendedKeyUsage=serverAuth,clientAuth\n$ROLE_OID=ASN1:UTF8String:viewer\n" > cli_viewer.ext
printf "subjectAltName=DNS:client.test\nextendedKeyUsage=serverAuth,clientAuth\n" > cli_norole.ext
PAST_B=20200101000000Z; PAST_A=20210101000000Z; FUT_B=21000101000000Z; FUT_A=21500101000000Z
mkleaf srv_ok ca1 srv.ext
mkleaf srv_wrongname ca1 srv_other.ext
mkleaf srv_ip ca1 srv_ip.ext
mkleaf srv_wrongca ca2 srv.ext
mkleaf srv_expired ca1 srv.ext $PAST_B $PAST_A
mkleaf srv_future ca1 srv.ext $FUT_B $FUT_A
mkleaf cli_operator ca1 cli_operator.ext
mkleaf cli_viewer ca1 cli_viewer.ext
mkleaf cli_norole ca1 cli_norole.ext
mkleaf cli_wrongca ca2 cli_operator.ext
mkleaf cli_expired ca1 cli_operator.ext $PAST_B $PAST_A
mkleaf cli_future ca1 cli_operator.ext $FUT_B $FUT_A
mkss ss_a operator
mkss ss_b viewer
mkss ss_c operator
mkss ss_norole ""
mkss ss_expired operator $PAST_B $PAST_A
mkss ss_future operator $FUT_B $FUT_A
rm -f *.ext *.srl
ls
# --- added later (kept here so the script documents every fixture) ---
# cat cli_operator_cert.pem ca1_cert.pem > cli_operator_chain_ca.pem ; cat cli_operator_cert.pem ss_b_cert.pem > cli_operator_chain_rogue.pem
# exotic roles (leaf certs signed by ca1): cli_role_admin "admin", cli_role_long "R"x200, cli_role_utf8 (FORMAT:UTF8) "rôle-ü", cli_role_space "role with space", cli_role_empty ""
# cli_role_nul: role "operator\0x" (a UTF8String with an interior NUL, given as DER):
#   printf "subjectAltName=DNS:client.test\nextendedKeyUsage=serverAuth,clientAuth\n$ROLE_OID=DER:0c0a6f70657261746f720078\n" > x.ext ; mkleaf cli_role_nul ca1 x.ext
