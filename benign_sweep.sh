#!/bin/sh
# Applies every property-preserving change in /verif/benign to a snapshot of /repo and runs all 20 quick checks:
# every one must exit 0. Intended for `vp run --with-repo -- ./benign_sweep.sh` (works on $VP_RUN_REPO).
ROOT="$(cd "$(dirname "$0")" && pwd)"
REPO="${VP_RUN_REPO:-/repo}"
cd "$ROOT"
if [ "$REPO" != "/repo" ]; then
    sed -i "s#/repo/#$REPO/#g" sim/shadow/rodbus/Cargo.toml sim/shadow/rodbus-ffi/Cargo.toml
    sed -i "s#/repo/#$REPO/#g" shuttle_engine/shadow/rodbus/Cargo.toml shuttle_engine/shadow/rodbus-ffi/Cargo.toml
fi
ALL="${SWEEP_PROPS:-C01 C02 C03 C04 C05 C06 C07 C08 C09 C10 C11 C12 C13 C14 C15 C16 C17 C18 C19 C20}"
# BENIGN_GLOB=<glob> restricts the sweep to benign/<glob>/ (default: all)
# optional sharding: benign_sweep.sh <k> <n>; VERIF_SWEEP_LEAN=1 leaves out the Miri engine (C18/C19), whose
# rebuild per change dominates the time
K="${1:-0}"; N="${2:-1}"; I=0
: > benign_results.txt
for D in benign/${BENIGN_GLOB:-*}/; do
    I=$((I+1)); [ $((I % N)) -eq "$K" ] || continue
    ID=$(basename "$D")
    [ -f "$D/patch.diff" ] || continue
    git -C "$REPO" checkout -q -- .
    if ! git -C "$REPO" apply "$ROOT/$D/patch.diff" 2>/dev/null; then echo "$ID APPLY-FAILED" | tee -a benign_results.txt; continue; fi
    BAD=""
    for Q in $ALL; do
        if [ -n "$VERIF_SWEEP_LEAN" ] && { [ "$Q" = C18 ] || [ "$Q" = C19 ]; }; then
            OUT=$(./check $Q --tier quick --only "" 2>&1); R=$?
        else
            OUT=$(./check $Q --tier quick 2>&1); R=$?
        fi
        if [ $R -ne 0 ]; then BAD="$BAD $Q=$R"; echo "$OUT" | grep -E -m2 "rule=|HARNESS" | cut -c1-400 | sed "s/^/    $ID $Q: /" | tee -a benign_results.txt; fi
    done
    echo "$ID alarms:[$BAD ]" | tee -a benign_results.txt
done
git -C "$REPO" checkout -q -- .
echo "BENIGN SWEEP DONE"
