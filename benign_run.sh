#!/bin/sh
# usage: benign_run.sh [name-substr]  — every property-preserving change in benign/ must leave all 20 quick checks at exit 0
cd "$(dirname "$0")"
ALL="C01 C02 C03 C04 C05 C06 C07 C08 C09 C10 C11 C12 C13 C14 C15 C16 C17 C18 C19 C20"
BAD=0
for d in benign/b*"$1"*/; do
    R=$(./seeded_run.sh "$(pwd)/$d/patch.diff" $ALL 2>&1 | grep -E "VIOLATION|rule=|HARNESS|RESULT|APPLY")
    echo "$R" | grep -E "VIOLATION|rule=|HARNESS|APPLY" | cut -c1-300
    if echo "$R" | grep "^RESULT" | grep -qE "=[1-9]" || ! echo "$R" | grep -q "^RESULT"; then BAD=$((BAD+1)); echo "ALARM on $d"; else echo "quiet $d"; fi
done
echo "benign changes with an alarm: $BAD"
[ $BAD -eq 0 ]
