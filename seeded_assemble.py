#!/usr/bin/env python3
"""seeded_assemble.py <round> <outdir> <head> <ID>... : copy confirmed sub-agent changes into /verif/seeded/<ID>-r<round>-mN/
Confirmation lines (CONFIRM ...) are read from <outdir>/confirm*.log and <outdir>/manual_confirm.log;
detection lines (RESULT <patch>: Cxx=rc, preceded by an optional rule= line) from <outdir>/detect.log."""
import sys, os, re, json, shutil, glob
rnd, out, head = sys.argv[1], sys.argv[2], sys.argv[3]
ids = sys.argv[4:]
confirm = {}
for f in sorted(glob.glob(out + '/confirm*.log')) + [out + '/manual_confirm.log']:
    if not os.path.exists(f):
        continue
    for l in open(f):
        m = re.match(r"CONFIRM (C\d\d) (m\d): suite_with_patch_rc=(\d+) demo_with_patch_rc=(\d+) demo_without_patch_rc=(\d+) cmd='(.*?)'", l)
        if m:
            c = dict(suite_with_patch_rc=int(m.group(3)), demo_with_patch_rc=int(m.group(4)), demo_without_patch_rc=int(m.group(5)), demo_cmd=m.group(6))
            if c['demo_with_patch_rc'] != 0 or (m.group(1), m.group(2)) not in confirm:
                confirm[(m.group(1), m.group(2))] = c
detect = {}
rule = ''
if os.path.exists(out + '/detect.log'):
    for l in open(out + '/detect.log'):
        l = l.rstrip('\n')
        if l.strip().startswith('rule='):
            rule = l.strip()[5:]
        m = re.match(r"RESULT (\S+)/(C\d\d)/(m\d)/patch(\.rebased)?\.diff: (.*)", l)
        if m:
            rcs = dict(x.split('=') for x in m.group(5).split())
            detect[(m.group(2), m.group(3))] = (rcs, rule)
            rule = ''
for pid in ids:
    for m in ['m1', 'm2', 'm3']:
        src = '%s/%s/%s' % (out, pid, m)
        dst = '/verif/seeded/%s-r%s-%s' % (pid, rnd, m)
        c = confirm.get((pid, m))
        assert c and c['suite_with_patch_rc'] == 0 and c['demo_with_patch_rc'] != 0 and c['demo_without_patch_rc'] == 0, (pid, m, c)
        os.makedirs(dst, exist_ok=True)
        reb = os.path.exists(src + '/patch.rebased.diff')
        shutil.copy(src + ('/patch.rebased.diff' if reb else '/patch.diff'), dst + '/patch.diff')
        if reb:
            shutil.copy(src + '/patch.diff', dst + '/patch.original.diff')
        shutil.copy(src + '/demo.diff', dst + '/demo.diff')
        shutil.copy(src + '/notes.md', dst + '/notes.md')
        meta = {"property": pid, "id": "%s-r%s-%s" % (pid, rnd, m), "round": int(rnd),
                "origin": "written by an independent sub-agent given only the property text and a scratch worktree of /repo (HEAD %s)" % head,
                "patch": "patch.diff" + (" (re-based; patch.original.diff is what the sub-agent delivered)" if reb else " (applies to /repo HEAD %s)" % head),
                "demonstration": "demo.diff (applies to %s together with the delivered patch)" % head,
                "needs_to_manifest": "see notes.md",
                "confirmed_by_me_in_scratch_worktree_at_" + head: c, "detection": {}}
        d = detect.get((pid, m))
        if d:
            rcs, rule = d
            own = int(rcs.get(pid, -1))
            meta["detection"] = {"run": "quick tier, seed 1, ./seeded_run.sh against /repo with the change applied", "own_property_check": pid,
                                 "own_property_exit_code": own, "caught": own == 1, "first_violation": rule[:300]}
        json.dump(meta, open(dst + '/meta.json', 'w'), indent=1)
        print('assembled', dst)
