#!/usr/bin/env python3
"""Miri engine: the same seeded simulation runs, interpreted by Miri.

The C ABI layer (rodbus-ffi) is unsafe code: raw callback contexts, iterator
objects handed to C callbacks, Box::into_raw / from_raw life cycles. Here whole
simulated runs of the C-ABI scenarios (generated extern "C" functions + rodbus
tasks + simulated runtime) are executed under Miri, which aborts with a report at
the first undefined behaviour (use after free, invalid pointer, data race,
uninitialised read, misaligned access, ...). The run is identified by
(property, batch index, run index, VERIF_SEED) exactly as in the native engine, and
its event-log hash must equal the native one.

  miri_engine.py <PROP> [--tier quick|thorough]
  miri_engine.py replay <file.miri.json>

Exit 0 held / 1 + VIOLATION line / 2 harness error.
"""
import json
import os
import subprocess
import sys
import time
from concurrent.futures import ThreadPoolExecutor

ROOT = os.path.dirname(os.path.abspath(__file__))
SIM = os.path.join(ROOT, "sim")
TARGET = os.path.join(ROOT, "target", "miri")
NATIVE = os.path.join(ROOT, "target", "release", "simcheck")
FLAGS = "-Zmiri-disable-isolation -Zmiri-ignore-leaks"

# property -> [(batch index in the quick/thorough registry, batch name)]; only batches without
# TLS (ring's assembly cannot be interpreted)
PLAN = {
    "C18": [(0, "ffi_client"), (1, "ffi_server_tcp"), (3, "ffi_client_rtu")],
    "C19": [(0, "ffi_server_tcp")],
}
# runs per batch
BUDGET = {"quick": 16, "thorough": 320}


def env():
    e = dict(os.environ)
    e["CARGO_TARGET_DIR"] = TARGET
    e["CARGO_NET_OFFLINE"] = "true"
    e["MIRIFLAGS"] = FLAGS
    e["VERIF_ROOT"] = ROOT
    e.setdefault("VERIF_SEED", "1")
    return e


def miri_cmd(args):
    return ["cargo", "+nightly", "miri", "run", "--offline", "-q", "-p", "simcheck", "--"] + args


def run_range(prop, bi, lo, hi, tier):
    t0 = time.time()
    p = subprocess.run(miri_cmd(["serial", prop, str(bi), str(lo), str(hi), tier]), cwd=SIM, env=env(), capture_output=True, text=True)
    return (lo, hi, p.returncode, p.stdout, p.stderr, time.time() - t0)


def native_hashes(prop, bi, lo, hi, tier):
    p = subprocess.run([NATIVE, "serial", prop, str(bi), str(lo), str(hi), tier], env=env(), capture_output=True, text=True)
    out = {}
    for l in p.stdout.splitlines():
        if l.startswith("SERIAL-RUN"):
            f = l.split()
            out[int(f[3])] = f[4]
    return out


def classify(stderr):
    for l in stderr.splitlines():
        if "Undefined Behavior" in l or l.startswith("error: unsupported operation") or l.startswith("error: memory leaked") or "error: abnormal termination" in l:
            return l.strip()
    return None


def write_replay(prop, bi, name, run, tier, what, stderr):
    os.makedirs(os.path.join(ROOT, "replays"), exist_ok=True)
    path = os.path.join(ROOT, "replays", "%s-miri-%s-s%s-r%d.miri.json" % (prop, name, env()["VERIF_SEED"], run))
    json.dump({"engine": "miri", "property": prop, "batch_index": bi, "batch": name, "run": run, "tier": tier,
               "seed": int(env()["VERIF_SEED"]), "miri_flags": FLAGS, "report": what,
               "stderr_tail": stderr.splitlines()[-40:]}, open(path, "w"), indent=1)
    return path


def single(prop, bi, run, tier):
    lo, hi, rc, out, err, _ = run_range(prop, bi, run, run + 1, tier)
    return rc, out, err


def main():
    args = sys.argv[1:]
    if not args:
        print(__doc__)
        return 2
    if args[0] == "replay":
        r = json.load(open(args[1]))
        rc, out, err = single(r["property"], r["batch_index"], r["run"], r.get("tier", "quick"))
        what = classify(err)
        if what or rc == 1:
            print("VIOLATION property=%s replay=%s" % (r["property"], args[1]))
            print("  rule=miri/%s %s" % ("undefined_behaviour" if what else "oracle", what or [l for l in out.splitlines() if l.startswith("violation")][:1]))
            return 1
        if rc != 0:
            print("HARNESS-ERROR miri replay exited %d: %s" % (rc, err.splitlines()[-3:]))
            return 2
        print("NOT-REPRODUCED property=%s (miri run %s/%d clean)" % (r["property"], r["batch"], r["run"]))
        return 2
    prop = args[0]
    tier = os.environ.get("VERIF_TIER", "quick")
    if "--tier" in args:
        tier = args[args.index("--tier") + 1]
    if prop not in PLAN:
        print("HARNESS-ERROR the Miri engine has no batches for %s" % prop)
        return 2
    t0 = time.time()
    # build once (and fail loudly if the interpreter cannot be built offline)
    b = subprocess.run(miri_cmd(["serial", prop, "0", "0", "0", tier]), cwd=SIM, env=env(), capture_output=True, text=True)
    if b.returncode != 0:
        print("HARNESS-ERROR miri build/run failed:\n" + "\n".join(b.stderr.splitlines()[-15:]))
        return 2
    n = BUDGET.get(tier, 16)
    workers = int(os.environ.get("VERIF_THREADS", "16"))
    per = max(1, n // workers) if n >= workers else 1
    jobs = []
    for (bi, name) in PLAN[prop]:
        lo = 0
        while lo < n:
            jobs.append((bi, name, lo, min(n, lo + per)))
            lo += per
    results = []
    with ThreadPoolExecutor(max_workers=workers) as ex:
        futs = [(j, ex.submit(run_range, prop, j[0], j[2], j[3], tier)) for j in jobs]
        for j, f in futs:
            results.append((j, f.result()))
    failure = None
    runs = 0
    mismatches = 0
    batches = []
    for (bi, name) in PLAN[prop]:
        nat = native_hashes(prop, bi, 0, n, tier)
        done = 0
        wall = 0.0
        for (j, (lo, hi, rc, out, err, dt)) in results:
            if j[0] != bi:
                continue
            wall = max(wall, dt)
            seen = {}
            for l in out.splitlines():
                if l.startswith("SERIAL-RUN"):
                    f = l.split()
                    seen[int(f[3])] = f[4]
            done += len(seen)
            for k, h in seen.items():
                if nat.get(k) != h:
                    mismatches += 1
            what = classify(err)
            if (what or rc != 0) and failure is None:
                # the run that did not finish is the first one without a SERIAL-RUN line
                bad = next((k for k in range(lo, hi) if k not in seen), lo)
                if rc == 1 and not what:
                    vl = [l for l in out.splitlines() if l.startswith("violation")]
                    bad = max(seen) if seen else lo
                    failure = (bi, name, bad, "oracle: " + (vl[0] if vl else "violation"), err, "oracle")
                elif what:
                    failure = (bi, name, bad, what, err, "undefined_behaviour")
                else:
                    print("HARNESS-ERROR miri process for %s runs %d..%d exited %d: %s" % (name, lo, hi, rc, err.splitlines()[-3:]))
                    return 2
        runs += done
        batches.append({"name": name, "batch_index": bi, "runs": done, "slowest_process_wall_s": round(wall, 1)})
    ev_path = os.path.join(ROOT, "evidence", "%s.json" % prop)
    try:
        ev = json.load(open(ev_path))
    except Exception:
        ev = {"property_id": prop, "tier": tier, "seed": int(env()["VERIF_SEED"]), "level": "exploration", "wall_s": 0.0,
              "coverage": {"evaluations": 0, "distinct_nontrivial": 0, "rule": "", "samples": []}}
    ev["coverage"]["miri"] = {
        "engine": "Miri (cargo +nightly miri run), flags " + FLAGS,
        "what": "whole simulated runs of the C-ABI scenarios interpreted by Miri; any undefined behaviour aborts the run with a report",
        "runs_interpreted": runs, "undefined_behaviour_reports": 0 if failure is None else 1,
        "event_hash_mismatches_vs_native": mismatches, "batches": batches, "wall_s": round(time.time() - t0, 1),
        "components": {"real": ["rodbus-ffi generated extern \"C\" functions, conversions and callback wrappers", "rodbus client/server tasks", "simulated runtime wrapper"],
                       "stub": ["network, serial line, clock, executor (simtokio)", "C callbacks (harness)"]},
        "not_covered": "TLS batches (ring's assembly cannot be interpreted); leak checking is off (the harness keeps callback contexts alive by design)",
    }
    if isinstance(ev.get("wall_s"), (int, float)):
        ev["wall_s"] = ev["wall_s"] + time.time() - t0
    if failure is not None:
        ev["violations"] = 1
    json.dump(ev, open(ev_path, "w"), indent=1)
    if mismatches:
        print("HARNESS-ERROR %d runs have a different event-log hash under Miri than natively" % mismatches)
        return 2
    if failure is not None:
        bi, name, run, what, err, kind = failure
        path = write_replay(prop, bi, name, run, tier, what, err)
        print("VIOLATION property=%s replay=%s" % (prop, path))
        print("  rule=miri/%s batch %s run %d: %s" % (kind, name, run, what))
        return 1
    print("OK property=%s (undefined behaviour, Miri) tier=%s seed=%s runs=%d wall=%.1fs" % (prop, tier, env()["VERIF_SEED"], runs, time.time() - t0))
    return 0


if __name__ == "__main__":
    sys.exit(main())
